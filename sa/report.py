"""Obligations, verdicts, evidence and known findings (DESIGN 2.2, appendix C)."""

import json
import os
import re
import time

from . import AnalysisError

VERIF = os.path.dirname(os.path.dirname(os.path.abspath(__file__)))
KNOWN_FILE = os.path.join(VERIF, 'KNOWN_FINDINGS.txt')
EVID_DIR = os.path.join(VERIF, 'evidence')


class Finding:
    def __init__(self, rule, key, where, msg):
        self.rule = rule
        self.key = key
        self.where = where
        self.msg = msg
        self.known = None

    def as_dict(self):
        return {
            'rule': self.rule,
            'key': self.key,
            'where': self.where,
            'message': self.msg,
        }


class RuleCtx:
    """one rule of one property: counts instances / obligations, collects findings"""

    def __init__(self, report, rid, title, floor=1, breaks=''):
        self.report = report
        self.rid = rid
        self.title = title
        self.floor = floor
        self.breaks = breaks
        self.instances = 0
        self.obligations = 0
        self.discharged = 0
        self.nontrivial = set()
        self.samples = []
        self.findings = []
        self.notes = []
        self.extra = {}

    def instance(self, n=1):
        self.instances += n

    def ok(self, construct, detail='', where='', nontrivial=True):
        """an obligation that was evaluated and is discharged"""
        self.obligations += 1
        self.discharged += 1
        if nontrivial:
            self.nontrivial.add(construct)
        if len(self.samples) < 6:
            self.samples.append(
                {'construct': construct, 'where': where, 'verdict': 'discharged', 'detail': detail}
            )

    def fail(self, construct, where, msg, nontrivial=True):
        """an obligation that is not discharged (a violation unless listed as known)"""
        self.obligations += 1
        if nontrivial:
            self.nontrivial.add(construct)
        f = Finding(self.rid, construct, where, msg)
        self.findings.append(f)
        self.samples.insert(
            0, {'construct': construct, 'where': where, 'verdict': 'NOT discharged', 'detail': msg}
        )

    def check(self, cond, construct, where, ok_detail, fail_msg, nontrivial=True):
        if cond:
            self.ok(construct, ok_detail, where, nontrivial)
        else:
            self.fail(construct, where, fail_msg, nontrivial)
        return bool(cond)

    def note(self, text):
        self.notes.append(text)

    def __enter__(self):
        return self

    def __exit__(self, et, ev, tb):
        # a shortfall of instances only matters for a rule that would otherwise pass (vacuously); a rule that already
        # reports undischarged obligations is not passing
        if et is None and self.instances < self.floor and not self.findings:
            raise AnalysisError(
                f'rule {self.rid} matched {self.instances} instance(s), below the floor {self.floor} confirmed by reading: {self.title}'
            )
        return False


class Report:
    def __init__(self, pid, tier, prog, explanation, assumptions=()):
        self.pid = pid
        self.tier = tier
        self.prog = prog
        self.explanation = explanation
        self.assumptions = list(assumptions)
        self.rules = []
        self.t0 = time.time()
        self.variants = None
        self.functions = set()
        self.call_sites = 0
        self.extra = {}
        self.not_decided = []

    def rule(self, rid, title, floor=1, breaks=''):
        r = RuleCtx(self, rid, title, floor, breaks)
        self.rules.append(r)
        return r

    def analysed(self, *funcs):
        for f in funcs:
            if f is None:
                continue
            self.functions.add(f.qname)

    # ------------------------------------------------------------------ known
    @staticmethod
    def load_known():
        known, fixed = [], []
        if os.path.exists(KNOWN_FILE):
            with open(KNOWN_FILE, 'rt', encoding='utf-8') as f:
                for line in f:
                    line = line.strip()
                    if not line or line.startswith('#'):
                        continue
                    m = re.match(
                        r'known:\s+property=(\S+)\s+rule=(\S+)\s+key=(.*?)\s+::\s+(.*)$', line
                    )
                    if m:
                        known.append(m.groups())
                    elif line.startswith('fixed:'):
                        fixed.append(line)
                    else:
                        raise AnalysisError(f'unparsable line in KNOWN_FINDINGS.txt: {line}')
        return known, fixed

    # ----------------------------------------------------------------- finish
    def findings(self):
        return [f for r in self.rules for f in r.findings]

    def finish(self, replay_filter=None):
        known, _fixed = self.load_known()
        kmap = {(p, r, k): txt for p, r, k, txt in known}
        fresh, matched = [], []
        for f in self.findings():
            txt = kmap.get((self.pid, f.rule, f.key))
            if txt is not None:
                f.known = txt
                matched.append(f)
            else:
                fresh.append(f)
        wall = time.time() - self.t0
        obligations = sum(r.obligations for r in self.rules)
        discharged = sum(r.discharged for r in self.rules)
        nontrivial = set()
        for r in self.rules:
            nontrivial |= {(r.rid, c) for c in r.nontrivial}
        samples = []
        for r in self.rules:
            for s in r.samples[:3]:
                samples.append(dict(rule=r.rid, **s))
        cov = {
            'explanation': self.explanation,
            'units': len(self.prog.modules),
            'unit_digests': self.prog.units() if self.tier == 'thorough' else self.prog.units()[:0],
            'functions_analysed': sorted(self.functions),
            'rules': {
                r.rid: {
                    'title': r.title,
                    'breaks_when_violated': r.breaks,
                    'instances': r.instances,
                    'floor': r.floor,
                    'obligations': r.obligations,
                    'discharged': r.discharged,
                    'notes': r.notes,
                    **r.extra,
                }
                for r in self.rules
            },
            'obligations': obligations,
            'discharged': discharged,
            'evaluations': obligations,
            'distinct_nontrivial': len(nontrivial),
            'rule': 'obligations are enumerated by each rule from the resolved program (functions, call sites, guards, '
            'writer sites); one counts as non-trivial when deciding it needed a dataflow / truth-table / typestate / '
            'call-graph step (not a mere existence check); distinct = distinct (rule, construct) pairs',
            'samples': samples,
            'known_findings': [f.as_dict() for f in matched],
            'not_decided': self.not_decided,
            'checker_cmd': f'./check {self.pid} {self.tier}',
            'trusted_base': [
                'CPython ast/semantics of the statement kinds interpreted',
                'Twisted reactor single-threadedness, deferToThread, LoopingCall, Deferred chaining',
                'transitions library trigger semantics',
                'the inductive arguments of DESIGN.md section 4',
                "this checker's engine (re-validated against breaking/benign variants in the thorough tier)",
            ],
            **self.extra,
        }
        if self.variants is not None:
            cov['variants'] = self.variants
        ev = {
            'property_id': self.pid,
            'tier': self.tier,
            'seed': int(os.environ.get('VERIF_SEED', '0') or 0),
            'level': 'other',
            'coverage': cov,
            'assumptions': self.assumptions,
            'wall_s': round(wall, 3),
            'violations': len(fresh),
        }
        os.makedirs(EVID_DIR, exist_ok=True)
        if replay_filter is None and not os.environ.get('VERIF_NO_EVIDENCE'):
            with open(os.path.join(EVID_DIR, f'{self.pid}.json'), 'wt', encoding='utf-8') as f:
                json.dump(ev, f, indent=1, sort_keys=False)
        # ---- console
        print(
            f'[{self.pid} {self.tier}] units={len(self.prog.modules)} functions={len(self.functions)} '
            f'rules={len(self.rules)} obligations={obligations} discharged={discharged} '
            f'distinct_nontrivial={len(nontrivial)} wall={wall:.2f}s'
        )
        for r in self.rules:
            print(
                f'  {r.rid}: instances={r.instances} (floor {r.floor}) obligations={r.obligations} '
                f'discharged={r.discharged} -- {r.title}'
            )
            for n in r.notes:
                print(f'      note: {n}')
        for f in matched:
            print(f'KNOWN-FINDING: property={self.pid} {f.known} [{f.rule} {f.key} @ {f.where}]')
        if replay_filter is not None:
            hit = [f for f in fresh + matched if f.key == replay_filter['key'] and f.rule == replay_filter['rule']]
            if hit:
                for f in hit:
                    print(f'REPLAY: still failing: {f.rule} {f.key} @ {f.where}: {f.msg}')
                return 1
            print('REPLAY: obligation is discharged on the current tree')
            return 0
        if fresh:
            rdir = os.path.join(EVID_DIR, 'replay')
            os.makedirs(rdir, exist_ok=True)
            for i, f in enumerate(fresh):
                path = os.path.join(rdir, f'{self.pid}-{i}.json')
                with open(path, 'wt', encoding='utf-8') as fh:
                    json.dump(dict(property=self.pid, tier=self.tier, **f.as_dict()), fh, indent=1)
                print(f'  {f.rule} {f.where} [{f.key}]: {f.msg}')
                print(f'VIOLATION property={self.pid} replay={path}')
            return 1
        return 0
