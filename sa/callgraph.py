"""Call graph with deferred edges (DESIGN 2.1 callgraph, appendix B.8)."""

import ast

from .prog import Program, Func

THREAD = 'thread'  # deferToThread(f)
REACTOR = 'reactor'  # callLater / LoopingCall / addCallback(s) / DeferWithLogOnError / DynamicContent
DIRECT = 'direct'
REF = 'ref'  # function value passed or stored; invoked by someone else

_THREAD_FNS = {'deferToThread'}
_REACTOR_FNS = {
    'callLater',
    'LoopingCall',
    'addCallback',
    'addErrback',
    'addCallbacks',
    'addBoth',
    'DeferWithLogOnError',
    'DynamicContent',
    'callFromThread',
}
# protocol entry points invoked by Twisted from the reactor thread
REACTOR_ROOT_METHODS = {
    'dataReceived',
    'connectionLost',
    'connectionMade',
    'render_GET',
    'render_POST',
    'render_PUT',
    'render_DELETE',
    'render',
    'processEnded',
    'childDataReceived',
    'buildProtocol',
    'getChild',
}


class Edge:
    __slots__ = ('src', 'dst', 'kind', 'call', 'via')

    def __init__(self, src, dst, kind, call, via=None):
        self.src = src  # Func
        self.dst = dst  # qualified name (str) - repo function or 'external:...'
        self.kind = kind
        self.call = call  # ast.Call
        self.via = via  # name of the scheduling primitive for deferred edges

    def __repr__(self):
        return f'<{self.src.qname} -{self.kind}-> {self.dst}>'


class CallGraph:
    def __init__(self, prog: Program):
        self.prog = prog
        self.out = {}  # func qname -> [Edge]
        self.inn = {}  # dst qname -> [Edge]
        self.backends = [
            m for m in ('dawgie.db.shelve', 'dawgie.db.post', 'dawgie.db.test') if m in prog.modules
        ]
        for f in prog.funcs.values():
            self._scan(f)
        self._module_level()

    # ------------------------------------------------------------------ build
    def _add(self, e):
        self.out.setdefault(e.src.qname if e.src else '<module>', []).append(e)
        self.inn.setdefault(e.dst, []).append(e)

    def _targets(self, sym):
        """repo function names a resolved callee symbol stands for"""
        if sym is None:
            return []
        if sym.startswith('dbimpl:'):
            name = sym[7:]
            return [b + '.' + name for b in self.backends if b + '.' + name in self.prog.funcs]
        f = self.prog.func_of(sym)
        if f is not None:
            return [f.qname]
        return [sym]

    def _fn_values(self, expr, func):
        """repo functions denoted by an expression used as a value (callback)"""
        if isinstance(expr, (ast.Name, ast.Attribute)):
            sym = self.prog.resolve_in(expr, func)
            f = self.prog.func_of(sym) if sym else None
            if f is not None and sym not in self.prog.classes:
                return [f.qname]
            # X(...).method  e.g. LogFailure(...).log / DeferWithLogOnError(f, ..).callback
        if isinstance(expr, ast.Attribute) and isinstance(expr.value, ast.Call):
            c = self.prog.resolve_in(expr.value.func, func)
            if c in self.prog.classes:
                m = self.prog.method(c, expr.attr)
                if m is not None:
                    return [m.qname]
        return []

    def _scan(self, f: Func):
        for call in f.calls():
            sym = self.prog.callee(call, f)
            name = (
                call.func.attr
                if isinstance(call.func, ast.Attribute)
                else (call.func.id if isinstance(call.func, ast.Name) else None)
            )
            for t in self._targets(sym):
                self._add(Edge(f, t, DIRECT, call))
            # function-valued arguments
            kind = REF
            if name in _THREAD_FNS:
                kind = THREAD
            elif name in _REACTOR_FNS:
                kind = REACTOR
            args = list(call.args) + [k.value for k in call.keywords]
            for a in args:
                for t in self._fn_values(a, f):
                    self._add(Edge(f, t, kind, call, via=name))
            # DeferWithLogOnError(f, ...).callback : constructor argument runs in the reactor
        # setattr(p, 'dataReceived', fn) style stores and plain assignments of function values
        for n in f.own_nodes():
            if isinstance(n, ast.Assign) and isinstance(n.value, (ast.Name, ast.Attribute)):
                for t in self._fn_values(n.value, f):
                    self._add(Edge(f, t, REF, n, via='assign'))

    def _module_level(self):
        """module-level calls such as DynamicContent(handler, uri, methods)"""
        for m in self.prog.modules.values():
            for n in ast.walk(m.tree):
                pass
        # handled lazily by rules that need them (endpoint tables)

    # ---------------------------------------------------------------- queries
    def callees(self, qname, kinds=None):
        return [e for e in self.out.get(qname, []) if kinds is None or e.kind in kinds]

    def callers(self, qname, kinds=None):
        return [e for e in self.inn.get(qname, []) if kinds is None or e.kind in kinds]

    def reachable(self, roots, kinds=None, stop=None):
        """set of repo function qnames reachable from roots (following the given edge kinds)"""
        seen = set()
        todo = list(roots)
        while todo:
            q = todo.pop()
            if q in seen:
                continue
            seen.add(q)
            if stop and q in stop:
                continue
            for e in self.out.get(q, []):
                if kinds is None or e.kind in kinds:
                    if e.dst in self.prog.funcs and e.dst not in seen:
                        todo.append(e.dst)
        return seen

    def path(self, src, dst, kinds=None):
        """one call path src -> dst as a list of qnames, or None"""
        prev = {src: None}
        todo = [src]
        while todo:
            q = todo.pop(0)
            if q == dst:
                p = []
                while q is not None:
                    p.append(q)
                    q = prev[q]
                return p[::-1]
            for e in self.out.get(q, []):
                if (kinds is None or e.kind in kinds) and e.dst not in prev:
                    prev[e.dst] = q
                    todo.append(e.dst)
        return None

    def thread_roots(self):
        """functions started through deferToThread"""
        return sorted(
            {e.dst for es in self.out.values() for e in es if e.kind == THREAD and e.dst in self.prog.funcs}
        )

    def thread_reachable(self):
        """functions that may execute on a pool thread: reachable from a thread root through direct calls"""
        return self.reachable(self.thread_roots(), kinds={DIRECT})
