"""Repository-specific static analysis of al-niessner/DAWGIE (see /verif/DESIGN.md).

Only the standard library is used.  Nothing here imports or executes DAWGIE.
"""


class AnalysisError(Exception):
    """The checker could not do its job (anchor vanished, floor not met, ...).

    Reported as ANALYSIS-ERROR with exit status 2; never a violation.
    """
