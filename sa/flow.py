"""Syntax-directed disjunctive abstract interpreter (DESIGN 2.1 cfg/absint, B.2/B.3).

Instead of materialising a CFG the interpreter walks the statement tree and
propagates *sets of abstract states* (any hashable value) along every control
path: if/elif/else, for/while (+else, break, continue, fix-point), try/except/
else/finally, with, return, raise, short-circuit boolean operators and
conditional expressions.  A rule subclasses ``Flow`` and overrides the hooks;
everything path-related (dominance by a guard, must-call-before, exactly-once,
typestate) becomes a question about the states observed at a program point.
"""

import ast

from . import AnalysisError

CAP = 512


class Out:
    """outcomes of executing a block: state sets per exit kind"""

    __slots__ = ('normal', 'ret', 'brk', 'cont', 'exc')

    def __init__(self, normal=()):
        self.normal = set(normal)
        self.ret = set()
        self.brk = set()
        self.cont = set()
        self.exc = set()

    def absorb(self, o, normal=False):
        if normal:
            self.normal |= o.normal
        self.ret |= o.ret
        self.brk |= o.brk
        self.cont |= o.cont
        self.exc |= o.exc


class Flow:
    # ------------------------------------------------------------------ hooks
    def on_call(self, call: ast.Call, st):
        """effect of a call, after its arguments were evaluated -> iterable of states"""
        return (st,)

    def on_stmt(self, stmt, st):
        """effect of a simple statement after its expressions were evaluated"""
        return (st,)

    def on_test(self, expr, st):
        """atomic condition -> (iterable true-states, iterable false-states)"""
        return (st,), (st,)

    def on_for(self, node: ast.For, st):
        """entering one iteration of a for loop (bind the target) -> states"""
        return (st,)

    def on_for_done(self, node: ast.For, st):
        """leaving a for loop because the iterable is exhausted -> states"""
        return (st,)

    def on_with(self, item: ast.withitem, st):
        return (st,)

    def on_with_exit(self, node: ast.With, st):
        return (st,)

    def on_handler(self, handler: ast.ExceptHandler, st):
        """state on entry of an except handler; return () if this handler cannot catch"""
        return (st,)

    def on_return(self, node: ast.Return, st):
        return (st,)

    def on_raise(self, node: ast.Raise, st):
        return (st,)

    def may_raise(self, call: ast.Call, st):
        """whether a call inside a try body contributes an exception edge"""
        return True

    def on_expr(self, expr, st):
        """hook for non-call expression nodes of interest (Subscript, Attribute loads...)"""
        return (st,)

    # --------------------------------------------------------------- plumbing
    def __init__(self):
        self._try = []  # stack of sets collecting states that may raise
        self.visited = 0

    def _cap(self, s):
        if len(s) > CAP:
            raise AnalysisError(
                f'abstract state set exceeded {CAP} valuations in {type(self).__name__}'
            )
        return s

    def run(self, fnode, init):
        """run over a function body; returns Out"""
        out = self.block(fnode.body, {init} if not isinstance(init, set) else init)
        return out

    def exits(self, fnode, init):
        """all states at normal function exit (fall-through or return)"""
        o = self.run(fnode, init)
        return o.normal | o.ret

    def block(self, stmts, states) -> Out:
        out = Out()
        cur = set(states)
        for s in stmts:
            if not cur:
                break
            o = self.stmt(s, cur)
            out.absorb(o)
            cur = self._cap(o.normal)
        out.normal = cur
        return out

    def _each(self, fn, node, states):
        r = set()
        for st in states:
            r.update(fn(node, st))
        return self._cap(r)

    # ------------------------------------------------------------ statements
    split_assign_ifexp = False  # opt-in: `x = A if T else B` is walked as `if T: x = A` / `else: x = B`

    def stmt(self, s, states) -> Out:
        self.visited += 1
        m = getattr(self, '_s_' + type(s).__name__, None)
        if m is not None:
            return m(s, states)
        if self.split_assign_ifexp and isinstance(s, ast.Assign) and isinstance(s.value, ast.IfExp) and len(s.targets) == 1 and isinstance(s.targets[0], ast.Name):
            t, f = self.cond(s.value.test, set(states))
            out = Out()
            for val, sts in ((s.value.body, t), (s.value.orelse, f)):
                if sts:
                    o = self.stmt(ast.copy_location(ast.Assign(targets=s.targets, value=val, lineno=s.lineno), s), sts)
                    out.normal |= o.normal
                    out.exc |= o.exc
                    out.ret |= o.ret
                    out.brk |= o.brk
                    out.cont |= o.cont
            return out
        # simple statement: evaluate contained expressions in order, then hook
        cur = states
        for e in self._stmt_exprs(s):
            cur = self.eval(e, cur)
        return Out(self._each(self.on_stmt, s, cur))

    @staticmethod
    def _stmt_exprs(s):
        if isinstance(s, ast.Assign):
            return [s.value] + [t for t in s.targets if not isinstance(t, ast.Name)]
        if isinstance(s, ast.AugAssign):
            return [s.value] + ([s.target] if not isinstance(s.target, ast.Name) else [])
        if isinstance(s, ast.AnnAssign):
            return [s.value] if s.value is not None else []
        if isinstance(s, ast.Expr):
            return [s.value]
        if isinstance(s, ast.Delete):
            return [t for t in s.targets if not isinstance(t, ast.Name)]
        if isinstance(s, ast.Assert):
            return [s.test] + ([s.msg] if s.msg else [])
        return []

    def _s_FunctionDef(self, s, states):
        return Out(self._each(self.on_stmt, s, states))

    _s_AsyncFunctionDef = _s_FunctionDef
    _s_ClassDef = _s_FunctionDef

    split_return_ifexp = True  # default; opt-out where a rule reads the conditional expression itself: `return A if T else B` is walked as `if T: return A` / `else: return B`

    def _s_Return(self, s, states):
        if self.split_return_ifexp and isinstance(s.value, ast.IfExp):
            t, f = self.cond(s.value.test, set(states))
            o = Out()
            for val, sts in ((s.value.body, t), (s.value.orelse, f)):
                if sts:
                    o2 = self._s_Return(ast.copy_location(ast.Return(value=val), s), sts)
                    o.ret |= o2.ret
                    o.exc |= o2.exc
            return o
        cur = states
        if s.value is not None:
            cur = self.eval(s.value, cur)
        o = Out()
        o.ret = self._each(self.on_return, s, cur)
        return o

    def _s_Raise(self, s, states):
        cur = states
        if s.exc is not None:
            cur = self.eval(s.exc, cur)
        o = Out()
        o.exc = self._each(self.on_raise, s, cur)
        return o

    def _s_Break(self, s, states):
        o = Out()
        o.brk = set(states)
        return o

    def _s_Continue(self, s, states):
        o = Out()
        o.cont = set(states)
        return o

    def _s_If(self, s, states):
        t, f = self.cond(s.test, states)
        o = Out()
        ot = self.block(s.body, t)
        of = self.block(s.orelse, f) if s.orelse else Out(f)
        o.absorb(ot, True)
        o.absorb(of, True)
        return o

    def _s_While(self, s, states):
        out = Out()
        head = set(states)
        exits = set()
        while True:
            t, f = self.cond(s.test, head)
            exits |= f
            ob = self.block(s.body, t)
            out.ret |= ob.ret
            out.exc |= ob.exc
            out.normal |= ob.brk  # break skips orelse
            new = head | ob.normal | ob.cont
            self._cap(new)
            if new == head:
                break
            head = new
        if s.orelse:
            oe = self.block(s.orelse, exits)
            out.absorb(oe, True)
        else:
            out.normal |= exits
        return out

    def _s_For(self, s, states):
        out = Out()
        head = self.eval(s.iter, states)
        brk = set()
        while True:
            ent = self._each(self.on_for, s, head)
            ob = self.block(s.body, ent)
            out.ret |= ob.ret
            out.exc |= ob.exc
            brk |= ob.brk
            new = head | ob.normal | ob.cont
            self._cap(new)
            if new == head:
                break
            head = new
        done = self._each(self.on_for_done, s, head)
        if s.orelse:
            oe = self.block(s.orelse, done)
            out.absorb(oe, True)
        else:
            out.normal |= done
        out.normal |= brk
        return out

    _s_AsyncFor = _s_For

    def _s_With(self, s, states):
        cur = states
        for it in s.items:
            cur = self.eval(it.context_expr, cur)
            cur = self._each(self.on_with, it, cur)
        ob = self.block(s.body, cur)
        o = Out()
        o.normal = self._each(self.on_with_exit, s, ob.normal)
        o.ret = self._each(self.on_with_exit, s, ob.ret)
        o.brk = self._each(self.on_with_exit, s, ob.brk)
        o.cont = self._each(self.on_with_exit, s, ob.cont)
        o.exc = self._each(self.on_with_exit, s, ob.exc)
        return o

    _s_AsyncWith = _s_With

    def _s_Try(self, s, states):
        out = Out()
        self._try.append(set())
        ob = self.block(s.body, states)
        raised = self._try.pop() | ob.exc
        body_out = Out(ob.normal)
        body_out.ret, body_out.brk, body_out.cont = ob.ret, ob.brk, ob.cont
        if s.orelse:
            oe = self.block(s.orelse, ob.normal)
            body_out.normal = oe.normal
            body_out.absorb(oe)
        catch_all = False
        handled = Out()
        for h in s.handlers:
            ent = self._each(self.on_handler, h, raised)
            oh = self.block(h.body, ent)
            handled.absorb(oh, True)
            if h.type is None or (
                isinstance(h.type, ast.Name)
                and h.type.id in ('Exception', 'BaseException')
            ):
                catch_all = True
        res = Out()
        res.absorb(body_out, True)
        res.absorb(handled, True)
        if not catch_all:
            res.exc |= raised  # may propagate
        if self._try:
            self._try[-1] |= res.exc
        if s.finalbody:
            fin = Out()
            for kind in ('normal', 'ret', 'brk', 'cont', 'exc'):
                ins = getattr(res, kind)
                if not ins:
                    continue
                of = self.block(s.finalbody, ins)
                getattr(fin, kind).update(of.normal)
                fin.ret |= of.ret
                fin.exc |= of.exc
                fin.brk |= of.brk
                fin.cont |= of.cont
            res = fin
        return res

    _s_TryStar = _s_Try

    def _s_Match(self, s, states):
        cur = self.eval(s.subject, states)
        o = Out()
        for c in s.cases:
            oc = self.block(c.body, cur)
            o.absorb(oc, True)
        o.normal |= cur
        return o

    # ----------------------------------------------------------- expressions
    def eval(self, e, states):
        """evaluate an expression for its events (calls) in evaluation order"""
        if e is None or not states:
            return states
        self.visited += 1
        if isinstance(e, ast.Call):
            cur = states
            if isinstance(e.func, ast.Attribute):
                cur = self.eval(e.func.value, cur)
            elif not isinstance(e.func, ast.Name):
                cur = self.eval(e.func, cur)
            for a in e.args:
                cur = self.eval(a.value if isinstance(a, ast.Starred) else a, cur)
            for k in e.keywords:
                cur = self.eval(k.value, cur)
            if self._try:
                self._try[-1] |= {st for st in cur if self.may_raise(e, st)}
            r = self._each(self.on_call, e, cur)
            if self._try:
                self._try[-1] |= {st for st in r if self.may_raise(e, st)}
            return r
        if isinstance(e, ast.BoolOp) or (
            isinstance(e, ast.UnaryOp) and isinstance(e.op, ast.Not)
        ):
            t, f = self.cond(e, states)
            return self._cap(t | f)
        if isinstance(e, ast.IfExp):
            t, f = self.cond(e.test, states)
            return self._cap(self.eval(e.body, t) | self.eval(e.orelse, f))
        if isinstance(e, ast.Lambda):
            return states  # body runs later (deferred)
        if isinstance(e, (ast.ListComp, ast.SetComp, ast.GeneratorExp, ast.DictComp)):
            cur = states
            for g in e.generators:
                cur = self.eval(g.iter, cur)
            inner = cur
            for g in e.generators:
                for c in g.ifs:
                    t, f = self.cond(c, inner)
                    inner = t | f
            if isinstance(e, ast.DictComp):
                inner = self.eval(e.value, self.eval(e.key, inner))
            else:
                inner = self.eval(e.elt, inner)
            return self._cap(cur | inner)
        if isinstance(e, (ast.Constant, ast.Name)):
            return self._each(self.on_expr, e, states) if isinstance(e, ast.Name) else states
        cur = states
        for c in ast.iter_child_nodes(e):
            if isinstance(c, ast.expr):
                cur = self.eval(c, cur)
            elif isinstance(c, ast.keyword):
                cur = self.eval(c.value, cur)
        return self._each(self.on_expr, e, cur)

    def cond(self, e, states):
        """evaluate a condition -> (true states, false states) with short-circuit"""
        if not states:
            return set(), set()
        if isinstance(e, ast.UnaryOp) and isinstance(e.op, ast.Not):
            t, f = self.cond(e.operand, states)
            return f, t
        if isinstance(e, ast.BoolOp):
            if isinstance(e.op, ast.And):
                cur, fal = set(states), set()
                for v in e.values:
                    t, f = self.cond(v, cur)
                    fal |= f
                    cur = t
                return cur, fal
            cur, tru = set(states), set()
            for v in e.values:
                t, f = self.cond(v, cur)
                tru |= t
                cur = f
            return tru, cur
        lit = literal_bool_list(e)
        if lit is not None:
            kind, items = lit
            # all([...]) / any([...]): every element is evaluated, then combined
            if kind == 'all':
                cur, fal = set(states), set()
                for v in items:
                    t, f = self.cond(v, cur)
                    # no short circuit on evaluation, but branch outcome is the conjunction
                    fal |= f
                    cur = t
                return cur, fal
            cur, tru = set(states), set()
            for v in items:
                t, f = self.cond(v, cur)
                tru |= t
                cur = f
            return tru, cur
        if isinstance(e, ast.Constant):
            return (set(states), set()) if e.value else (set(), set(states))
        if isinstance(e, ast.NamedExpr):
            pass
        cur = self.eval(e, states) if not isinstance(e, ast.Name) else states
        T, F = set(), set()
        for st in cur:
            t, f = self.on_test(e, st)
            T.update(t)
            F.update(f)
        return self._cap(T), self._cap(F)


class Tracked(Flow):
    """Flow with path-sensitive tracking of simple local flags.

    States are pairs (inner, env).  env records, for plain local names, whether the name holds None ('none'), a value that
    is not None and truthy ('T') or not None and falsy ('F'); tests of such a name (`x`, `x is None`, `x is not None`,
    `x == None`) then follow only the feasible branch.  This makes single-exit code such as

        refusal = None
        if not active(): refusal = 'not active'
        elif seen():     refusal = 'seen'
        if refusal is not None: return fail(refusal)
        fire()

    equivalent, for every rule, to the early-return form.  A subclass implements the t_* hooks on the *inner* state
    (same contracts as the on_* hooks of Flow); run()/exits() wrap and unwrap, so callers keep passing inner states.
    """

    EMPTY = frozenset()

    # ---- hooks for subclasses (inner states)
    def t_call(self, call, st):
        return (st,)

    def t_stmt(self, stmt, st):
        return (st,)

    def t_test(self, expr, st):
        return (st,), (st,)

    def t_for(self, node, st):
        return (st,)

    def t_for_done(self, node, st):
        return (st,)

    def t_handler(self, handler, st):
        return (st,)

    def t_return(self, node, st):
        return (st,)

    def t_raise(self, node, st):
        return (st,)

    def t_may_raise(self, call, st):
        return True

    # ---- env helpers
    @staticmethod
    def _val(e):
        if isinstance(e, ast.Constant):
            if e.value is None:
                return 'none'
            return 'T' if e.value else 'F'
        if isinstance(e, ast.JoinedStr):
            return 'T' if e.values else 'F'
        return None

    @staticmethod
    def _set(env, name, val):
        env = frozenset(x for x in env if x[0] != name)
        return env | {(name, val)} if val is not None else env

    def _wrap(self, outs, env):
        return tuple((o, env) for o in outs)

    # ---- Flow hooks (wrapped states)
    def on_stmt(self, s, st):
        inner, env = st
        env2 = env
        tg = s.targets if isinstance(s, ast.Assign) else ([s.target] if isinstance(s, (ast.AugAssign, ast.AnnAssign)) else [])
        for t in tg:
            for n in ast.walk(t):
                if isinstance(n, ast.Name):
                    v = self._val(s.value) if isinstance(s, ast.Assign) and len(s.targets) == 1 and n is t else None
                    if v is None and isinstance(s, ast.Assign) and isinstance(s.value, ast.Name) and n is t:
                        v = dict(env).get(s.value.id)
                    env2 = self._set(env2, n.id, v)
        return self._wrap(self.t_stmt(s, inner), env2)

    def on_test(self, e, st):
        inner, env = st
        d = dict(env)
        name, kind = None, None
        if isinstance(e, ast.Name) and e.id in d:
            name, kind = e.id, 'truth'
        elif isinstance(e, ast.Compare) and len(e.ops) == 1 and isinstance(e.left, ast.Name) and e.left.id in d and isinstance(e.comparators[0], ast.Constant) and e.comparators[0].value is None:
            if isinstance(e.ops[0], (ast.Is, ast.Eq)):
                name, kind = e.left.id, 'isnone'
            elif isinstance(e.ops[0], (ast.IsNot, ast.NotEq)):
                name, kind = e.left.id, 'notnone'
        if name is not None:
            v = d[name]
            truth = {'truth': v == 'T', 'isnone': v == 'none', 'notnone': v != 'none'}[kind]
            return ((st,), ()) if truth else ((), (st,))
        t, f = self.t_test(e, inner)
        return self._wrap(t, env), self._wrap(f, env)

    def on_call(self, call, st):
        return self._wrap(self.t_call(call, st[0]), st[1])

    def on_for(self, node, st):
        env = st[1]
        for n in ast.walk(node.target):
            if isinstance(n, ast.Name):
                env = self._set(env, n.id, None)
        return self._wrap(self.t_for(node, st[0]), env)

    def on_for_done(self, node, st):
        return self._wrap(self.t_for_done(node, st[0]), st[1])

    def on_handler(self, h, st):
        # whatever was assigned inside the try body may or may not have happened: forget the flags
        return self._wrap(self.t_handler(h, st[0]), self.EMPTY)

    def on_return(self, node, st):
        return self._wrap(self.t_return(node, st[0]), st[1])

    def on_raise(self, node, st):
        return self._wrap(self.t_raise(node, st[0]), st[1])

    def may_raise(self, call, st):
        return self.t_may_raise(call, st[0])

    # ---- entry points: callers pass and receive inner states
    def run(self, fnode, init):
        inits = init if isinstance(init, set) else {init}
        o = self.block(fnode.body, {(i, self.EMPTY) for i in inits})
        out = Out()
        for k in ('normal', 'ret', 'brk', 'cont', 'exc'):
            setattr(out, k, {x[0] for x in getattr(o, k)})
        return out


def literal_bool_list(e):
    """all([a, b]) / any((a, b)) with a literal sequence -> ('all'|'any', [items])"""
    if (
        isinstance(e, ast.Call)
        and isinstance(e.func, ast.Name)
        and e.func.id in ('all', 'any')
        and len(e.args) == 1
        and not e.keywords
        and isinstance(e.args[0], (ast.List, ast.Tuple, ast.Set))
        and not any(isinstance(x, ast.Starred) for x in e.args[0].elts)
    ):
        return e.func.id, list(e.args[0].elts)
    return None


# ---------------------------------------------------------------------------
# helpers shared by rules


def call_name(call: ast.Call):
    """last attribute / name of the callee expression"""
    f = call.func
    if isinstance(f, ast.Attribute):
        return f.attr
    if isinstance(f, ast.Name):
        return f.id
    return None


def walk_no_nested(node):
    """ast.walk that does not descend into nested function/class definitions (lambdas are walked)"""
    stack = [node]
    while stack:
        n = stack.pop()
        yield n
        for c in ast.iter_child_nodes(n):
            if isinstance(c, (ast.FunctionDef, ast.AsyncFunctionDef, ast.ClassDef)):
                continue
            stack.append(c)
