"""Reader for the edge subset of pl/state.dot: `src -> dst [k=v, k="v", ...];` (comments stripped)."""

import os
import re

from . import AnalysisError
from .prog import src_root


class Edge:
    def __init__(self, src, dst, attrs, line):
        self.src = src
        self.dst = dst
        self.attrs = attrs
        self.line = line

    def get(self, k, d=None):
        return self.attrs.get(k, d)

    def __repr__(self):
        return f'<{self.src}->{self.dst} {self.attrs}>'


def edges_of(prog):
    """edges of the state machine of the analysed program (honours in-memory variants)"""
    return read_edges(path=os.path.join(prog.root, 'pl', 'state.dot'), text=prog.overlay.get('pl/state.dot'))


def read_edges(path=None, text=None):
    path = path or os.path.join(src_root(), 'pl', 'state.dot')
    if text is None:
        if not os.path.exists(path):
            raise AnalysisError(f'{path} not found')
        with open(path, 'rt', encoding='utf-8') as f:
            text = f.read()
    # strip /* */ and // comments, keep line numbers
    def blank(m):
        return re.sub(r'[^\n]', ' ', m.group(0))

    text = re.sub(r'/\*.*?\*/', blank, text, flags=re.S)
    text = re.sub(r'//[^\n]*', blank, text)
    edges = []
    for m in re.finditer(r'(\w+)\s*->\s*(\w+)\s*\[(.*?)\]', text, flags=re.S):
        attrs = {}
        for am in re.finditer(r'(\w+)\s*=\s*("(?:[^"\\]|\\.)*"|[^,\]\s]+)', m.group(3)):
            v = am.group(2)
            if v.startswith('"'):
                v = v[1:-1]
            attrs[am.group(1)] = v
        line = text.count('\n', 0, m.start()) + 1
        edges.append(Edge(m.group(1), m.group(2), attrs, line))
    if not edges:
        raise AnalysisError('no edges found in state.dot')
    return edges
