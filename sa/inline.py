"""Helper inlining so that rules see through 'extract function' / 'inline function' refactorings.

`inlined(prog, func, depth)` returns a pseudo ``Func`` whose body has the calls of *same-module* repository helpers
replaced by the helper's body (parameters bound to the caller's arguments, helper locals renamed, `return e` turned
into an assignment + break out of a one-shot `while True:` wrapper).  Single-expression helpers are substituted into
the expression that calls them (conditions included).  Only helpers that are plain functions / methods of the same
class / static methods are inlined; recursion, generators, *args/**kwargs and nested definitions are left alone.
"""

import ast
import copy

from .prog import Func, _assigned_names


_BASELINE = None


def baseline():
    """qualified names of the functions that existed when the rules were written (sa/baseline_funcs.txt).
    Only callees that are NOT in this list (newly extracted helpers) are inlined."""
    global _BASELINE
    if _BASELINE is None:
        import os

        path = os.path.join(os.path.dirname(os.path.abspath(__file__)), 'baseline_funcs.txt')
        with open(path, 'rt', encoding='utf-8') as f:
            _BASELINE = {l.strip() for l in f if l.strip() and not l.startswith('#')}
    return _BASELINE


def _is_docstring(s):
    return isinstance(s, ast.Expr) and isinstance(s.value, ast.Constant) and isinstance(s.value.value, str)


def _body(fn: Func):
    b = list(fn.node.body)
    while b and (_is_docstring(b[0]) or isinstance(b[0], ast.Pass)):
        b = b[1:]
    return b


def _simple_params(fn: Func):
    a = fn.node.args
    return not (a.vararg or a.kwarg or a.posonlyargs)


def _has_nested(fn: Func):
    return any(isinstance(n, (ast.FunctionDef, ast.AsyncFunctionDef, ast.ClassDef, ast.Yield, ast.YieldFrom, ast.Await, ast.Global, ast.Nonlocal)) for n in ast.walk(fn.node) if n is not fn.node)


class _Rename(ast.NodeTransformer):
    def __init__(self, mapping):
        self.mapping = mapping  # name -> ast expr (for params) or new name (str)

    def visit_Name(self, node):
        m = self.mapping.get(node.id)
        if m is None:
            return node
        if isinstance(m, str):
            return ast.copy_location(ast.Name(id=m, ctx=node.ctx), node)
        if isinstance(node.ctx, ast.Load):
            return ast.copy_location(copy.deepcopy(m), node)
        return node

    def visit_Call(self, node):
        node = self.generic_visit(node)
        # beta-reduce a thunk parameter:  (lambda: e)()  ==>  e
        f = node.func
        if isinstance(f, ast.Lambda) and not node.args and not node.keywords and not (f.args.args or f.args.vararg or f.args.kwarg or f.args.kwonlyargs or f.args.posonlyargs):
            return f.body
        return node

    def visit_Lambda(self, node):
        shadow = {a.arg for a in node.args.args + node.args.kwonlyargs}
        inner = _Rename({k: v for k, v in self.mapping.items() if k not in shadow})
        node.body = inner.visit(node.body)
        node.args.defaults = [self.visit(d) for d in node.args.defaults]
        return node


def _bind(callee: Func, call: ast.Call, self_expr):
    """parameter name -> argument expression (defaults filled in); None if the call cannot be bound"""
    params = [a.arg for a in callee.node.args.args]
    defaults = callee.node.args.defaults
    binding = {}
    pos = list(call.args)
    if any(isinstance(a, ast.Starred) for a in pos) or any(k.arg is None for k in call.keywords):
        return None
    names = params
    if self_expr is not None and params:
        binding[params[0]] = self_expr
        names = params[1:]
    if len(pos) > len(names):
        return None
    for n, a in zip(names, pos):
        binding[n] = a
    for k in call.keywords:
        if k.arg not in names or k.arg in binding:
            return None
        binding[k.arg] = k.value
    def at_def_time(d):
        # a default is evaluated once, when the function is defined: only a literal may be copied to the call site
        return isinstance(d, ast.Constant) or (isinstance(d, ast.Tuple) and all(isinstance(x, ast.Constant) for x in d.elts))

    for i, n in enumerate(params):
        if n not in binding:
            di = i - (len(params) - len(defaults))
            if di < 0 or not at_def_time(defaults[di]):
                return None
            binding[n] = defaults[di]
    for a, d in zip(callee.node.args.kwonlyargs, callee.node.args.kw_defaults):
        if a.arg not in binding:
            if d is None or not at_def_time(d):
                return None
            binding[a.arg] = d
    return binding


class Inliner:
    def __init__(self, prog, func: Func, depth=2, hoist=True):
        self.prog = prog
        self.func = func
        self.depth = depth
        self.hoist = hoist  # multi-statement helpers called inside a test / an argument are hoisted into a temporary first
        self.counter = 0
        self.inlined = []  # qnames

    def _callee(self, call, stack):
        f = call.func
        sym = self.prog.resolve_in(f, self.func) if isinstance(f, (ast.Name, ast.Attribute)) else None
        g = self.prog.func_of(sym) if sym else None
        if g is None or sym in self.prog.classes:
            return None, None
        if g.qname in baseline():
            return None, None  # a function boundary the rules were written against: analysed by name, not dissolved
        if g.module is not self.func.module or g.qname in stack or g is self.func:
            return None, None
        if g.parent is not None or not _simple_params(g) or _has_nested(g):
            return None, None
        if any(not (isinstance(d, ast.Name) and d.id == 'staticmethod') for d in g.node.decorator_list):
            return None, None  # a decorated helper (memoised, wrapped, ...) is not its body
        self_expr = None
        if g.cls is not None and not g.is_staticmethod():
            if isinstance(f, ast.Attribute) and isinstance(f.value, ast.Name) and f.value.id in ('self', 'cls'):
                self_expr = f.value
            else:
                return None, None
        elif g.cls is not None and g.is_property():
            return None, None
        return g, self_expr

    def _fresh(self, g, name):
        return f'_inl{self.counter}_{g.name}_{name}'

    # ---- expression helpers: body == `return <expr>`
    def expr(self, e, stack, depth):
        if depth <= 0:
            return e
        outer = self

        class T(ast.NodeTransformer):
            def visit_Call(s, node):
                node = s.generic_visit(node)
                g, self_expr = outer._callee(node, stack)
                if g is None:
                    return node
                b = _body(g)
                if len(b) == 1 and isinstance(b[0], ast.Return) and b[0].value is not None:
                    binding = _bind(g, node, self_expr)
                    if binding is None:
                        return node
                    # arguments must be simple (names / attributes / constants) to be duplicated safely
                    if not all(isinstance(v, (ast.Name, ast.Attribute, ast.Constant)) or outer._pure(v) for v in binding.values()):
                        return node
                    outer.inlined.append(g.qname)
                    new = _Rename(dict(binding)).visit(copy.deepcopy(b[0].value))
                    new = outer.expr(new, stack + (g.qname,), depth - 1)
                    return ast.copy_location(new, node)
                return node

        return T().visit(e)

    @staticmethod
    def _pure(v):
        return all(isinstance(n, (ast.Name, ast.Attribute, ast.Constant, ast.Subscript, ast.Load, ast.Call, ast.IfExp, ast.Compare, ast.BoolOp, ast.And, ast.Or, ast.Not, ast.UnaryOp, ast.BinOp, ast.Add, ast.Tuple, ast.List, ast.keyword, ast.operator, ast.cmpop, ast.expr_context)) for n in ast.walk(v))

    # ---- statement helpers
    def block(self, stmts, stack, depth):
        out = []
        for s in stmts:
            out.extend(self.stmt(s, stack, depth))
        return out

    def stmt(self, s, stack, depth):
        # recurse into compound statements first
        guarded = isinstance(s, (ast.Try, ast.With, ast.AsyncWith))  # an exception raised inside can be observed by the caller
        if guarded:
            self.try_depth = getattr(self, 'try_depth', 0) + 1
        for fld in ('body', 'orelse', 'finalbody'):
            if isinstance(getattr(s, fld, None), list) and not isinstance(s, (ast.FunctionDef, ast.AsyncFunctionDef, ast.ClassDef)):
                setattr(s, fld, self.block(getattr(s, fld), stack, depth))
        if isinstance(s, ast.Try):
            for h in s.handlers:
                h.body = self.block(h.body, stack, depth)
        if guarded:
            self.try_depth -= 1
        # a multi-statement helper called in an `if` test, or as the only argument of a call statement, is hoisted into a
        # temporary first:  if h(x): ...  ==>  _t = h(x); if _t: ...     acc.extend(h(x))  ==>  _t = h(x); acc.extend(_t)
        if depth > 0:
            hoist = None
            if isinstance(s, ast.If):
                t = s.test
                inner = t.operand if isinstance(t, ast.UnaryOp) and isinstance(t.op, ast.Not) else t
                # without self.hoist (program-wide dissolution) only helpers that run straight to one trailing return are
                # taken out of a test; guard-style predicates (several returns) stay functions
                if isinstance(inner, ast.Call) and self._multi(inner, stack) and (self.hoist or self._straight(inner, stack)):
                    hoist = ('test', inner)
            elif self.hoist and isinstance(s, ast.Expr) and isinstance(s.value, ast.Call) and len(s.value.args) == 1 and not s.value.keywords:
                a0 = s.value.args[0]
                if isinstance(a0, ast.Call) and self._multi(a0, stack) and not self._multi(s.value, stack):
                    hoist = ('arg', a0)
            if hoist is not None:
                self.counter += 1
                tmp = f'_inl{self.counter}_tmp'
                asg = ast.copy_location(ast.Assign(targets=[ast.Name(id=tmp, ctx=ast.Store())], value=hoist[1], lineno=s.lineno), s)
                ref = ast.copy_location(ast.Name(id=tmp, ctx=ast.Load()), s)
                if hoist[0] == 'test':
                    if isinstance(s.test, ast.UnaryOp):
                        s.test.operand = ref
                    else:
                        s.test = ref
                else:
                    s.value.args[0] = ref
                ast.fix_missing_locations(asg)
                return self.stmt(asg, stack, depth) + [s]
        # a multi-statement helper whose call is the first thing a return / assignment / call statement evaluates is
        # hoisted into a temporary (`return (r, h(x))` -> `_t = h(x); return (r, _t)`), then spliced as a statement
        if depth > 0 and isinstance(s, (ast.Return, ast.Assign, ast.Expr)) and s.value is not None:
            inner = next((c for c in ast.walk(s.value) if c is not s.value and isinstance(c, ast.Call) and self._multi(c, stack) and _first_node(s.value, c)), None)
            if inner is not None:
                self.counter += 1
                tmp = f'_inl{self.counter}_tmp'
                asg = ast.copy_location(ast.Assign(targets=[ast.Name(id=tmp, ctx=ast.Store())], value=inner, lineno=s.lineno), s)
                s.value = _replace_node(s.value, inner, ast.copy_location(ast.Name(id=tmp, ctx=ast.Load()), s))
                ast.fix_missing_locations(asg)
                first = self.stmt(asg, stack, depth)
                # the temporary is read once, by the statement that follows: fold it back when the splice left a plain
                # `tmp = <name>` at its end
                if first and isinstance(first[-1], ast.Assign) and isinstance(first[-1].targets[0], ast.Name) and first[-1].targets[0].id == tmp and isinstance(first[-1].value, (ast.Name, ast.Constant)):
                    s.value = _replace_name(s.value, tmp, first[-1].value)
                    first = first[:-1]
                return first + self.stmt(s, stack, depth)
        call, target, is_ret = None, None, False
        if isinstance(s, ast.Expr) and isinstance(s.value, ast.Call):
            call = s.value
        elif isinstance(s, ast.Assign) and isinstance(s.value, ast.Call) and len(s.targets) == 1:
            call, target = s.value, s.targets[0]
        elif isinstance(s, ast.Return) and isinstance(s.value, ast.Call):
            call, is_ret = s.value, True
        if call is not None and depth > 0:
            g, self_expr = self._callee(call, stack)
            if g is not None:
                b = _body(g)
                single_expr = len(b) == 1 and isinstance(b[0], ast.Return)
                if not single_expr:
                    binding = _bind(g, call, self_expr)
                    if binding is not None:
                        return self._splice(s, g, binding, target, is_ret, stack, depth)
        # expression-level substitution inside this statement (not into nested statement lists: done above)
        if depth > 0 and not isinstance(s, (ast.FunctionDef, ast.AsyncFunctionDef, ast.ClassDef)):
            for fld, val in list(ast.iter_fields(s)):
                if isinstance(val, ast.expr):
                    setattr(s, fld, self.expr(val, stack, depth))
                elif isinstance(val, list) and val and all(isinstance(x, ast.expr) for x in val):
                    setattr(s, fld, [self.expr(x, stack, depth) for x in val])
                elif isinstance(val, list) and val and all(isinstance(x, ast.withitem) for x in val):
                    for it in val:
                        it.context_expr = self.expr(it.context_expr, stack, depth)
        return [s]

    def _straight(self, call, stack):
        g, _ = self._callee(call, stack)
        if g is None:
            return False
        b = _body(g)
        rets = [n for x in b for n in ast.walk(x) if isinstance(n, ast.Return)]
        return len(rets) == 1 and rets[0] is b[-1]

    def _multi(self, call, stack):
        """call of an inlinable helper whose body is more than a single `return <expr>`"""
        g, self_expr = self._callee(call, stack)
        if g is None:
            return False
        b = _body(g)
        if len(b) == 1 and isinstance(b[0], ast.Return):
            return False
        return _bind(g, call, self_expr) is not None

    def _splice(self, s, g, binding, target, is_ret, stack, depth):
        self.counter += 1
        self.inlined.append(g.qname)
        pre = []
        mapping = {}
        for p, a in binding.items():
            zero_lambda = isinstance(a, ast.Lambda) and not (a.args.args or a.args.vararg or a.args.kwarg or a.args.kwonlyargs or a.args.posonlyargs)
            if isinstance(a, (ast.Name, ast.Constant)) or (isinstance(a, ast.Attribute) and self._pure(a)) or zero_lambda:
                # reassigned parameters need a real local
                reassigned = any(isinstance(n, ast.Name) and n.id == p and isinstance(n.ctx, ast.Store) for n in ast.walk(g.node))
                if not reassigned:
                    mapping[p] = a
                    continue
                # the helper rebinds its parameter and the call assigns to the very name that was passed
                # (`x = h(x)`, `x, y = h(x, y)`): outside any try / with of the caller nobody can see the intermediate
                # values of x (an exception leaves the function), so the caller's x can play the parameter
                if (
                    isinstance(a, ast.Name)
                    and target is not None
                    and not getattr(self, 'try_depth', 0)
                    and len(stack) == 1
                    and a.id in {n.id for n in ast.walk(target) if isinstance(n, ast.Name)}
                    and all(isinstance(n, (ast.Name, ast.Tuple, ast.List, ast.Store, ast.Load)) for n in ast.walk(target))
                ):
                    mapping[p] = a.id
                    continue
                # the helper rebinds its parameter: harmless for the caller when the argument is a plain local the
                # caller reads nowhere else (it is dead after the call), so the caller's name can play the parameter
                if isinstance(a, ast.Name):
                    everywhere = sum(1 for n in ast.walk(self.func.node) if isinstance(n, ast.Name) and n.id == a.id and isinstance(n.ctx, ast.Load))
                    here = sum(1 for n in ast.walk(s) if isinstance(n, ast.Name) and n.id == a.id and isinstance(n.ctx, ast.Load))
                    if everywhere == here == 1:
                        mapping[p] = a.id
                        continue
            nm = self._fresh(g, p)
            pre.append(ast.copy_location(ast.Assign(targets=[ast.Name(id=nm, ctx=ast.Store())], value=copy.deepcopy(a), lineno=s.lineno), s))
            mapping[p] = nm
        # names bound by an import inside the helper keep their name (the statement cannot be renamed; binding the same
        # module name in the caller denotes the same module)
        imported = {(a.asname or a.name).split('.')[0] for n in g.own_nodes() if isinstance(n, (ast.Import, ast.ImportFrom)) for a in n.names}
        for n in _assigned_names(g):
            if n not in mapping and n not in imported:
                mapping[n] = self._fresh(g, n)
        body = [_Rename(dict(mapping)).visit(copy.deepcopy(x)) for x in _body(g)]
        retname = self._fresh(g, 'ret')
        uses_ret = target is not None or is_ret

        class R(ast.NodeTransformer):
            def visit_Return(r, node):
                out = []
                if uses_ret:
                    val = node.value if node.value is not None else ast.Constant(value=None)
                    out.append(ast.copy_location(ast.Assign(targets=[ast.Name(id=retname, ctx=ast.Store())], value=val, lineno=node.lineno), node))
                out.append(ast.copy_location(ast.Break(), node))
                return out

            def visit_FunctionDef(r, node):
                return node

            def visit_For(r, node):
                # a return inside a loop of the helper cannot become a plain break: mark as not inlinable
                if any(isinstance(x, ast.Return) for x in ast.walk(node)):
                    raise _NoInline()
                return node

            visit_While = visit_For

        # a helper that only falls off its end, or returns in its last statement only, needs no one-shot loop
        rets = [n for x in body for n in ast.walk(x) if isinstance(n, ast.Return)]
        straight = not rets or (len(rets) == 1 and body and rets[0] is body[-1])
        if straight:
            val = None
            if rets:
                last = body.pop()
                val = last.value
            fresh = {v for v in mapping.values() if isinstance(v, str)}  # the helper's renamed locals

            def rename_into(old, new_name):
                """the helper local `old` becomes the caller's `new_name` (the name it is returned into)"""
                class RN(ast.NodeTransformer):
                    def visit_Name(r, node):
                        if node.id == old:
                            node.id = new_name
                        return node
                for x in body:
                    RN().visit(x)

            def caller_name_free(nm):
                # the caller's name must not be read or bound by the spliced body (a parameter bound to it, say)
                return not any(isinstance(n, ast.Name) and n.id == nm for x in body + pre for n in ast.walk(x))

            tail = []
            if target is not None:
                if val is None:
                    tail = [ast.Assign(targets=[target], value=ast.Constant(value=None), lineno=s.lineno)]
                elif (
                    isinstance(target, (ast.Tuple, ast.List))
                    and isinstance(val, ast.Tuple)
                    and len(target.elts) == len(val.elts)
                    and all(isinstance(t, ast.Name) for t in target.elts)
                    and all(isinstance(v, (ast.Name, ast.Constant)) for v in val.elts)
                    and len({t.id for t in target.elts}) == len(target.elts)
                    and not any(isinstance(v, ast.Name) and v.id in {t.id for t in target.elts} and v.id != t.id for t, v in zip(target.elts, val.elts))
                ):
                    # a, b = helper(...)  with  `return x, y`: x and y (renamed locals of the helper) become a and b
                    vals = [v.id for v in val.elts if isinstance(v, ast.Name)]
                    for t, v in zip(target.elts, val.elts):
                        if isinstance(v, ast.Name) and v.id == t.id:
                            continue  # the caller's own name played the parameter: already holds the value
                        if isinstance(v, ast.Name) and v.id in fresh and vals.count(v.id) == 1 and caller_name_free(t.id):
                            rename_into(v.id, t.id)
                        else:
                            tail.append(ast.Assign(targets=[t], value=v, lineno=s.lineno))
                elif isinstance(target, ast.Name) and isinstance(val, ast.Name) and val.id == target.id:
                    pass  # x = h(x) with the caller's x as the parameter
                elif isinstance(target, ast.Name) and isinstance(val, ast.Name) and val.id in fresh and caller_name_free(target.id):
                    rename_into(val.id, target.id)  # x = helper(...)  with  `return y`: y is x
                else:
                    tail = [ast.Assign(targets=[target], value=val, lineno=s.lineno)]
            elif is_ret:
                tail = [ast.Return(value=val)]
            elif val is not None and not isinstance(val, (ast.Name, ast.Constant)):
                tail = [ast.Expr(value=val)]
            for n in tail:
                ast.copy_location(n, s)
            body = self.block(body + tail, stack + (g.qname,), depth - 1)
            out = pre + body
            if not out:
                out = [ast.copy_location(ast.Pass(), s)]
            for n in out:
                ast.fix_missing_locations(n)
            return out
        # several returns, all in tail position of nested ifs (guard style): restructure into if / else, every return
        # becoming an assignment of the result (no one-shot loop)
        body_names = {n.id for x in body for n in ast.walk(x) if isinstance(n, ast.Name)}
        tailed = _tailify(copy.deepcopy(body))
        if tailed is not None:
            def deliver(val):
                val = val if val is not None else ast.Constant(value=None)
                if target is None:
                    if is_ret:
                        return [ast.Return(value=val)]
                    return [] if isinstance(val, (ast.Name, ast.Constant)) else [ast.Expr(value=val)]
                if (
                    isinstance(target, (ast.Tuple, ast.List))
                    and isinstance(val, ast.Tuple)
                    and len(target.elts) == len(val.elts)
                    and all(isinstance(t, ast.Name) for t in target.elts)
                    and len({t.id for t in target.elts}) == len(target.elts)
                    and not ({t.id for t in target.elts} & {n.id for v in val.elts for n in ast.walk(v) if isinstance(n, ast.Name)})
                ):
                    return [ast.Assign(targets=[copy.deepcopy(t)], value=v, lineno=s.lineno) for t, v in zip(target.elts, val.elts)]
                return [ast.Assign(targets=[copy.deepcopy(target)], value=val, lineno=s.lineno)]

            def fill(stmts):
                out_ = []
                for x in stmts:
                    if isinstance(x, ast.Return):
                        out_.extend(deliver(x.value))
                        return out_, True
                    if isinstance(x, ast.If) and any(isinstance(n, ast.Return) for n in ast.walk(x)):
                        b, _ = fill(x.body)
                        o, _ = fill(x.orelse)
                        x.body = b or [ast.Pass()]
                        x.orelse = o
                        out_.append(x)
                        continue
                    out_.append(x)
                return out_, False

            total = _all_paths_return(tailed)
            new_body, ended = fill(tailed)
            if not total and (target is not None or is_ret):
                new_body = None  # a path falls off the end: keep the general form below
            if new_body is not None:
                # the caller's names that receive the result must not be touched by the helper body itself
                tn = {n.id for n in ast.walk(target) if isinstance(n, ast.Name)} if target is not None else set()
                if not (tn & body_names):
                    new_body = self.block(new_body, stack + (g.qname,), depth - 1)
                    out = pre + new_body
                    if not out:
                        out = [ast.Pass()]
                    for n in out:
                        ast.copy_location(n, s) if not hasattr(n, 'lineno') else None
                        ast.fix_missing_locations(n)
                    return out
        try:
            body = [y for x in body for y in _aslist(R().visit(x))]
        except _NoInline:
            self.inlined.pop()
            return [s]
        body = self.block(body, stack + (g.qname,), depth - 1)
        loop_body = ([ast.Assign(targets=[ast.Name(id=retname, ctx=ast.Store())], value=ast.Constant(value=None), lineno=s.lineno)] if uses_ret else []) + body + [ast.Break()]
        loop = ast.While(test=ast.Constant(value=True), body=loop_body, orelse=[])
        ast.copy_location(loop, s)
        out = pre + [loop]
        if target is not None:
            out.append(ast.copy_location(ast.Assign(targets=[target], value=ast.Name(id=retname, ctx=ast.Load()), lineno=s.lineno), s))
        elif is_ret:
            out.append(ast.copy_location(ast.Return(value=ast.Name(id=retname, ctx=ast.Load())), s))
        for n in out:
            ast.fix_missing_locations(n)
        return out


def _ends_in_return(stmts):
    if not stmts:
        return False
    last = stmts[-1]
    if isinstance(last, ast.Return):
        return True
    if isinstance(last, ast.If):
        return _ends_in_return(last.body) and _ends_in_return(last.orelse)
    return False


def _all_paths_return(stmts):
    return _ends_in_return(stmts)


def _tailify(stmts):
    """statements of a helper body rewritten so that every `return` is the last statement of its block and those blocks
    are arms of nested ifs in tail position (statements after `if c: ...; return` move into the else arm); None when a
    return sits inside a loop / try / with (then the general splice is used).  Works on the copies it is given."""
    out = []
    for i, x in enumerate(stmts):
        if isinstance(x, ast.Return):
            out.append(x)
            return out
        has_ret = any(isinstance(n, ast.Return) for n in ast.walk(x))
        if not has_ret:
            out.append(x)
            continue
        if not isinstance(x, ast.If):
            return None
        rest = list(stmts[i + 1:])
        b_end, o_end = _ends_in_return(x.body), _ends_in_return(x.orelse)
        if b_end and o_end:
            body, orelse = _tailify(x.body), _tailify(x.orelse)
        elif b_end:
            body, orelse = _tailify(x.body), _tailify(list(x.orelse) + rest)
            rest = []
        elif o_end:
            body, orelse = _tailify(list(x.body) + rest), _tailify(x.orelse)
            rest = []
        else:
            # a return somewhere inside an arm that goes on: both arms continue with the rest
            body, orelse = _tailify(list(x.body) + copy.deepcopy(rest)), _tailify(list(x.orelse) + rest)
            rest = []
        if body is None or orelse is None:
            return None
        x.body, x.orelse = body or [ast.Pass()], orelse
        out.append(x)
        if rest:
            more = _tailify(rest)
            if more is None:
                return None
            out.extend(more)
        return out
    return out


def _pure_prefix(e):
    while isinstance(e, ast.Attribute):
        e = e.value
    return isinstance(e, (ast.Name, ast.Constant))


def _first_node(e, node):
    """True if `node` (a sub-expression of e) is evaluated before anything of e that has an effect, unconditionally"""
    if e is node:
        return True
    if isinstance(e, ast.Call):
        if any(isinstance(a, ast.Starred) for a in e.args):
            return False
        parts = [e.func] + list(e.args) + [k.value for k in e.keywords]
    elif isinstance(e, ast.Attribute):
        parts = [e.value]
    elif isinstance(e, ast.Subscript):
        parts = [e.value, e.slice]
    elif isinstance(e, ast.BinOp):
        parts = [e.left, e.right]
    elif isinstance(e, ast.UnaryOp):
        parts = [e.operand]
    elif isinstance(e, ast.Compare):
        if len(e.ops) != 1:
            return False
        parts = [e.left, e.comparators[0]]
    elif isinstance(e, (ast.Tuple, ast.List, ast.Set)):
        parts = list(e.elts)
    elif isinstance(e, ast.BoolOp):
        parts = [e.values[0]]
    elif isinstance(e, ast.IfExp):
        parts = [e.test]
    else:
        return False
    for part in parts:
        if any(x is node for x in ast.walk(part)):
            return _first_node(part, node)
        if not _pure_prefix(part):
            return False
    return False


def _replace_node(e, old, new):
    class T(ast.NodeTransformer):
        def visit(self, n):
            if n is old:
                return new
            return super().visit(n)

    return T().visit(e)


def _replace_name(e, name, value):
    class T(ast.NodeTransformer):
        def visit_Name(self, n):
            return copy.deepcopy(value) if n.id == name and isinstance(n.ctx, ast.Load) else n

    return T().visit(e)


class _NoInline(Exception):
    pass


def _aslist(x):
    return x if isinstance(x, list) else [x]


def _cache(prog):
    """per-Program cache (stored on the Program object: a cache keyed by id(prog) can hand out functions of a freed
    Program whose id was reused by a later one when variants are analysed one after another in one worker process)"""
    c = getattr(prog, '_inline_cache', None)
    if c is None:
        c = prog._inline_cache = {}
    return c


class _Legacy:
    """kept so that `_inline._CACHE.clear()` in rule modules stays harmless"""

    def clear(self):
        pass


_CACHE = _Legacy()


def inlined(prog, func: Func, depth=2, hoist=True) -> Func:
    """pseudo Func with same-module helpers inlined (cached per program/function)"""
    key = (id(prog), func.qname, depth, hoist)
    if key in _cache(prog):
        return _cache(prog)[key]
    node = copy.deepcopy(func.node)
    inl = Inliner(prog, func, depth, hoist)
    node.body = inl.block(node.body, (func.qname,), depth)
    ast.fix_missing_locations(node)
    f2 = Func(func.qname, node, func.module, func.cls, func.parent)
    f2.children = func.children
    f2.inlined_from = sorted(set(inl.inlined))
    _cache(prog)[key] = f2
    return f2


class _Dealias(ast.NodeTransformer):
    def __init__(self, mapping):
        self.mapping = mapping

    def visit_Name(self, node):
        if isinstance(node.ctx, ast.Load) and node.id in self.mapping:
            return ast.copy_location(copy.deepcopy(self.mapping[node.id]), node)
        return node


def dealiased(prog, func: Func, keys=('todo', 'doing', 'do')) -> Func:
    """pseudo Func in which locals bound exactly once to `<name>.get('<key>'[, default])` are replaced by that expression
    (the sets are shared mutable objects, so the alias denotes the same set)"""
    key = (id(prog), func.qname, 'dealias', id(func.node))
    if key in _cache(prog):
        return _cache(prog)[key]
    counts, vals = {}, {}
    # comprehension targets live in their own scope: a `job` bound inside `{j.tag: j for job in que}` is another variable
    comp_scoped = {id(t) for c in func.own_nodes() if isinstance(c, (ast.ListComp, ast.SetComp, ast.DictComp, ast.GeneratorExp)) for g in c.generators for t in ast.walk(g.target)}
    for n in func.own_nodes():
        if isinstance(n, ast.Name) and isinstance(n.ctx, ast.Store) and id(n) not in comp_scoped:
            counts[n.id] = counts.get(n.id, 0) + 1
        if isinstance(n, ast.Assign) and len(n.targets) == 1 and isinstance(n.targets[0], ast.Name):
            v = n.value
            if (
                isinstance(v, ast.Call)
                and isinstance(v.func, ast.Attribute)
                and v.func.attr == 'get'
                and isinstance(v.func.value, ast.Name)
                and v.args
                and isinstance(v.args[0], ast.Constant)
                and v.args[0].value in keys
            ):
                vals[n.targets[0].id] = v
    mapping = {k: v for k, v in vals.items() if counts.get(k) == 1 and counts.get(v.func.value.id, 0) <= 1}
    # locals bound exactly once to a pure attribute chain (`priority = self.priority`, `Priority = pkg.mod.Class`,
    # `idx = DBI().indices` is NOT one) when that chain is never stored to in this function
    stored = set()
    for n in func.own_nodes():
        if isinstance(n, (ast.Assign, ast.AugAssign, ast.AnnAssign)):
            for t in n.targets if isinstance(n, ast.Assign) else [n.target]:
                if isinstance(t, ast.Attribute):
                    stored.add(ast.unparse(t))
    params = set(func.params())
    for n in func.own_nodes():
        if isinstance(n, ast.Assign) and len(n.targets) == 1 and isinstance(n.targets[0], ast.Name):
            name, v = n.targets[0].id, n.value
            if counts.get(name) != 1 or name in params or name in mapping:
                continue
            chain = v
            while isinstance(chain, ast.Attribute):
                chain = chain.value
            if isinstance(v, ast.Attribute) and isinstance(chain, ast.Name) and ast.unparse(v) not in stored and counts.get(chain.id, 0) == 0:
                # the assignment must dominate every use: require it at the top level of the function body
                if any(n is s for s in func.node.body):
                    mapping[name] = v
    if not mapping:
        _cache(prog)[key] = func
        return func
    node = copy.deepcopy(func.node)
    node = _Dealias(mapping).visit(node)
    ast.fix_missing_locations(node)
    f2 = Func(func.qname, node, func.module, func.cls, func.parent)
    f2.children = func.children
    _cache(prog)[key] = f2
    return f2


def normalised(prog, func: Func, depth=2) -> Func:
    """helpers inlined, then work-set aliases removed"""
    return dealiased(prog, inlined(prog, func, depth))
