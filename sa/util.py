"""Small AST helpers shared by the rule modules."""

import ast

from .prog import norm, Func, Program
from .flow import walk_no_nested, call_name


def where(func: Func, node=None):
    line = getattr(node, 'lineno', None) or func.node.lineno
    return f'{func.module.relpath}:{line}'


def mwhere(module, node):
    return f'{module.relpath}:{getattr(node, "lineno", 0)}'


def calls_to(prog: Program, func: Func, *targets):
    """call nodes in func (not nested defs) whose resolved callee is one of targets"""
    out = []
    for c in func.calls():
        sym = prog.callee(c, func)
        if sym is None:
            continue
        f = prog.func_of(sym)
        q = f.qname if f is not None else sym
        if q in targets or sym in targets:
            out.append(c)
    out.sort(key=lambda n: (n.lineno, n.col_offset))
    return out


def names_in(node):
    return {n.id for n in ast.walk(node) if isinstance(n, ast.Name)}


def str_consts(node):
    return [n.value for n in ast.walk(node) if isinstance(n, ast.Constant) and isinstance(n.value, str)]


def is_const(node, value):
    return isinstance(node, ast.Constant) and node.value == value and type(node.value) is type(value)


def attr_chain(node):
    return Program.dotted(node)


def arg(call: ast.Call, pos, kw=None):
    """positional or keyword argument of a call, else None"""
    if kw is not None:
        for k in call.keywords:
            if k.arg == kw:
                return k.value
    if pos is not None and pos < len(call.args):
        a = call.args[pos]
        if not isinstance(a, ast.Starred):
            return a
    return None


def assigned_value(func: Func, name):
    """values assigned to a local name in func (not nested), in source order"""
    out = []
    for n in func.own_nodes():
        if isinstance(n, ast.Assign):
            for t in n.targets:
                if isinstance(t, ast.Name) and t.id == name:
                    out.append(n.value)
        elif isinstance(n, ast.AnnAssign) and isinstance(n.target, ast.Name) and n.target.id == name and n.value:
            out.append(n.value)
    out.sort(key=lambda v: (v.lineno, v.col_offset))
    return out


def get_key(call):
    """X.get('k') / X.get('k', d) -> (X expr, 'k') else None"""
    if (
        isinstance(call, ast.Call)
        and isinstance(call.func, ast.Attribute)
        and call.func.attr == 'get'
        and call.args
        and isinstance(call.args[0], ast.Constant)
        and isinstance(call.args[0].value, str)
    ):
        return call.func.value, call.args[0].value
    return None


def stmt_of(func: Func, node):
    """the statement of func.node that contains node"""
    for s in walk_no_nested(func.node):
        if isinstance(s, ast.stmt) and s is not func.node:
            for n in ast.walk(s):
                if n is node:
                    best = s
                    # descend to the innermost statement
                    changed = True
                    while changed:
                        changed = False
                        for c in ast.iter_child_nodes(best):
                            if isinstance(c, ast.stmt) and any(x is node for x in ast.walk(c)):
                                best = c
                                changed = True
                                break
                            if isinstance(c, ast.ExceptHandler) and any(x is node for x in ast.walk(c)):
                                best = c
                                changed = True
                                break
                    return best
    return None


__all__ = [
    'where', 'mwhere', 'calls_to', 'names_in', 'str_consts', 'is_const', 'attr_chain', 'arg',
    'assigned_value', 'get_key', 'stmt_of', 'norm', 'walk_no_nested', 'call_name',
]
