"""Checker self-validation on in-memory variants of the current tree (DESIGN 2.4, appendix A).

A variant is one source edit located through the AST (the function is found by
qualified name; the edit is applied inside its span only).  Variants are
analysed from an in-memory overlay of the current tree: nothing is written to
disk.  **B** (breaking) variants must make the named rule report a *new*
finding relative to the verdict on the unmodified tree; **N** (benign) variants
must not add any finding.  A variant whose anchor text no longer exists in
the tree is skipped and counted.
"""

import ast
import concurrent.futures
import importlib
import re

from . import AnalysisError
from .prog import src_root


class V:
    def __init__(self, name, kind, file, func, old, new, rule=None, occurrence=0):
        self.name = name
        self.kind = kind  # 'B' or 'N'
        self.file = file  # path relative to the dawgie package, e.g. 'pl/schedule.py'
        self.func = func  # function name or Class.method or None (whole file)
        self.old = old
        self.new = new
        self.rule = rule
        self.occurrence = occurrence


def _span(src, func):
    if func is None:
        return 0, len(src)
    tree = ast.parse(src)
    parts = func.split('.')

    def find(body, parts):
        for n in body:
            if isinstance(n, (ast.FunctionDef, ast.AsyncFunctionDef, ast.ClassDef)) and n.name == parts[0]:
                if len(parts) == 1:
                    return n
                return find(n.body, parts[1:])
            if isinstance(n, (ast.If, ast.Try)):
                r = find(n.body, parts)
                if r is not None:
                    return r
        return None

    n = find(tree.body, parts)
    if n is None:
        return None
    lines = src.splitlines(keepends=True)
    start = sum(len(x) for x in lines[: n.lineno - 1])
    end = sum(len(x) for x in lines[: n.end_lineno])
    return start, end


def apply(v: V, root=None):
    """-> overlay {relpath: new source} or None when the anchor text is absent"""
    import os

    path = os.path.join(root or src_root(), v.file)
    if not os.path.exists(path):
        return None
    with open(path, 'rt', encoding='utf-8') as f:
        src = f.read()
    sp = _span(src, v.func) if v.file.endswith('.py') else (0, len(src))
    if sp is None:
        return None
    region = src[sp[0] : sp[1]]
    pat = r'\s+'.join(re.escape(t) for t in v.old.split())
    ms = list(re.finditer(pat, region))
    if v.occurrence == 'all':
        if not ms:
            return None
        new_region = re.sub(r'\b' + pat + r'\b', lambda _m: v.new, region)
    else:
        if len(ms) <= v.occurrence:
            return None
        m = ms[v.occurrence]
        new_region = region[: m.start()] + v.new + region[m.end() :]
    new = src[: sp[0]] + new_region + src[sp[1] :]
    try:
        if v.file.endswith('.py'):
            ast.parse(new)
    except SyntaxError as e:
        raise AnalysisError(f'variant {v.name} does not parse: {e}') from e
    return {v.file: new}


def _run_one(args):
    pid, v = args
    from .main import analyse

    ov = apply(v)
    if ov is None:
        return v.name, 'skipped', []
    try:
        rep = analyse(pid, 'quick', overlay=ov)
        return v.name, 'ok', [(f.rule, f.key, f.where, f.msg) for f in rep.findings()]
    except AnalysisError as e:
        return v.name, 'analysis-error', [('ANALYSIS-ERROR', str(e), '', str(e))]


def self_validate(pid, base_report):
    mod = importlib.import_module(f'sa.rules.{pid.lower()}')
    variants = getattr(mod, 'VARIANTS', [])
    base = {(f.rule, f.key) for f in base_report.findings()}
    res = {'applied': 0, 'skipped': 0, 'breaking_fired': 0, 'benign_silent': 0, 'failures': [], 'detail': []}
    errors = []
    if not variants:
        base_report.variants = res
        return errors
    with concurrent.futures.ProcessPoolExecutor(max_workers=16) as ex:
        results = list(ex.map(_run_one, [(pid, v) for v in variants]))
    for v, (name, status, fnd) in zip(variants, results):
        if status == 'skipped':
            res['skipped'] += 1
            res['detail'].append({'variant': name, 'kind': v.kind, 'result': 'skipped (anchor text absent)'})
            continue
        res['applied'] += 1
        new = [f for f in fnd if (f[0], f[1]) not in base]
        if v.kind == 'B':
            hit = [f for f in new if v.rule is None or f[0] == v.rule or f[0] == 'ANALYSIS-ERROR']
            if hit:
                res['breaking_fired'] += 1
                res['detail'].append(
                    {'variant': name, 'kind': 'B', 'result': 'fired', 'rule': hit[0][0], 'where': hit[0][2], 'key': hit[0][1]}
                )
            else:
                msg = f'breaking variant "{name}" was not reported by {v.rule or "any rule"}'
                res['failures'].append(msg)
                errors.append(msg)
        else:
            if new:
                msg = f'benign variant "{name}" raised {new[0][0]} {new[0][1]}: {new[0][3]}'
                res['failures'].append(msg)
                errors.append(msg)
            else:
                res['benign_silent'] += 1
                res['detail'].append({'variant': name, 'kind': 'N', 'result': 'silent'})
    base_report.variants = res
    return errors
