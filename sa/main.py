"""./check <id> quick|thorough [--replay <path>]  |  ./check --setup"""

import importlib
import json
import os
import sys
import traceback

from . import AnalysisError
from .callgraph import CallGraph
from .prog import Program, src_root


class Ctx:
    def __init__(self, prog, cg, tier):
        self.prog = prog
        self.cg = cg
        self.tier = tier
        self.thorough = tier == 'thorough'


def analyse(pid, tier, overlay=None, root=None):
    """run the rules of one property; returns the Report (not finished)"""
    prog = Program(root=root, overlay=overlay)
    cg = CallGraph(prog)
    mod = importlib.import_module(f'sa.rules.{pid.lower()}')
    return mod.check(Ctx(prog, cg, tier))


def main(argv):
    if argv and argv[0] == '--setup':
        import ast

        ast.parse('type X = int')
        if not os.path.isdir(src_root()):
            print(f'ANALYSIS-ERROR source root {src_root()} missing')
            return 2
        print('setup ok: python', sys.version.split()[0], 'source', src_root())
        return 0
    if not argv:
        print('usage: ./check <id> [quick|thorough] [--replay <path>]')
        return 2
    pid = argv[0].upper()
    rest = argv[1:]
    replay = None
    if '--replay' in rest:
        i = rest.index('--replay')
        with open(rest[i + 1], 'rt', encoding='utf-8') as f:
            replay = json.load(f)
        rest = rest[:i] + rest[i + 2 :]
    tier = rest[0] if rest else os.environ.get('VERIF_TIER', 'quick')
    if tier not in ('quick', 'thorough'):
        tier = 'quick'
    try:
        rep = analyse(pid, tier)
        selfval_errors = []
        if tier == 'thorough' and replay is None:
            from .variants import self_validate

            selfval_errors = self_validate(pid, rep)
        rc = rep.finish(replay_filter=replay)
        if rc == 0 and selfval_errors:
            for e in selfval_errors:
                print('ANALYSIS-ERROR self-validation:', e)
            return 2
        return rc
    except AnalysisError as e:
        print(f'ANALYSIS-ERROR property={pid} {e}')
        return 2
    except Exception:  # pylint: disable=broad-except
        traceback.print_exc()
        print(f'ANALYSIS-ERROR property={pid} internal error in the checker (traceback above)')
        return 2


if __name__ == '__main__':
    sys.exit(main(sys.argv[1:]))
