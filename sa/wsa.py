"""Work-set algebra (DESIGN section 3, appendix B.5) shared by C01, C03, C04, C05, C20.

Lifts the scheduler's state accesses to abstract operations

    WS(node-expression, 'todo'|'doing'|'do') . {add, update, remove, discard, clear, copy, assign, in}
    Que . {append, extend, insert, remove, sort, rebind}

and implements the membership truth-table interpreter for the release filter.
"""

import ast
import itertools

from . import AnalysisError
from .flow import Flow, literal_bool_list
from .prog import Program, Func, norm
from .util import get_key, where

KINDS = ('todo', 'doing', 'do')
GROW = {'add', 'update', '__ior__', 'assign', 'append', 'extend', 'insert'}
SHRINK = {'remove', 'discard', 'pop', 'clear', '__isub__', 'difference_update'}
QUE = 'dawgie.pl.schedule.que'
ALL = '__all__'


class Op:
    __slots__ = ('func', 'node', 'kind', 'op', 'args', 'owner')

    def __init__(self, func, node, kind, op, args, owner):
        self.func = func
        self.node = node
        self.kind = kind  # todo/doing/do/que
        self.op = op
        self.args = args
        self.owner = owner  # expression of the graph node (None for que)

    @property
    def where(self):
        return where(self.func, self.node)

    def __repr__(self):
        return f'<{self.kind}.{self.op} in {self.func.qname} @{self.node.lineno}>'


def _aliases(f: Func):
    """locals bound (only) to X.get('todo'|'doing'|'do') -> (X expr, kind)"""
    al = {}
    cnt = {}
    for n in f.own_nodes():
        if isinstance(n, ast.Assign) and len(n.targets) == 1 and isinstance(n.targets[0], ast.Name):
            cnt[n.targets[0].id] = cnt.get(n.targets[0].id, 0) + 1
            gk = get_key(n.value)
            if gk and gk[1] in KINDS:
                al[n.targets[0].id] = gk
    return {k: v for k, v in al.items() if cnt.get(k) == 1}


def ws_ref(expr, aliases=None):
    """expr denotes a work set -> (owner expr, kind) else None"""
    gk = get_key(expr)
    if gk and gk[1] in KINDS:
        return gk
    if aliases and isinstance(expr, ast.Name) and expr.id in aliases:
        return aliases[expr.id]
    return None


def ops_in(prog: Program, f: Func):
    """all work-set / queue operations of one function (lambdas included, nested defs excluded)"""
    out = []
    al = _aliases(f)
    for n in f.own_nodes():
        if isinstance(n, ast.Call) and isinstance(n.func, ast.Attribute):
            ref = ws_ref(n.func.value, al)
            if ref is not None and n.func.attr != 'get':
                out.append(Op(f, n, ref[1], n.func.attr, list(n.args), ref[0]))
                continue
            if (
                n.func.attr == 'set'
                and len(n.args) == 2
                and isinstance(n.args[0], ast.Constant)
                and n.args[0].value in KINDS
            ):
                out.append(Op(f, n, n.args[0].value, 'assign', [n.args[1]], n.func.value))
                continue
            if isinstance(n.func.value, (ast.Name, ast.Attribute)) and prog.resolve_in(n.func.value, f) == QUE:
                out.append(Op(f, n, 'que', n.func.attr, list(n.args), None))
        elif isinstance(n, ast.AugAssign):
            ref = ws_ref(n.target, al)
            if ref is not None:
                opn = {ast.BitOr: '__ior__', ast.Sub: '__isub__', ast.BitAnd: '__iand__'}.get(type(n.op), 'augassign')
                out.append(Op(f, n, ref[1], opn, [n.value], ref[0]))
            elif isinstance(n.target, (ast.Name, ast.Attribute)) and prog.resolve_in(n.target, f) == QUE:
                out.append(Op(f, n, 'que', 'rebind', [n.value], None))
        elif isinstance(n, ast.Assign):
            for t in n.targets:
                if isinstance(t, (ast.Name, ast.Attribute)) and prog.resolve_in(t, f) == QUE:
                    out.append(Op(f, n, 'que', 'rebind', [n.value], None))
        elif isinstance(n, ast.Delete):
            for t in n.targets:
                if isinstance(t, ast.Subscript):
                    ref = ws_ref(t.value, al)
                    if ref is not None:
                        out.append(Op(f, n, ref[1], 'remove', [t.slice], ref[0]))
    out.sort(key=lambda o: (o.node.lineno, o.node.col_offset))
    return out


def all_ops(prog: Program, normalise=True):
    """operations of every function; with normalise the functions are analysed with same-module helpers inlined and
    work-set aliases removed (ops of a helper then also appear in its callers, which is what the path rules need)"""
    from .inline import normalised

    out = []
    for f in prog.funcs.values():
        g = f
        if normalise and f.module.name.startswith(('dawgie.pl.schedule', 'dawgie.pl.farm', 'dawgie.pl.promotion', 'dawgie.pl.dag')):
            g = normalised(prog, f)
        out.extend(ops_in(prog, g))
    return out


# ---------------------------------------------------------------------------
# release-filter truth table (R-C01-1, R-C03-1, R-C04-2)

ATOMS = ('tau_is_all', 'all_in_dep_todo', 'all_in_dep_doing', 'tau_in_dep_todo', 'tau_in_dep_doing', 'tau_in_own_doing')


class Undischarged(Exception):
    def __init__(self, node, msg):
        super().__init__(msg)
        self.node = node
        self.msg = msg


class ReleaseFilter(Flow):
    """Abstract interpretation of schedule.next_job_batch for one symbolic pending target tau of one
    queued job J and one symbolic queued transitive ancestor D, under a fixed truth assignment of ATOMS.

    Abstract state: frozenset of (name, value) pairs:
      ('in', v)          tau is a member of the set held by local v
      ('is', v, sym)     local v is bound to symbolic value sym in {'J','D','tau','other-dep','other-target','Dtag','otag'}
      ('visitD',) / ('visitT',)   the (D) / (tau) iteration has been entered
      ('released', kind) tau was added to J.<kind>
      ('untodo',)        tau was removed from J.todo
    """

    def __init__(self, prog, func, jvar, rho, target_loop_expected):
        super().__init__()
        self.prog = prog
        self.f = func
        self.J = jvar
        self.rho = rho
        self.problems = []  # Undischarged
        self.release_states = []
        self.target_loop_expected = target_loop_expected
        self.dep_iters = []  # iterables used for the dependency loop
        self.depvars = set()
        self.tvars = set()
        self.others_idle = False

    # -- state helpers
    @staticmethod
    def has(st, *fact):
        return tuple(fact) in st

    @staticmethod
    def add(st, *fact):
        return st | {tuple(fact)}

    @staticmethod
    def drop(st, pred):
        return frozenset(x for x in st if not pred(x))

    def sym(self, st, e):
        """symbolic value of an expression (names only)"""
        if isinstance(e, ast.Name):
            if e.id == self.J:
                return 'J'
            for x in st:
                if x[0] == 'is' and x[1] == e.id:
                    return x[2]
        if isinstance(e, ast.Constant) and e.value == ALL:
            return 'ALL'
        # find(dep) / jobs[dep] : the queued node with that tag
        if isinstance(e, ast.Call) and len(e.args) == 1 and self.prog.resolve_in(e.func, self.f) == 'dawgie.pl.schedule.find':
            s = self.sym(st, e.args[0])
            return {'Dtag': 'D', 'otag': 'other-dep', 'D': 'D', 'other-dep': 'other-dep'}.get(s)
        if isinstance(e, ast.Subscript) and isinstance(e.value, ast.Name):
            s = self.sym(st, e.slice)
            return {'Dtag': 'D', 'otag': 'other-dep'}.get(s)
        return None

    def bind(self, st, name, symv):
        st = self.drop(st, lambda x: x[0] == 'is' and x[1] == name)
        if symv is not None:
            st = self.add(st, 'is', name, symv)
        return st

    def setmem(self, st, name, val):
        st = self.drop(st, lambda x: x[0] == 'in' and x[1] == name)
        if val:
            st = self.add(st, 'in', name)
        return st

    # -- membership of an element in a set-valued expression: True / False / None (unknown)
    # two elements are followed through local sets: the symbolic target tau ('in') and the all-targets marker ('ina')
    FACT = {'tau': 'in', 'ALL': 'ina'}

    def member(self, st, e, el='tau'):
        """is `el` (tau or the all-targets marker) a member of the value of e?"""
        if el == 'ALL' and self.rho['tau_is_all']:
            el = 'tau'
        ref = ws_ref(e)
        if ref is not None:
            owner = self.sym(st, ref[0])
            if el == 'tau':
                if owner == 'J':
                    if ref[1] == 'todo':
                        return not self.has(st, 'untodo')
                    if ref[1] == 'doing':
                        return self.rho['tau_in_own_doing'] or self.has(st, 'released', 'doing')
                    return self.has(st, 'released', 'do')
                if owner == 'D':
                    if ref[1] == 'todo':
                        return self.rho['tau_in_dep_todo']
                    if ref[1] == 'doing':
                        return self.rho['tau_in_dep_doing']
            else:
                if owner == 'D':
                    if ref[1] == 'todo':
                        return self.rho['all_in_dep_todo']
                    if ref[1] == 'doing':
                        return self.rho['all_in_dep_doing']
                if owner == 'J' and self.others_idle:
                    return False  # a plain-target node never holds the all-targets marker (organize)
            if owner == 'other-dep' and self.others_idle:
                return False
            return None
        if isinstance(e, ast.Name):
            known = any(x[0] == 'set' and x[1] == e.id for x in st)
            if known:
                if self.has(st, 'unk' + self.FACT[el], e.id):
                    return None
                return self.has(st, self.FACT[el], e.id)
            return None
        if isinstance(e, ast.Call) and isinstance(e.func, ast.Attribute) and e.func.attr == 'copy' and not e.args:
            return self.member(st, e.func.value, el)
        if isinstance(e, ast.Call) and isinstance(e.func, ast.Name) and e.func.id in ('set', 'list', 'sorted', 'frozenset', 'tuple') and len(e.args) == 1:
            return self.member(st, e.args[0], el)
        if isinstance(e, ast.Call) and isinstance(e.func, ast.Name) and e.func.id in ('set', 'list', 'frozenset', 'tuple') and not e.args:
            return False
        if isinstance(e, ast.Call) and self.prog.resolve_in(e.func, self.f) == 'dawgie.util.fifo.Unique' and len(e.args) <= 1:
            return self.member(st, e.args[0], el) if e.args else False
        if isinstance(e, ast.BinOp):
            a, b = self.member(st, e.left, el), self.member(st, e.right, el)
            if isinstance(e.op, ast.BitOr):
                if a is True or b is True:
                    return True
                return False if (a is False and b is False) else None
            if isinstance(e.op, ast.Sub):
                if a is False or b is True:
                    return False
                return True if (a is True and b is False) else None
            if isinstance(e.op, ast.BitAnd):
                if a is False or b is False:
                    return False
                return True if (a is True and b is True) else None
        if isinstance(e, (ast.Set, ast.List, ast.Tuple)) and not e.elts:
            return False
        return None

    def _track(self, st, name):
        return self.add(self.drop(st, lambda x: x[0] == 'set' and x[1] == name), 'set', name)

    def _setm(self, st, name, el, val):
        """val: True / False / None (unknown membership of el in local set `name`)"""
        fact = self.FACT[el]
        st = self.drop(st, lambda x: x[0] in (fact, 'unk' + fact) and x[1] == name)
        if val is True:
            st = self.add(st, fact, name)
        elif val is None:
            st = self.add(st, 'unk' + fact, name)
        return st

    def _combine(self, op, cur, m):
        """three-valued set operation on one element: cur/m in {True, False, None}"""
        if op == 'sub':
            if cur is False or m is True:
                return False
            return True if (cur is True and m is False) else None
        if op == 'and':
            if cur is False or m is False:
                return False
            return True if (cur is True and m is True) else None
        if op == 'or':
            if cur is True or m is True:
                return True
            return False if (cur is False and m is False) else None
        raise AssertionError(op)

    def _setop(self, st, name, op, arg_expr):
        for el in ('tau', 'ALL'):
            cur = self.member(st, ast.Name(id=name, ctx=ast.Load()), el)
            m = self.member(st, arg_expr, el)
            st = self._setm(st, name, el, self._combine(op, cur, m))
        return st

    def _split_unknown(self, st, name):
        """an unknown tau-membership is explored both ways (the release obligation is about tau)"""
        if self.has(st, 'unkin', name):
            base = self.drop(st, lambda x: x[0] == 'unkin' and x[1] == name)
            return (base, self.add(base, 'in', name))
        return (st,)

    # -- hooks
    def on_stmt(self, s, st):
        if isinstance(s, ast.Assign) and len(s.targets) == 1 and isinstance(s.targets[0], ast.Name):
            name = s.targets[0].id
            v = s.value
            symv = self.sym(st, v)
            if symv is not None:
                return (self.bind(st, name, symv),)
            m = self.member(st, v, 'tau')
            ma = self.member(st, v, 'ALL')
            if m is not None or ma is not None or self._setlike(v):
                st = self._track(st, name)
                st = self._setm(st, name, 'tau', m)
                st = self._setm(st, name, 'ALL', ma)
                return self._split_unknown(st, name)
            # unknown value: forget what we knew about the name
            st = self.drop(st, lambda x: x[0] in ('is', 'in', 'ina', 'unkin', 'unkina', 'set') and x[1] == name)
            return (st,)
        if isinstance(s, ast.AugAssign) and isinstance(s.target, ast.Name):
            name = s.target.id
            if any(x[0] == 'set' and x[1] == name for x in st):
                op = {ast.Sub: 'sub', ast.BitAnd: 'and', ast.BitOr: 'or'}.get(type(s.op))
                if op is None:
                    raise Undischarged(s, f'unsupported operation on the candidate set: {norm(s)}')
                return self._split_unknown(self._setop(st, name, op, s.value), name)
        return (st,)

    @staticmethod
    def _setlike(v):
        return isinstance(v, ast.Call) and isinstance(v.func, ast.Name) and v.func.id in ('set', 'frozenset', 'list') and len(v.args) <= 1

    def _elem(self, st, e):
        """does the element expression denote tau? True / False / None"""
        s = self.sym(st, e)
        if s == 'tau':
            return True
        if s == 'other-target':
            return False
        if s == 'ALL':
            return self.rho['tau_is_all']
        return None

    def _elem_all(self, st, e):
        """does the element expression denote the all-targets marker?"""
        s = self.sym(st, e)
        if s == 'ALL':
            return True
        if s == 'tau':
            return self.rho['tau_is_all']
        if s == 'other-target':
            return False if self.others_idle else None
        return None

    def on_call(self, call, st):
        f = call.func
        if not isinstance(f, ast.Attribute):
            return (st,)
        meth = f.attr
        recv = f.value
        if meth in ('append', 'add') and isinstance(recv, ast.Name) and call.args and self.sym(st, call.args[0]) == 'J':
            return (self.add(st, 'batched'),)
        # mutation of a tracked local set
        if isinstance(recv, ast.Name) and any(x[0] == 'set' and x[1] == recv.id for x in st):
            name = recv.id
            me = ast.Name(id=name, ctx=ast.Load())
            if meth == 'clear':
                return (self._setm(self._setm(st, name, 'tau', False), name, 'ALL', False),)
            if meth in ('remove', 'discard', 'add') and call.args:
                for el, fn in (('tau', self._elem), ('ALL', self._elem_all)):
                    hit = fn(st, call.args[0])
                    cur = self.member(st, me, el)
                    if meth == 'add':
                        new = True if hit is True else (cur if hit is False else (True if cur is True else None))
                    else:
                        new = False if hit is True else (cur if hit is False else (False if cur is False else None))
                    st = self._setm(st, name, el, new)
                return self._split_unknown(st, name)
            if meth == 'difference_update' and call.args:
                return self._split_unknown(self._setop(st, name, 'sub', call.args[0]), name)
            if meth == 'intersection_update' and call.args:
                return self._split_unknown(self._setop(st, name, 'and', call.args[0]), name)
            if meth == 'update' and call.args:
                return self._split_unknown(self._setop(st, name, 'or', call.args[0]), name)
            if meth in ('symmetric_difference_update', 'pop'):
                raise Undischarged(call, f'unsupported mutation {meth} of the candidate set')
            return (st,)
        # mutation of a work set of J
        ref = ws_ref(recv)
        if ref is not None and self.sym(st, ref[0]) == 'J':
            kind = ref[1]
            if kind in ('do', 'doing') and meth in ('update', 'add') and call.args:
                m = self.member(st, call.args[0]) if meth == 'update' else self._elem(st, call.args[0])
                self.release_states.append((call, kind, st, m))
                if m is None:
                    raise Undischarged(call, f'cannot decide whether the pending target is in the set released to {kind}: {norm(call)}')
                if m:
                    st = self.add(st, 'released', kind)
                return (st,)
            if kind == 'todo' and meth in ('remove', 'discard') and call.args:
                el = self._elem(st, call.args[0])
                if el is True:
                    return (self.add(st, 'untodo'),)
                return (st,)
            if kind == 'todo' and meth in ('difference_update',) and call.args:
                m = self.member(st, call.args[0])
                if m:
                    return (self.add(st, 'untodo'),)
                return (st,)
        return (st,)

    def on_for(self, node, st):
        tgt = node.target
        it = node.iter
        if not isinstance(tgt, ast.Name):
            return (st,)
        name = tgt.id
        # loop over the pending targets of J (or over a tracked candidate set)
        ref = ws_ref(it.func.value if isinstance(it, ast.Call) and isinstance(it.func, ast.Attribute) and it.func.attr == 'copy' else it)
        if ref is not None and self.sym(st, ref[0]) == 'J' and ref[1] == 'todo':
            self.tvars.add(name)
            a = self.bind(st, name, 'tau')
            if self._dep_is_D(a):
                a = self.add(a, 'visitDT')
            return (a, self.bind(st, name, 'other-target'))
        if isinstance(it, ast.Name) and any(x[0] == 'set' and x[1] == it.id for x in st):
            outs = [self.bind(st, name, 'other-target')]
            if self.has(st, 'in', it.id):
                outs.append(self.add(self.bind(st, name, 'tau'), 'itau', node.lineno))
            return tuple(outs)
        # loop over queued transitive ancestors of J
        if self._is_dep_iter(it, st):
            self.dep_iters.append(it)
            self.depvars.add(name)
            a = self.bind(st, name, 'Dtag')
            if not self.target_loop_expected or any(x[0] == 'is' and x[2] == 'tau' and x[1] in self.tvars for x in a):
                a = self.add(a, 'visitDT')
            b = self.bind(st, name, 'otag')
            return (a, b)
        return (st,)

    def on_for_done(self, node, st):
        # a loop over a set that (still) contains tau has necessarily executed its tau iteration
        if isinstance(node.iter, ast.Name) and any(x[0] == 'set' and x[1] == node.iter.id for x in st):
            if self.has(st, 'in', node.iter.id) and not self.has(st, 'itau', node.lineno):
                return ()
            st = self.drop(st, lambda x: x[0] == 'itau' and x[1] == node.lineno)
        # loop variables (and what was derived from them) are stale after the loop
        names = {n.id for n in ast.walk(node.target) if isinstance(n, ast.Name)}
        derived = set()
        for s in ast.walk(node):
            if isinstance(s, ast.Assign) and len(s.targets) == 1 and isinstance(s.targets[0], ast.Name):
                if names & {n.id for n in ast.walk(s.value) if isinstance(n, ast.Name)}:
                    derived.add(s.targets[0].id)
        names |= derived
        return (self.drop(st, lambda x: x[0] == 'is' and x[1] in names),)

    def _dep_is_D(self, st):
        # only the dependency-loop variable itself counts (derived locals may be stale)
        return any(x[0] == 'is' and x[2] in ('D', 'Dtag') and x[1] in self.depvars for x in st)

    def _in_dep_loop(self, st):
        return any(x[0] == 'is' and x[2] in ('D', 'Dtag', 'other-dep', 'otag') for x in st)

    def _is_dep_iter(self, it, st):
        """iterable mentions J.get('ancestry')"""
        for n in ast.walk(it):
            gk = get_key(n)
            if gk and gk[1] == 'ancestry' and self.sym(st, gk[0]) == 'J':
                return True
        return False

    @staticmethod
    def _iter_yields_tags(it):
        return True  # ancestry holds tags; nodes are obtained through find()/jobs[...]

    def on_test(self, e, st):
        v = self.truth(e, st)
        if v is True:
            return (st,), ()
        if v is False:
            return (), (st,)
        return (st,), (st,)

    def truth(self, e, st):
        """truth value of an atomic condition under rho: True/False/None(unknown)"""
        if isinstance(e, ast.Compare) and len(e.ops) == 1:
            op, l, r = e.ops[0], e.left, e.comparators[0]
            if isinstance(op, (ast.Eq, ast.NotEq, ast.Is, ast.IsNot)):
                a, b = self.sym(st, l), self.sym(st, r)
                val = None
                if {a, b} == {'tau', 'ALL'}:
                    val = self.rho['tau_is_all']
                elif 'other-target' in (a, b) and 'ALL' in (a, b):
                    val = False if self.others_idle else None
                if val is None:
                    return None
                return val if isinstance(op, (ast.Eq, ast.Is)) else not val
            if isinstance(op, (ast.In, ast.NotIn)):
                el = self.sym(st, l)
                val = None
                ref = ws_ref(r)
                owner = self.sym(st, ref[0]) if ref else None
                if el == 'tau':
                    val = self.member(st, r, 'tau')
                elif el == 'ALL':
                    val = self.member(st, r, 'ALL')
                elif self.others_idle and ref is not None and owner == 'other-dep' and el in ('tau', 'ALL', 'other-target'):
                    val = False  # converse direction: every other queued ancestor is idle for every target
                elif self.others_idle and ref is not None and owner == 'D' and el == 'other-target':
                    val = False
                if val is None and self.others_idle and ref is not None and owner == 'other-dep':
                    val = False
                if val is None:
                    return None
                return val if isinstance(op, ast.In) else not val
        if isinstance(e, ast.Name):
            if any(x[0] == 'set' and x[1] == e.id for x in st):
                # truthiness of the candidate set: true if tau is in it, unknown otherwise
                return True if self.has(st, 'in', e.id) else None
        if isinstance(e, ast.Call) and isinstance(e.func, ast.Attribute) and e.func.attr == 'count' and e.args:
            return None
        if ws_ref(e) is not None:
            # truthiness of a work set: true when the pending target is known to be in it, unknown otherwise
            try:
                return True if self.member(st, e, 'tau') is True else None
            except Undischarged:
                return None
        return None


def release_analysis(prog: Program, f: Func, atoms=ATOMS, others_idle=False, no_ancestor=False):
    """run the truth table; returns dict with per-assignment outcome

    outcome[rho] = {'released': set(kinds), 'untodo': bool, 'paths': n, 'problems': [...]}
    Only paths that entered the (D, tau) iteration are considered.
    """
    from .inline import normalised

    f = normalised(prog, f)
    # the loop over queued jobs: for J in <something over que>
    outer = None
    for n in f.own_nodes():
        if isinstance(n, ast.For) and isinstance(n.target, ast.Name):
            srcs = [prog.resolve_in(x, f) for x in ast.walk(n.iter) if isinstance(x, (ast.Name, ast.Attribute))]
            if QUE in srcs:
                if outer is None or n.lineno < outer.lineno:
                    outer = n
    if outer is None:
        raise AnalysisError(f'{f.qname}: no loop over the work queue found')
    jvar = outer.target.id
    target_loop = any(
        isinstance(n, ast.For)
        and (ws_ref(n.iter) or (isinstance(n.iter, ast.Call) and isinstance(n.iter.func, ast.Attribute) and ws_ref(n.iter.func.value)))
        and (ws_ref(n.iter) or ws_ref(n.iter.func.value))[1] == 'todo'
        for n in ast.walk(outer)
        if isinstance(n, ast.For)
    )
    results = {}
    dep_iters = []
    visited = 0
    for bits in itertools.product((False, True), repeat=len(atoms)):
        rho = dict(zip(atoms, bits))
        for a in ATOMS:
            rho.setdefault(a, False)
        # consistency of the assignment: if tau is '__all__' then the '__all__' atoms coincide with the tau atoms
        if rho['tau_is_all'] and (
            rho['all_in_dep_todo'] != rho['tau_in_dep_todo'] or rho['all_in_dep_doing'] != rho['tau_in_dep_doing']
        ):
            continue
        fl = ReleaseFilter(prog, f, jvar, rho, target_loop)
        fl.others_idle = others_idle
        if no_ancestor:
            _orig = fl.on_for
            fl.on_for = lambda node, st, _o=_orig, _f=fl: () if _f._is_dep_iter(node.iter, st) else _o(node, st)
        problems = []
        try:
            out = fl.block(outer.body, {frozenset()})
            finals = out.normal | out.cont | out.brk
        except Undischarged as u:
            problems.append(u)
            finals = set()
        visited += fl.visited
        dep_iters.extend(fl.dep_iters)
        sel = [st for st in finals if ('visitDT',) in st] if not no_ancestor else list(finals)
        results[bits] = {
            'rho': rho,
            'finals': sel,
            'released': {k for st in sel for x in st if x[0] == 'released' for k in [x[1]]},
            'always_released': all(('released', 'doing') in st for st in sel) if sel else False,
            'untodo_when_released': all((('untodo',) in st) for st in sel if any(x[0] == 'released' for x in st)),
            'release_sites': fl.release_states,
            'problems': problems,
        }
    return {'outer': outer, 'jvar': jvar, 'target_loop': target_loop, 'results': results, 'dep_iters': dep_iters, 'visited': visited}
