"""Facts shared by several property modules (Inv-A / Inv-B helpers, closure shape)."""

import ast
import itertools

from .. import AnalysisError
from ..flow import Flow
from ..util import where, norm, get_key, names_in, walk_no_nested
from .. import wsa


def resolve_container(prog, fn, expr):
    if isinstance(expr, (ast.Name, ast.Attribute)):
        return prog.resolve_in(expr, fn)
    return None


def built_from_que(prog, f, name):
    """local `name` is built by a comprehension / call over the work queue"""
    for n in f.own_nodes():
        if isinstance(n, ast.Assign) and any(isinstance(t, ast.Name) and t.id == name for t in n.targets):
            for x in ast.walk(n.value):
                if isinstance(x, (ast.Name, ast.Attribute)) and prog.resolve_in(x, f) == wsa.QUE:
                    return True
    return False


# ---------------------------------------------------------------------------
# emptiness facts


class _Empty(Flow):
    """tracks, per local node variable, whether its todo / doing are known empty or non-empty.

    state: frozenset of (var, kind, 'empty'|'nonempty')
    """

    def __init__(self, prog, f):
        super().__init__()
        self.prog = prog
        self.f = f
        self.at = {}  # id(node) -> list of states seen when the node (call/stmt) executes

    @staticmethod
    def _set(st, var, kind, val):
        s = {x for x in st if not (x[0] == var and x[1] == kind)}
        if val:
            s.add((var, kind, val))
        return frozenset(s)

    def _ref(self, e):
        gk = get_key(e)
        if gk and gk[1] in ('todo', 'doing') and isinstance(gk[0], ast.Name):
            return gk[0].id, gk[1]
        return None

    def on_test(self, e, st):
        r = self._ref(e)
        if r is None and isinstance(e, ast.Call) and isinstance(e.func, ast.Name) and e.func.id == 'len' and e.args:
            r = self._ref(e.args[0])
        if r is not None:
            return (self._set(st, r[0], r[1], 'nonempty'),), (self._set(st, r[0], r[1], 'empty'),)
        return (st,), (st,)

    def on_call(self, call, st):
        self.at.setdefault(id(call), []).append(st)
        if isinstance(call.func, ast.Attribute):
            r = self._ref(call.func.value)
            if r is not None:
                m = call.func.attr
                if m == 'add':
                    return (self._set(st, r[0], r[1], 'nonempty'),)
                if m == 'clear':
                    return (self._set(st, r[0], r[1], 'empty'),)
                if m in ('update', '__ior__'):
                    cur = (r[0], r[1], 'nonempty') in st
                    return (st,) if cur else (self._set(st, r[0], r[1], None),)
                if m in ('remove', 'discard', 'pop', 'difference_update'):
                    cur = (r[0], r[1], 'empty') in st
                    return (st,) if cur else (self._set(st, r[0], r[1], None),)
        return (st,)

    def on_stmt(self, s, st):
        self.at.setdefault(id(s), []).append(st)
        if isinstance(s, ast.Assign):
            for t in s.targets:
                if isinstance(t, ast.Name):
                    st = frozenset(x for x in st if x[0] != t.id)
        return (st,)

    def on_for(self, node, st):
        for n in ast.walk(node.target):
            if isinstance(n, ast.Name):
                st = frozenset(x for x in st if x[0] != n.id)
        return (st,)


def emptiness(prog, f):
    fl = _Empty(prog, f)
    fl.run(f.node, frozenset())
    return fl


def removal_guarded(prog, op):
    """que.remove(X): on every path X.todo and X.doing are known empty"""
    if not op.args or not isinstance(op.args[0], ast.Name):
        return False, 'removed element is not a plain variable'
    var = op.args[0].id
    fl = emptiness(prog, op.func)
    sts = fl.at.get(id(op.node), [])
    if not sts:
        return False, 'removal site not reached by the analysis'
    bad = [st for st in sts if not ((var, 'todo', 'empty') in st and (var, 'doing', 'empty') in st)]
    if bad:
        miss = sorted({k for st in bad for k in ('todo', 'doing') if (var, k, 'empty') not in st})
        return False, f'{miss} of {var} not known empty on {len(bad)} of {len(sts)} abstract paths'
    return True, f'{var}.todo and {var}.doing known empty on all {len(sts)} abstract paths'


def predicate_table(pred, var, queued=False, is_que=None):
    """truth table of a filter predicate over (todo non-empty, doing non-empty) of `var`; None if not understood.

    `<var> in <the work queue>` (is_que(expr) tells) is the atom "already queued", evaluated as `queued`: a rebuild may
    keep what is already on the queue and admit new nodes only with work."""

    def ev(e, t, d):
        if is_que is not None and isinstance(e, ast.Compare) and len(e.ops) == 1 and isinstance(e.left, ast.Name) and e.left.id == var and is_que(e.comparators[0]):
            if isinstance(e.ops[0], ast.In):
                return queued
            if isinstance(e.ops[0], ast.NotIn):
                return not queued
        if isinstance(e, ast.BoolOp):
            vals = [ev(v, t, d) for v in e.values]
            if any(v is None for v in vals):
                return None
            return all(vals) if isinstance(e.op, ast.And) else any(vals)
        if isinstance(e, ast.UnaryOp) and isinstance(e.op, ast.Not):
            v = ev(e.operand, t, d)
            return None if v is None else not v
        if isinstance(e, ast.Call) and isinstance(e.func, ast.Name) and e.func.id in ('len', 'bool') and e.args:
            return ev(e.args[0], t, d)
        if isinstance(e, ast.Compare) and len(e.ops) == 1 and isinstance(e.comparators[0], ast.Constant) and e.comparators[0].value == 0:
            v = ev(e.left, t, d)
            if v is None:
                return None
            if isinstance(e.ops[0], (ast.Gt, ast.NotEq)):
                return v
            if isinstance(e.ops[0], ast.Eq):
                return not v
            return None
        gk = get_key(e)
        if gk and isinstance(gk[0], ast.Name) and gk[0].id == var:
            if gk[1] == 'todo':
                return t
            if gk[1] == 'doing':
                return d
        return None

    table = {}
    for t, d in itertools.product((False, True), repeat=2):
        table[(t, d)] = ev(pred, t, d)
    if any(v is None for v in table.values()):
        return None
    return table


def rebind_facts(prog, op):
    """analyse `que = <value>`; returns dict(kind=..., table=..., detail=...)"""
    f = op.func
    v = op.args[0]
    if isinstance(v, (ast.List, ast.Tuple)) and not v.elts:
        rebuilt = any(
            isinstance(n, ast.Assign)
            and any(isinstance(t, (ast.Name, ast.Attribute)) and prog.resolve_in(t, f) == 'dawgie.pl.schedule.ae' for t in n.targets)
            for n in f.own_nodes()
        )
        return {'kind': 'reset', 'rebuilt': rebuilt, 'detail': 'queue reset to [] ' + ('together with a rebuilt task graph' if rebuilt else 'WITHOUT rebuilding the task graph')}
    # sorted(<iterable>, key=...) | list(<iterable>) | <iterable>; a pipeline stage held in a single-assignment local is followed
    def _unwrap(e, depth=0):
        while True:
            if isinstance(e, ast.Call) and isinstance(e.func, ast.Name) and e.func.id in ('sorted', 'list', 'tuple') and e.args:
                e = e.args[0]
                continue
            if isinstance(e, ast.Name) and depth < 4:
                defs = [s.value for s in f.own_nodes() if isinstance(s, ast.Assign) and any(isinstance(t, ast.Name) and t.id == e.id for t in s.targets)]
                mut = [
                    c
                    for c in f.calls()
                    if isinstance(c.func, ast.Attribute) and isinstance(c.func.value, ast.Name) and c.func.value.id == e.id and c.func.attr in ('append', 'extend', 'insert', 'remove', 'pop', 'clear', 'sort')
                ]
                if len(defs) == 1 and isinstance(defs[0], (ast.ListComp, ast.GeneratorExp, ast.Call)) and not [m for m in mut if m.func.attr != 'sort']:
                    e = defs[0]
                    depth += 1
                    continue
            return e

    inner = _unwrap(v)
    pred = None
    var = None
    src = inner
    if isinstance(inner, ast.Call) and isinstance(inner.func, ast.Name) and inner.func.id == 'filter' and len(inner.args) == 2:
        lam = inner.args[0]
        if isinstance(lam, ast.Lambda) and len(lam.args.args) >= 1:
            pred, var, src = lam.body, lam.args.args[0].arg, inner.args[1]
        else:
            return {'kind': 'unknown', 'detail': f'filter function not a lambda: {norm(lam)}'}
    elif isinstance(inner, (ast.ListComp, ast.GeneratorExp)) and len(inner.generators) == 1 and isinstance(inner.generators[0].target, ast.Name) and isinstance(inner.elt, ast.Name) and inner.elt.id == inner.generators[0].target.id:
        g = inner.generators[0]
        var, src = g.target.id, g.iter
        if g.ifs:
            pred = g.ifs[0] if len(g.ifs) == 1 else ast.BoolOp(op=ast.And(), values=list(g.ifs))
    # the source must be a superset of the current queue: D.values() with D seeded from que and only extended
    base = src
    if isinstance(base, ast.Call) and isinstance(base.func, ast.Attribute) and base.func.attr == 'values' and isinstance(base.func.value, ast.Name):
        d = base.func.value.id
        seeded = built_from_que(prog, f, d)
        shrunk = [
            n
            for n in f.own_nodes()
            if (isinstance(n, ast.Delete) and any(isinstance(t, ast.Subscript) and isinstance(t.value, ast.Name) and t.value.id == d for t in n.targets))
            or (isinstance(n, ast.Call) and isinstance(n.func, ast.Attribute) and isinstance(n.func.value, ast.Name) and n.func.value.id == d and n.func.attr in ('pop', 'popitem', 'clear'))
        ]
        superset = seeded and not shrunk
    elif isinstance(base, (ast.Name, ast.Attribute)) and prog.resolve_in(base, f) == wsa.QUE:
        superset = True
    else:
        superset = False
    if not superset:
        return {'kind': 'unknown', 'detail': f'source {norm(src)} of the new queue is not recognisably a superset of the current queue'}
    if pred is None:
        return {'kind': 'superset', 'table': {(t, d): True for t in (False, True) for d in (False, True)}, 'detail': 'all current entries kept (no filter)'}
    is_que = lambda e: isinstance(e, (ast.Name, ast.Attribute)) and prog.resolve_in(e, f) == wsa.QUE
    table = predicate_table(pred, var, False, is_que)
    kept = predicate_table(pred, var, True, is_que)
    if table is None or kept is None:
        return {'kind': 'unknown', 'detail': f'filter predicate {norm(pred)} not understood'}
    # `table`: nodes that are not on the queue yet; `table_queued`: entries that already are
    return {'kind': 'filtered', 'table': table, 'table_queued': kept, 'detail': f'entries kept iff {norm(pred)}'}


def rebind_keeps_working(prog, op):
    """Inv-A side: a node with non-empty doing is never dropped"""
    facts = rebind_facts(prog, op)
    if facts['kind'] == 'reset':
        return facts['rebuilt'], facts['detail']
    if facts['kind'] == 'unknown':
        return False, facts['detail']
    t, k = facts['table'], facts.get('table_queued', facts['table'])
    ok = t[(False, True)] and t[(True, True)] and k[(False, True)] and k[(True, True)]
    return ok, facts['detail'] + ('' if ok else ' -- drops nodes whose doing is non-empty')


def rebind_drops_idle(prog, op):
    """Inv-B side: a node with empty todo and doing is never (re)inserted"""
    facts = rebind_facts(prog, op)
    if facts['kind'] == 'reset':
        return True, facts['detail']
    if facts['kind'] == 'unknown':
        return False, facts['detail']
    t = facts['table']
    ok = not t[(False, False)]
    return ok, facts['detail'] + ('' if ok else ' -- keeps/inserts nodes with nothing pending or executing')


# ---------------------------------------------------------------------------
# closure shape (R-C01-4 / R-C09-3)


def _mentions_get(e, key):
    return any((gk := get_key(n)) and gk[1] == key for n in ast.walk(e))


def closure_rule(ctx, rep, rid):
    prog = ctx.prog
    with rep.rule(
        rid,
        "ancestry is a transitive closure: work-list fix-point in Construct._ancestry, parent edges for every child in _parents (recursing into unknown children), Node.trim copies the trimmed ancestry to the algorithm node",
        floor=3,
        breaks='the release filter does not see a transitive upstream algorithm (only parents): a grandchild is released while its grandparent is pending',
    ) as r:
        # ---- the closure pass: Construct._ancestry, or - when that method was renamed / merged away - whichever method of
        # Construct contains a fix-point loop that ends in the 'ancestry' attribute (found by role)
        if 'dawgie.pl.dag.Construct._ancestry' in prog.funcs:
            cand_fs = [prog.nfunc('dawgie.pl.dag.Construct._ancestry')]
        else:
            cand_fs = [prog.nfunc(q) for q, g_ in sorted(prog.funcs.items()) if g_.cls is not None and g_.cls.qname == 'dawgie.pl.dag.Construct' and g_.parent is None]
            if not cand_fs:
                raise AnalysisError('dawgie.pl.dag.Construct has no methods')
        r.instance()
        found = False
        detail = 'no while loop with a frontier variable found'
        f = cand_fs[0]
        whiles = []
        for cf in cand_fs:
            rep.analysed(cf)
            for w_ in [n for n in cf.own_nodes() if isinstance(n, ast.While)]:
                whiles.append((cf, w_))
        for f, w in whiles:
            tvars = names_in(w.test)
            for v in sorted(tvars):
                # frontier reassigned at the top level of the loop body
                re = [s for s in w.body if isinstance(s, ast.Assign) and any(isinstance(t, ast.Name) and t.id == v for t in s.targets)]
                if not re:
                    detail = f'frontier {v} is never replaced inside the loop'
                    continue
                newv = re[-1].value
                if not isinstance(newv, ast.Name):
                    detail = f'frontier {v} replaced by {norm(newv)}, not by the set of newly found parents'
                    continue
                g = newv.id
                # g collects parents of the elements of the old frontier inside the loop
                upd = [
                    c
                    for c in ast.walk(w)
                    if isinstance(c, ast.Call)
                    and isinstance(c.func, ast.Attribute)
                    and c.func.attr in ('update', 'add', '__ior__')
                    and isinstance(c.func.value, ast.Name)
                    and c.args
                    and (
                        _mentions_get(c.args[0], 'parents')
                        or (
                            # hoisted into a local first: more = <...>.get('parents')
                            isinstance(c.args[0], ast.Name)
                            and any(
                                isinstance(s, ast.Assign)
                                and any(isinstance(t, ast.Name) and t.id == c.args[0].id for t in s.targets)
                                and _mentions_get(s.value, 'parents')
                                for s in ast.walk(w)
                            )
                        )
                    )
                ]
                gupd = [c for c in upd if c.func.value.id == g]
                acc = [c for c in upd if c.func.value.id not in (g, v)]
                # ... or the accumulator takes the whole next frontier once it is complete: heritage.update(older)
                acc += [
                    c
                    for c in ast.walk(w)
                    if isinstance(c, ast.Call)
                    and isinstance(c.func, ast.Attribute)
                    and c.func.attr in ('update', '__ior__')
                    and isinstance(c.func.value, ast.Name)
                    and c.func.value.id not in (g, v)
                    and len(c.args) == 1
                    and isinstance(c.args[0], ast.Name)
                    and c.args[0].id == g
                ]
                inner = [
                    l
                    for l in ast.walk(w)
                    if isinstance(l, ast.For) and v in names_in(l.iter) and any(c in list(ast.walk(l)) for c in gupd)
                ]
                fresh = any(
                    isinstance(s, ast.Assign)
                    and any(isinstance(t, ast.Name) and t.id == g for t in s.targets)
                    for s in w.body
                )
                if not gupd or not inner:
                    detail = f'next frontier {g} does not collect the parents of the current frontier {v}'
                    continue
                if not acc:
                    detail = 'no accumulator is extended with the parents found in each round'
                    continue
                if not fresh:
                    detail = f'next frontier {g} is not re-created in each round'
                    continue
                h = acc[0].func.value.id
                # result written to the ancestry attribute from the accumulator
                wr = [
                    c
                    for c in f.calls()
                    if isinstance(c.func, ast.Attribute)
                    and c.func.attr in ('update', '__ior__')
                    and (gk := get_key(c.func.value))
                    and gk[1] == 'ancestry'
                    and c.args
                    and h in names_in(c.args[0])
                ]
                if not wr:
                    detail = f"accumulator {h} does not reach the 'ancestry' attribute"
                    continue
                found = True
                detail = f'frontier {v} <- {g} (parents of frontier), accumulator {h} -> ancestry'
                break
            if found:
                break
        if not found:
            f = cand_fs[0]
        name0 = 'dawgie.pl.dag.Construct._ancestry'
        r.check(
            found,
            f'{name0}:fix-point',
            where(f),
            detail,
            (f'Construct._ancestry is not a fix-point closure: {detail}' if name0 in prog.funcs else f'no method of dag.Construct computes the ancestry sets by a fix-point closure over the parent edges (Construct._ancestry is gone; {detail}): ancestry is not the transitive closure of parents'),
        )

        # ---- _parents
        p = prog.nfunc('dawgie.pl.dag.Construct._parents')
        rep.analysed(p)
        r.instance()
        adds = [
            c
            for c in p.calls()
            if isinstance(c.func, ast.Attribute) and c.func.attr == 'add' and (gk := get_key(c.func.value)) and gk[1] == 'parents'
        ]
        rec = [c for c in p.calls() if prog.resolve_in(c.func, p) == p.qname]
        known = p.params()[2] if len(p.params()) > 2 else 'known'
        # the visited set must be keyed by the *value-level* node identity (<node>.tag): keying it by a trimmed
        # (algorithm-level) name skips the sibling values of an algorithm and their children lose parent edges
        coarse = []

        def _is_tag(e):
            if isinstance(e, ast.Attribute) and e.attr == 'tag':
                return True
            if isinstance(e, ast.Name):
                vals = [s.value for s in p.own_nodes() if isinstance(s, ast.Assign) and any(isinstance(t, ast.Name) and t.id == e.id for t in s.targets)]
                return bool(vals) and all(_is_tag(v) for v in vals)
            return False

        uses = 0
        for n in p.own_nodes():
            if isinstance(n, ast.Call) and isinstance(n.func, ast.Attribute) and isinstance(n.func.value, ast.Name) and n.func.value.id == known and n.func.attr in ('add', 'discard', 'remove') and n.args:
                uses += 1
                if not _is_tag(n.args[0]):
                    coarse.append(n)
            if isinstance(n, ast.Compare) and len(n.ops) == 1 and isinstance(n.ops[0], (ast.In, ast.NotIn)):
                cmpr = n.comparators[0]
                if isinstance(cmpr, ast.Name) and (cmpr.id == known or cmpr.id in {a.arg for l in ast.walk(p.node) if isinstance(l, ast.Lambda) for a, d in zip(l.args.args[-len(l.args.defaults):] if l.args.defaults else [], l.args.defaults) if isinstance(d, ast.Name) and d.id == known}):
                    uses += 1
                    if not _is_tag(n.left):
                        coarse.append(n)
        ok = bool(adds) and bool(rec) and not coarse and uses >= 1
        r.check(
            ok,
            f'{p.qname}:edges-and-recursion',
            where(p, coarse[0] if coarse else None),
            f'{len(adds)} parent-edge insertion(s); {len(rec)} recursive call(s); visited set keyed by the full node tag in {uses} use(s)',
            f'Construct._parents: parent edge insertions={len(adds)}, recursive calls={len(rec)}, visited-set uses not keyed by <node>.tag: {[norm(c) for c in coarse]}; every value node must be visited once and every child must get its parent edge',
        )
        if rec:
            a0 = rec[0].args[0] if rec[0].args else None
            r.check(
                a0 is not None and bool(names_in(a0) & {'children', 'child', 'node'} or names_in(a0)),
                f'{p.qname}:recursion-argument',
                where(p, rec[0]),
                'recursion descends into the children',
                'recursion does not descend into the children',
                nontrivial=False,
            )
        # ---- Node.trim copies ancestry
        t = prog.nfunc('dawgie.pl.dag.Node.trim')
        rep.analysed(t)
        r.instance()
        sets = [
            c
            for c in t.calls()
            if isinstance(c.func, ast.Attribute)
            and c.func.attr == 'set'
            and len(c.args) == 2
            and isinstance(c.args[0], ast.Constant)
            and c.args[0].value == 'ancestry'
        ]
        okk = False
        det = "no short_node.set('ancestry', ...) found"

        def _exp(e, depth=0):
            """names replaced by their single local definition (helper arguments become locals when a helper is inlined)"""
            if depth > 3:
                return [e]
            out = [e]
            for nm in {n.id for n in ast.walk(e) if isinstance(n, ast.Name)}:
                defs = [s.value for s in t.own_nodes() if isinstance(s, ast.Assign) and any(isinstance(x, ast.Name) and x.id == nm for x in s.targets)]
                for dv in defs:
                    out.extend(_exp(dv, depth + 1))
            return out

        for c in sets:
            val = c.args[1]
            if isinstance(val, ast.Name):
                # the stored variable must have been updated from self.get('ancestry')
                ups = [
                    u
                    for u in t.calls()
                    if isinstance(u.func, ast.Attribute)
                    and u.func.attr in ('update', '__ior__')
                    and isinstance(u.func.value, ast.Name)
                    and u.func.value.id == val.id
                    and u.args
                    and any((gk := get_key(n)) and gk[1] == 'ancestry' and isinstance(gk[0], ast.Name) and gk[0].id == 'self' for x in _exp(u.args[0]) for n in ast.walk(x))
                    and u.lineno <= c.lineno
                ]
                trimmed = any(any(isinstance(n, ast.Call) and isinstance(n.func, ast.Attribute) and n.func.attr == 'trim' for x in _exp(u.args[0]) for n in ast.walk(x)) for u in ups)
                if ups and trimmed:
                    okk = True
                    det = f"{val.id} is extended with the trimmed tags of self.get('ancestry') and stored as the short node's ancestry"
                else:
                    det = f"{val.id} stored as ancestry is not extended with (trimmed) self.get('ancestry')"
            elif any((gk := get_key(n)) and gk[1] == 'ancestry' and isinstance(gk[0], ast.Name) and gk[0].id == 'self' for n in ast.walk(val)):
                okk = True
                det = 'ancestry expression derived from self.get(ancestry)'
            else:
                det = f"value stored as ancestry ({norm(val)}) does not derive from the value-level node's ancestry"
        r.check(okk, f'{t.qname}:ancestry-copied', where(t), det, f'Node.trim: {det}')


def only_called_from(cg, qname, allowed, _seen=None):
    """every caller of `qname` (any edge kind) is in `allowed`, or is itself only called from `allowed` (helper chains);
    a function nobody calls is not accepted"""
    _seen = _seen or set()
    if qname in _seen:
        return True
    _seen.add(qname)
    callers = {e.src.qname for e in cg.callers(qname)}
    if not callers:
        return False
    for c in callers:
        if c in allowed:
            continue
        if not only_called_from(cg, c, allowed, _seen):
            return False
    return True


def job_loop(prog, disp):
    """the per-job loop of farm.dispatch: `for j in <_jobs...>` or `while <_jobs>: j = _jobs.pop(..)` -> (loop node, job variable)"""
    JOBS = 'dawgie.pl.farm._jobs'
    cands = []
    for n in disp.own_nodes():
        if isinstance(n, ast.For) and isinstance(n.target, ast.Name) and any(
            resolve_container(prog, disp, x) == JOBS for x in ast.walk(n.iter) if isinstance(x, (ast.Name, ast.Attribute))
        ):
            cands.append((n, n.target.id))
        elif isinstance(n, ast.While) and any(
            resolve_container(prog, disp, x) == JOBS for x in ast.walk(n.test) if isinstance(x, (ast.Name, ast.Attribute))
        ):
            for s in ast.walk(n):
                if (
                    isinstance(s, ast.Assign)
                    and len(s.targets) == 1
                    and isinstance(s.targets[0], ast.Name)
                    and any(resolve_container(prog, disp, x) == JOBS for x in ast.walk(s.value) if isinstance(x, (ast.Name, ast.Attribute)))
                ):
                    cands.append((n, s.targets[0].id))
                    break
    if len(cands) > 1:
        # by role: the hand-over loop is the one that makes the task messages (calls farm._put)
        put = [c for c in cands if any(isinstance(x, ast.Call) and (prog.callee(x, disp) or '').endswith('farm._put') for x in ast.walk(c[0]))]
        if len(put) == 1:
            return put[0]
    if len(cands) != 1:
        raise AnalysisError(f'farm.dispatch: the loop over the released batch (_jobs) was not found ({len(cands)} candidates)')
    return cands[0]


def inlined_helper(prog, cg, fn):
    """fn is a helper that did not exist when the rules were written (not in the baseline list) and is called directly
    from somewhere: the path rules see its body spliced into its callers (sa/inline.py), so it is not analysed on its
    own.  A new function nobody calls directly (a callback, an entry point) is NOT a helper and is analysed as it is."""
    from ..inline import baseline

    if fn.qname in baseline():
        return False
    return any(e.kind == 'direct' and e.src.qname != fn.qname for e in cg.callers(fn.qname))


def state_kept_by(prog, f):
    """ways in which a function keeps something between calls: memoising / unknown decorators, rebinding of globals,
    stores into module-level or default-argument containers -> list of descriptions (empty = stateless)"""
    m = f.module
    probs = []
    for d in f.node.decorator_list:
        txt = norm(d)
        if txt.split('(')[0].rsplit('.', 1)[-1] not in ('staticmethod', 'classmethod', 'property', 'abstractmethod', 'wraps'):
            probs.append(f'decorator @{txt[:40]}')
    globs = {n for g in f.own_nodes() if isinstance(g, ast.Global) for n in g.names}
    defaults = {a.arg for a, dv in zip(reversed(f.node.args.args), reversed(f.node.args.defaults)) if isinstance(dv, (ast.Dict, ast.List, ast.Set, ast.Call))}
    mutable_globals = {n for n, vals in m.globals.items() if any(isinstance(v, (ast.Dict, ast.List, ast.Set, ast.Call, ast.DictComp, ast.ListComp)) for v in vals)}
    local_names = {t.id for s_ in f.own_nodes() if isinstance(s_, ast.Assign) for t in s_.targets if isinstance(t, ast.Name)} | set(f.params())
    for n in f.own_nodes():
        tg = n.targets if isinstance(n, ast.Assign) else ([n.target] if isinstance(n, (ast.AugAssign, ast.AnnAssign)) else [])
        for t in tg:
            base = t
            while isinstance(base, ast.Subscript):
                base = base.value
            if isinstance(base, ast.Name):
                if base.id in globs:
                    probs.append(f'{norm(n)[:50]} rebinds / writes the global {base.id}')
                elif isinstance(t, ast.Subscript) and ((base.id in mutable_globals and base.id not in local_names) or base.id in defaults):
                    probs.append(f'{norm(n)[:50]} stores into the module-level / default-argument container {base.id}')
        if isinstance(n, ast.Call) and isinstance(n.func, ast.Attribute) and isinstance(n.func.value, ast.Name) and n.func.attr in ('append', 'extend', 'add', 'update', 'setdefault', 'insert', '__setitem__'):
            b = n.func.value.id
            if (b in mutable_globals and b not in local_names) or b in defaults or b in globs:
                probs.append(f'{norm(n)[:50]} stores into the module-level / default-argument container {b}')
    return sorted(set(probs))



def borrow(ctx, rep, items):
    """rules of sibling properties that are necessary conditions of this property as well (each with the reason); the
    rule keeps the id it has in its home module, is evaluated on the same program and reported under this property too.
    items: (module name, callable(mod) -> None, reason)"""
    import importlib

    rep.extra.setdefault('borrowed_rules', [])
    for modname, run, why in items:
        mod = importlib.import_module('.' + modname, __package__)
        run(mod)
        rep.extra['borrowed_rules'].append({'from': modname.upper(), 'why': why})


def path_condition(func, node):
    """the tests that must have taken a known outcome for control to reach `node` inside func, syntactically: enclosing
    if / elif arms and guard clauses (an earlier `if T: <ends in return / raise / break / continue>` of an enclosing
    block contributes `not T`).  -> [(test expr, outcome bool)] outermost first.  Loops and try blocks are transparent."""

    def ends(block):
        return bool(block) and isinstance(block[-1], (ast.Return, ast.Raise, ast.Break, ast.Continue))

    chain = []

    def find(stmts, acc):
        for i, s in enumerate(stmts):
            if s is node or any(x is node for x in ast.walk(s)):
                here = list(acc)
                for prev in stmts[:i]:
                    if isinstance(prev, ast.If):
                        if ends(prev.body) and not ends(prev.orelse):
                            here.append((prev.test, False))
                        elif prev.orelse and ends(prev.orelse) and not ends(prev.body):
                            here.append((prev.test, True))
                if s is node:
                    chain.extend(here)
                    return True
                if isinstance(s, ast.If):
                    if any(x is node for x in ast.walk(s.test)):
                        chain.extend(here)
                        return True
                    if find(s.body, here + [(s.test, True)]) or find(s.orelse, here + [(s.test, False)]):
                        return True
                for fld in ('body', 'orelse', 'finalbody'):
                    b = getattr(s, fld, None)
                    if isinstance(b, list) and b and isinstance(b[0], ast.stmt) and not isinstance(s, (ast.If, ast.FunctionDef, ast.AsyncFunctionDef, ast.ClassDef)):
                        if find(b, here):
                            return True
                if isinstance(s, ast.Try):
                    for h in s.handlers:
                        if find(h.body, here):
                            return True
                # the node sits in an expression of this statement
                chain.extend(here)
                return True
        return False

    find(func.node.body, [])
    return chain


def _def_time_problems(fnode, runtime_ctx):
    """defaults of one `def` that are evaluated once, when the function is defined, although they are not constants:
    a call, or a read of a dawgie.context setting that is assigned again at run time -> [(default expr, why)]"""
    out = []
    a = fnode.args
    for dv in list(a.defaults) + [x for x in a.kw_defaults if x is not None]:
        if any(isinstance(x, ast.Call) for x in ast.walk(dv)):
            out.append((dv, 'is a call evaluated once, when the module is imported'))
            continue
        for x in ast.walk(dv):
            if isinstance(x, ast.Attribute) and isinstance(x.value, (ast.Attribute, ast.Name)) and norm(x.value) in ('dawgie.context', 'context'):
                if 'dawgie.context.' + x.attr in runtime_ctx:
                    out.append((dv, f'reads dawgie.context.{x.attr} once, when the module is imported; context.override / the worker entry point assign it later'))
                    break
    return out


def runtime_context_settings(prog):
    """dawgie.context settings that have a writer at run time (an assignment inside a function, or from another module)"""
    CTX = 'dawgie.context'
    runtime = set()
    for fn in prog.funcs.values():
        for s_ in fn.own_nodes():
            tg = s_.targets if isinstance(s_, ast.Assign) else ([s_.target] if isinstance(s_, (ast.AugAssign, ast.AnnAssign)) else [])
            for t in tg:
                if isinstance(t, ast.Attribute):
                    sym = prog.resolve_in(t, fn) or ''
                    if sym.startswith(CTX + '.'):
                        runtime.add(sym)
    if CTX in prog.modules:
        # every setting is re-assigned by context.override (setattr over the parsed arguments): all module-level names
        runtime |= {CTX + '.' + n for n in prog.modules[CTX].globals}
    return runtime


def def_time_defaults(ctx, rep, rid, in_scope, what, breaks):
    """rule template: no `def` in the modules selected by in_scope(module name) has a default argument that is a call or
    a capture of a run-time-assigned dawgie.context setting (a default is evaluated once, at import)"""
    prog = ctx.prog
    with rep.rule(rid, what, floor=1, breaks=breaks) as r:
        # embedded positive example: the detector must fire on it on every run
        probe = ast.parse('def f(a, stamp=now(), d=dawgie.context.data_dbs, k=3, n=None):\n    pass').body[0]
        if len(_def_time_problems(probe, {'dawgie.context.data_dbs'})) != 2:
            raise AnalysisError(f'{rid}: the embedded example of a definition-time default is no longer recognised')
        runtime = runtime_context_settings(prog)
        n = 0
        for q, f in sorted(prog.funcs.items()):
            if not in_scope(f.module.name):
                continue
            n += 1
            for dv, why in _def_time_problems(f.node, runtime):
                r.instance()
                r.fail(f'{q}:default:{norm(dv)[:60]}', where(f, dv), f'default argument {norm(dv)[:60]} of {q} {why}: every call that relies on the default works with that stale value')
        r.instance()
        r.ok(f'{rid}:defaults', f'{n} function definitions checked: defaults are literals, names or attribute constants')
