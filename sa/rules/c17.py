"""C17  Search returns exactly the matching entries, in order, page by page."""

import ast
import itertools
import re

from .. import AnalysisError
from .. import inline as _inline
from ..flow import Flow
from ..report import Report
from ..util import where, mwhere, norm, names_in, call_name, arg, assigned_value
from ..variants import V

PID = 'C17'

BASIS = 'dawgie.db.basis'
FACADE = BASIS + '.SearchFacade'
RANGE = BASIS + '.Range'
PARAMS = BASIS + '.Params'
SHELVE = 'dawgie.db.shelve.search'
POST = 'dawgie.db.post.search'
S_IMPL = SHELVE + '.SearchImplementation'
P_IMPL = POST + '.SearchImplementation'


# ---------------------------------------------------------------------------
# shared extraction helpers


def params_fields(prog):
    """field names of basis.Params in declaration order (= Params._fields)"""
    c = prog.cls(PARAMS)
    out = []
    for s in c.node.body:
        if isinstance(s, ast.AnnAssign) and isinstance(s.target, ast.Name):
            out.append(s.target.id)
        elif isinstance(s, ast.Assign):
            out.extend(t.id for t in s.targets if isinstance(t, ast.Name))
    if len(out) < 2:
        raise AnalysisError('basis.Params has no declared fields')
    return out


def const_str_seq(node):
    """literal list/tuple of strings -> [str] else None"""
    if isinstance(node, (ast.List, ast.Tuple)) and node.elts and all(
        isinstance(e, ast.Constant) and isinstance(e.value, str) for e in node.elts
    ):
        return [e.value for e in node.elts]
    return None


def name_to_position(prog, f):
    """summary of a ``name -> int`` lookup function: {name: position} or None when the shape is not understood.

    Accepted idioms (each is an exact lookup table):
      * ``{k: i for i, k in enumerate(<literal list>)}[p]``   position = index in the literal
      * ``{'a': 0, 'b': 1, ...}[p]``                           literal table
      * ``<literal list>.index(p)``                            position = index in the literal
      * ``Params._fields.index(p)``                            position = declaration order of basis.Params
    """
    p = f.params()[-1] if f.params() else None
    rets = [n for n in f.own_nodes() if isinstance(n, ast.Return)]
    if len(rets) != 1 or rets[0].value is None or p is None:
        return None
    e = rets[0].value
    local = {}
    for n in f.own_nodes():
        if isinstance(n, ast.Assign) and len(n.targets) == 1 and isinstance(n.targets[0], ast.Name):
            local.setdefault(n.targets[0].id, []).append(n.value)

    def deref(x):
        if isinstance(x, ast.Name) and len(local.get(x.id, ())) == 1:
            return local[x.id][0]
        return x

    def seq(x):
        x = deref(x)
        lit = const_str_seq(x)
        if lit is not None:
            return lit
        if isinstance(x, ast.Call) and call_name(x) in ('list', 'tuple') and len(x.args) == 1:
            return seq(x.args[0])
        if isinstance(x, ast.Attribute) and x.attr == '_fields' and prog.resolve_in(x.value, f) == PARAMS:
            return params_fields(prog)
        return None

    if isinstance(e, ast.Subscript) and isinstance(e.slice, ast.Name) and e.slice.id == p:
        tab = deref(e.value)
        if isinstance(tab, ast.Dict):
            out = {}
            for k, v in zip(tab.keys, tab.values):
                if not (
                    isinstance(k, ast.Constant)
                    and isinstance(k.value, str)
                    and isinstance(v, ast.Constant)
                    and type(v.value) is int
                ):
                    return None
                out[k.value] = v.value
            return out
        if isinstance(tab, ast.DictComp) and len(tab.generators) == 1 and not tab.generators[0].ifs:
            g = tab.generators[0]
            it = g.iter
            if (
                isinstance(it, ast.Call)
                and call_name(it) == 'enumerate'
                and len(it.args) == 1
                and not it.keywords
                and isinstance(g.target, ast.Tuple)
                and len(g.target.elts) == 2
                and all(isinstance(t, ast.Name) for t in g.target.elts)
            ):
                i, k = (t.id for t in g.target.elts)
                names = seq(it.args[0])
                if names is None:
                    return None
                if isinstance(tab.key, ast.Name) and isinstance(tab.value, ast.Name):
                    if tab.key.id == k and tab.value.id == i:
                        return {n: j for j, n in enumerate(names)}
            return None
    if (
        isinstance(e, ast.Call)
        and isinstance(e.func, ast.Attribute)
        and e.func.attr == 'index'
        and len(e.args) == 1
        and isinstance(e.args[0], ast.Name)
        and e.args[0].id == p
    ):
        names = seq(e.func.value)
        if names is not None:
            return {n: j for j, n in enumerate(names)}
    return None


def name_to_table(prog, f):
    """summary of shelve._table_index: {param name: Table member name} or None"""
    p = f.params()[-1] if f.params() else None
    rets = [n for n in f.own_nodes() if isinstance(n, ast.Return)]
    if len(rets) != 1 or rets[0].value is None or p is None:
        return None
    e = rets[0].value
    # accepted: <dict literal>[p].value  or  <dict literal>[p]  (IntEnum is an int)
    if isinstance(e, ast.Attribute) and e.attr == 'value':
        e = e.value
    if not (isinstance(e, ast.Subscript) and isinstance(e.slice, ast.Name) and e.slice.id == p):
        return None
    tab = e.value
    if isinstance(tab, ast.Name):
        vals = [
            n.value
            for n in f.own_nodes()
            if isinstance(n, ast.Assign) and any(isinstance(t, ast.Name) and t.id == tab.id for t in n.targets)
        ] or f.module.globals.get(tab.id, [])
        if len(vals) != 1:
            return None
        tab = vals[0]
    if not isinstance(tab, ast.Dict):
        return None
    out = {}
    for k, v in zip(tab.keys, tab.values):
        if not (isinstance(k, ast.Constant) and isinstance(k.value, str) and isinstance(v, ast.Attribute)):
            return None
        if prog.resolve_in(v.value, f) != 'dawgie.db.shelve.enums.Table':
            return None
        out[k.value] = v.attr
    return out


def key_tuple_tables(prog, f):
    """shelve Connector.__to_key: table behind every component of the returned key tuple.

    -> ['<runid>', 'target', 'task', 'alg', 'state', 'value'] : component i is the parameter ``runid`` itself or
    the id returned by ``self._update_cmd(name, parent, Table.X, ...)``.

    The summary is taken by role, not by position: newly extracted helpers are inlined, the returned value is followed
    through single-definition locals (also tuple unpacking and ``a + b`` of tuples) to the tuple display, and every
    component is followed through locals, ``<reply>[i]`` and int(...) to the one call that names its table.
    """
    f = prog.nfunc(f.qname)
    rets = [n for n in f.own_nodes() if isinstance(n, ast.Return) and n.value is not None]
    if len(rets) != 1:
        return None
    stores = {}
    for n in f.own_nodes():
        if isinstance(n, ast.Name) and isinstance(n.ctx, (ast.Store, ast.Del)):
            stores[n.id] = stores.get(n.id, 0) + 1
    defs = {}  # name -> ('is', value) | ('item', value, i): the only definition of a local
    for n in f.own_nodes():
        if isinstance(n, ast.AnnAssign) and n.value is not None and isinstance(n.target, ast.Name):
            defs[n.target.id] = ('is', n.value)
        elif isinstance(n, ast.NamedExpr):
            defs[n.target.id] = ('is', n.value)
        elif isinstance(n, ast.Assign):
            for t in n.targets:
                if isinstance(t, ast.Name):
                    defs[t.id] = ('is', n.value)
                elif isinstance(t, (ast.Tuple, ast.List)) and not any(isinstance(x, ast.Starred) for x in t.elts):
                    for i, x in enumerate(t.elts):
                        if isinstance(x, ast.Name):
                            defs[x.id] = ('item', n.value, i)

    def definition(name):
        if name in f.params() or stores.get(name) != 1:
            return None
        return defs.get(name)

    def elts(e, depth=0):
        """components of a tuple-valued expression or None"""
        if depth > 8:
            return None
        if isinstance(e, (ast.Tuple, ast.List)):
            if any(isinstance(x, ast.Starred) for x in e.elts):
                return None
            return list(e.elts)
        if isinstance(e, ast.BinOp) and isinstance(e.op, ast.Add):
            l, r = elts(e.left, depth + 1), elts(e.right, depth + 1)
            return None if l is None or r is None else l + r
        if isinstance(e, ast.Call) and isinstance(e.func, ast.Name) and e.func.id == 'tuple' and len(e.args) == 1 and not e.keywords:
            return elts(e.args[0], depth + 1)
        if isinstance(e, ast.Name):
            d = definition(e.id)
            if d is not None and d[0] == 'is':
                return elts(d[1], depth + 1)
        return None

    def table_of(e, depth=0):
        """'<param>' or the one Table member named by the call that produces component e, else None"""
        if depth > 8:
            return None
        if isinstance(e, ast.Name):
            if e.id in f.params():
                return f'<{e.id}>' if not stores.get(e.id) else None
            d = definition(e.id)
            if d is None:
                return None
            if d[0] == 'item':
                sub = elts(d[1], depth + 1)
                if sub is not None:  # a, b = x, y
                    return table_of(sub[d[2]], depth + 1) if d[2] < len(sub) else None
            return table_of(d[1], depth + 1)
        if isinstance(e, ast.Subscript) and isinstance(e.slice, ast.Constant) and type(e.slice.value) is int:
            return table_of(e.value, depth + 1)
        if isinstance(e, ast.Call) and isinstance(e.func, ast.Name) and e.func.id == 'int' and len(e.args) == 1 and not e.keywords:
            return table_of(e.args[0], depth + 1)
        if isinstance(e, ast.Call):
            tabs = {
                a.attr
                for x in list(e.args) + [k.value for k in e.keywords]
                for a in ast.walk(x)
                if isinstance(a, ast.Attribute) and prog.resolve_in(a.value, f) == 'dawgie.db.shelve.enums.Table'
            }
            return tabs.pop() if len(tabs) == 1 else None
        return None

    comps = elts(rets[0].value)
    if comps is None:
        return None
    out = [table_of(el) for el in comps]
    return None if any(t is None for t in out) else out


# ---------------------------------------------------------------------------
# R-C17-3


def _rule3(ctx, rep):
    prog = ctx.prog
    with rep.rule(
        'R-C17-3',
        'the lookup tables that align a Params field with a key-tuple position, a shelve table and an SQL table are '
        'keyed by exactly Params._fields and agree with the key tuple built by the writer',
        floor=4,
        breaks='a constraint is applied to the wrong component of the primary key, or a field (vals) raises KeyError',
    ) as r:
        fields = params_fields(prog)
        r.extra['params_fields'] = fields
        # (a) _align order == Params._fields
        fa = prog.func(SHELVE + '._align')
        rep.analysed(fa)
        r.instance()
        pos = name_to_position(prog, fa)
        if pos is None:
            r.fail(f'{fa.qname}:shape', where(fa), '_align is not one of the understood exact lookup idioms; alignment not shown')
        else:
            want = {n: i for i, n in enumerate(fields)}
            r.check(
                pos == want,
                f'{fa.qname}:order',
                where(fa),
                f'_align = {pos} equals the declaration order of Params',
                f'_align maps {pos} but Params._fields is {fields}: a field is looked up at the wrong key position',
            )
        # (b) _table_index keyed by exactly Params._fields
        ft = prog.func(SHELVE + '._table_index')
        rep.analysed(ft)
        r.instance()
        tab = name_to_table(prog, ft)
        if tab is None:
            r.fail(f'{ft.qname}:shape', where(ft), '_table_index is not a literal {field: Table.member} lookup; not understood')
        else:
            r.check(
                set(tab) == set(fields) and len(tab) == len(fields),
                f'{ft.qname}:keys',
                where(ft),
                'keys of _table_index are exactly Params._fields',
                f'_table_index keys {sorted(tab)} differ from Params._fields {fields} '
                f'(missing {sorted(set(fields) - set(tab))}, unknown {sorted(set(tab) - set(fields))})',
            )
        # (c) agreement with the key tuple built by the writer (Connector.__to_key)
        fk = None
        for q, fn in prog.funcs.items():
            if q.startswith('dawgie.db.shelve.model.') and q.endswith('__to_key'):
                fk = fn
        if fk is None:
            raise AnalysisError('anchor function dawgie.db.shelve.model.*.__to_key not found')
        rep.analysed(fk)
        r.instance()
        kt = key_tuple_tables(prog, fk)
        if kt is None or pos is None or tab is None:
            r.fail(f'{fk.qname}:key-tuple', where(fk), 'key tuple of __to_key (or a lookup table) could not be summarised; agreement not shown')
        else:
            bad = []
            for n in fields:
                if n not in pos or n not in tab or pos[n] >= len(kt):
                    bad.append(f'{n}: no position/table')
                    continue
                comp = kt[pos[n]]
                if comp.startswith('<'):  # the run id itself lives in the prime table
                    if tab[n] != 'prime':
                        bad.append(f'{n}: key component {comp} but table {tab[n]}')
                elif comp != tab[n]:
                    bad.append(f'{n}: key component {pos[n]} is an id of table {comp} but _table_index says {tab[n]}')
            r.check(
                not bad and len(kt) == len(fields),
                f'{fk.qname}:agreement',
                where(fk),
                f'key tuple {kt}: position _align(f) holds an id of table _table_index(f) for every field f',
                'key tuple built by __to_key disagrees with _align/_table_index: ' + '; '.join(bad or [f'arity {len(kt)} vs {len(fields)}']),
            )
        # (d) post: _SQL_TABLE keyed by exactly Params._fields
        pm = prog.module(POST)
        vals = pm.globals.get('_SQL_TABLE')
        r.instance()
        if not vals or len(vals) != 1 or not isinstance(vals[0], ast.Dict):
            r.fail(f'{POST}:_SQL_TABLE:shape', f'{pm.relpath}:0', '_SQL_TABLE is not a single literal dict; not understood')
        else:
            d = vals[0]
            keys = [k.value if isinstance(k, ast.Constant) else None for k in d.keys]
            for k in sorted(set(fields) - set(keys)):
                r.fail(
                    f'{POST}:_SQL_TABLE:missing:{k}',
                    mwhere(pm, d),
                    f'_SQL_TABLE has no entry for Params field {k!r}: a search constrained on it raises KeyError',
                )
            for k in sorted({k for k in keys if k is not None} - set(fields)):
                r.fail(
                    f'{POST}:_SQL_TABLE:unknown:{k}',
                    mwhere(pm, d),
                    f'_SQL_TABLE key {k!r} is not a field of Params ({fields})',
                    nontrivial=False,
                )
            if set(keys) == set(fields):
                r.ok(f'{POST}:_SQL_TABLE:keys', 'keys are exactly Params._fields', mwhere(pm, d))


# ---------------------------------------------------------------------------
# R-C17-5  small-model evaluator (DESIGN B.7): the analysed code touches run ids only through comparisons and
# +/- integer literals, so evaluating it for every assignment of the end points in 0..n*(c+1)-1 (n symbolic end
# points, c the largest literal) covers every weak ordering with every relevant gap: a complete finite abstraction.


class _NotUnderstood(Exception):
    pass


def _R(s, t):
    return ('R', s, t)


def spec_contains(rng, x):
    """denotation of a Range record: the half-open interval [start, stop) or [start, inf)"""
    _, s, t = rng
    return s <= x and (t is None or x < t)


class _Mini:
    """interpreter for the statement/expression subset of B.7 over ints, None, Range records and lists of them"""

    CMP = {
        ast.Lt: lambda a, b: a < b,
        ast.LtE: lambda a, b: a <= b,
        ast.Gt: lambda a, b: a > b,
        ast.GtE: lambda a, b: a >= b,
        ast.Eq: lambda a, b: a == b,
        ast.NotEq: lambda a, b: a != b,
    }

    def __init__(self, prog, func):
        self.prog = prog
        self.func = func
        self.break_ok = None  # callback(env) -> bool deciding whether a ``break`` loses nothing

    def is_range_ctor(self, call):
        return self.prog.resolve_in(call.func, self.func) == RANGE

    def expr(self, e, env):
        if isinstance(e, ast.Constant):
            if e.value is None or type(e.value) in (int, bool):
                return e.value
            raise _NotUnderstood(f'constant {e.value!r}')
        if isinstance(e, ast.Name):
            if e.id in env:
                return env[e.id]
            raise _NotUnderstood(f'free name {e.id}')
        if isinstance(e, ast.Attribute) and e.attr in ('start', 'stop'):
            v = self.expr(e.value, env)
            if isinstance(v, tuple) and v[0] == 'R':
                return v[1] if e.attr == 'start' else v[2]
            raise _NotUnderstood(f'.{e.attr} of a non-Range value in {norm(e)}')
        if isinstance(e, ast.Subscript):
            v = self.expr(e.value, env)
            i = e.slice
            if (
                isinstance(v, list)
                and isinstance(i, ast.UnaryOp)
                and isinstance(i.op, ast.USub)
                and isinstance(i.operand, ast.Constant)
                and i.operand.value == 1
                and v
            ):
                return v[-1]
            raise _NotUnderstood(f'subscript {norm(e)} (only <list>[-1] is interpreted)')
        if isinstance(e, ast.UnaryOp) and isinstance(e.op, ast.Not):
            return not self.truth(self.expr(e.operand, env))
        if isinstance(e, ast.UnaryOp) and isinstance(e.op, ast.USub):
            v = self.expr(e.operand, env)
            if type(v) is int:
                return -v
            raise _NotUnderstood(norm(e))
        if isinstance(e, ast.BoolOp):
            res = None
            for v in e.values:
                res = self.expr(v, env)
                t = self.truth(res)
                if isinstance(e.op, ast.And) and not t:
                    return res
                if isinstance(e.op, ast.Or) and t:
                    return res
            return res
        if isinstance(e, ast.IfExp):
            return self.expr(e.body if self.truth(self.expr(e.test, env)) else e.orelse, env)
        if isinstance(e, ast.BinOp) and isinstance(e.op, (ast.Add, ast.Sub)):
            a, b = self.expr(e.left, env), self.expr(e.right, env)
            if type(a) is int and type(b) is int and (
                isinstance(e.left, ast.Constant) or isinstance(e.right, ast.Constant)
            ):
                return a + b if isinstance(e.op, ast.Add) else a - b
            raise _NotUnderstood(f'arithmetic {norm(e)} (only +/- an integer literal is interpreted)')
        if isinstance(e, ast.Compare):
            left = self.expr(e.left, env)
            for op, c in zip(e.ops, e.comparators):
                right = self.expr(c, env)
                if isinstance(op, (ast.Is, ast.IsNot)):
                    if left is not None and right is not None:
                        raise _NotUnderstood(f'identity test {norm(e)}')
                    ok = (left is right) == isinstance(op, ast.Is)
                elif isinstance(op, (ast.In, ast.NotIn)):
                    if not (isinstance(right, tuple) and right[0] == 'R' and type(left) is int):
                        raise _NotUnderstood(f'membership {norm(e)} on something that is not a Range')
                    ok = spec_contains(right, left) == isinstance(op, ast.In)
                else:
                    if type(left) is not int or type(right) is not int:
                        # comparing None (open end) with < raises TypeError at run time
                        raise _NotUnderstood(f'order comparison with a non-integer (open end?) in {norm(e)}')
                    ok = self.CMP[type(op)](left, right)
                if not ok:
                    return False
                left = right
            return True
        if isinstance(e, ast.Call):
            n = call_name(e)
            if self.is_range_ctor(e):
                s, t = 0, None  # dataclass defaults are checked against the class by the caller
                pos = [self.expr(a, env) for a in e.args]
                if len(pos) > 2:
                    raise _NotUnderstood(norm(e))
                if pos:
                    s = pos[0]
                if len(pos) == 2:
                    t = pos[1]
                for k in e.keywords:
                    if k.arg == 'start':
                        s = self.expr(k.value, env)
                    elif k.arg == 'stop':
                        t = self.expr(k.value, env)
                    else:
                        raise _NotUnderstood(norm(e))
                if type(s) is not int or not (t is None or type(t) is int):
                    raise _NotUnderstood(f'Range built from a non-integer in {norm(e)}')
                return _R(s, t)
            if isinstance(e.func, ast.Name) and n in ('any', 'all') and len(e.args) == 1 and not e.keywords:
                g = e.args[0]
                if isinstance(g, (ast.GeneratorExp, ast.ListComp)) and len(g.generators) == 1:
                    gen = g.generators[0]
                    seq = self.expr(gen.iter, env)
                    if not isinstance(seq, list) or not isinstance(gen.target, ast.Name):
                        raise _NotUnderstood(norm(e))
                    vals = []
                    for x in seq:
                        env2 = dict(env)
                        env2[gen.target.id] = x
                        if all(self.truth(self.expr(c, env2)) for c in gen.ifs):
                            vals.append(self.truth(self.expr(g.elt, env2)))
                    return any(vals) if n == 'any' else all(vals)
                if isinstance(g, (ast.List, ast.Tuple)):
                    vals = [self.truth(self.expr(x, env)) for x in g.elts]
                    return any(vals) if n == 'any' else all(vals)
            if isinstance(e.func, ast.Name) and n in ('max', 'min') and len(e.args) == 2 and not e.keywords:
                a, b = self.expr(e.args[0], env), self.expr(e.args[1], env)
                if type(a) is int and type(b) is int:
                    return max(a, b) if n == 'max' else min(a, b)
                raise _NotUnderstood(f'{n} over a non-integer (open end?) in {norm(e)}')
            raise _NotUnderstood(f'call {norm(e)}')
        raise _NotUnderstood(f'expression {norm(e)}')

    @staticmethod
    def truth(v):
        if v is None or isinstance(v, (bool, int, list)):
            return bool(v)
        if isinstance(v, tuple):
            return True
        raise _NotUnderstood('truth value')

    def block(self, stmts, env):
        """-> None (fell through) | 'continue' | 'break' | ('return', value)"""
        for s in stmts:
            sig = self.stmt(s, env)
            if sig is not None:
                return sig
        return None

    def stmt(self, s, env):
        if isinstance(s, ast.If):
            return self.block(s.body if self.truth(self.expr(s.test, env)) else s.orelse, env)
        if isinstance(s, ast.Continue):
            return 'continue'
        if isinstance(s, ast.Break):
            return 'break'
        if isinstance(s, ast.Pass):
            return None
        if isinstance(s, ast.Return):
            return ('return', self.expr(s.value, env) if s.value is not None else None)
        if isinstance(s, ast.Expr):
            c = s.value
            if isinstance(c, ast.Constant):
                return None  # docstring
            if (
                isinstance(c, ast.Call)
                and isinstance(c.func, ast.Attribute)
                and c.func.attr == 'append'
                and isinstance(c.func.value, ast.Name)
                and isinstance(env.get(c.func.value.id), list)
                and len(c.args) == 1
            ):
                env[c.func.value.id].append(self.expr(c.args[0], env))
                return None
            raise _NotUnderstood(f'statement {norm(s)}')
        if isinstance(s, ast.Assign) and len(s.targets) == 1:
            t = s.targets[0]
            v = self.expr(s.value, env)
            if isinstance(t, ast.Name):
                if isinstance(env.get(t.id), list):
                    raise _NotUnderstood(f'rebinding of the list {t.id}')
                env[t.id] = v
                return None
            if (
                isinstance(t, ast.Subscript)
                and isinstance(t.value, ast.Name)
                and isinstance(env.get(t.value.id), list)
                and norm(t.slice) == '-1'
                and env[t.value.id]
            ):
                env[t.value.id][-1] = v
                return None
        raise _NotUnderstood(f'statement {norm(s)}')


def _max_literal(nodes):
    m = 0
    for top in nodes:
        for n in ast.walk(top):
            if isinstance(n, ast.BinOp):
                for side in (n.left, n.right):
                    if isinstance(side, ast.Constant) and type(side.value) is int:
                        m = max(m, abs(side.value))
    return m


def _den(ranges, window):
    return frozenset(x for x in window if any(spec_contains(r, x) for r in ranges))


def _find_merge_loop(prog, f):
    """the for loop of _scrub whose body builds basis.Range values (the merge of overlapping ranges)"""
    out = []
    for n in f.own_nodes():
        if isinstance(n, ast.For):
            for c in ast.walk(ast.Module(body=n.body, type_ignores=[])):
                # a Range built from the end points of other ranges (the parser in _divide builds them from text)
                if (
                    isinstance(c, ast.Call)
                    and prog.resolve_in(c.func, f) == RANGE
                    and any(isinstance(a, ast.Attribute) and a.attr in ('start', 'stop') for a in ast.walk(c))
                ):
                    out.append(n)
                    break
    return out


def _sort_key_is_start(call_or_kw):
    """key=lambda r: r.start  |  key=operator.attrgetter('start')  |  key=lambda r: (r.start, ...)"""
    k = call_or_kw
    if isinstance(k, ast.Lambda) and len(k.args.args) == 1:
        p = k.args.args[0].arg
        b = k.body
        if isinstance(b, ast.Tuple) and b.elts:
            b = b.elts[0]
        return isinstance(b, ast.Attribute) and b.attr == 'start' and isinstance(b.value, ast.Name) and b.value.id == p
    if isinstance(k, ast.Call) and call_name(k) == 'attrgetter' and len(k.args) == 1:
        return isinstance(k.args[0], ast.Constant) and k.args[0].value == 'start'
    return False


class _Sorted(Flow):
    """is the list S sorted by start (ascending) whenever the merge loop is entered?  state: True/False"""

    def __init__(self, name, loop):
        super().__init__()
        self.name = name
        self.loop = loop
        self.at_loop = set()

    def _kw_ok(self, call):
        key = arg(call, None, 'key')
        rev = arg(call, None, 'reverse')
        return key is not None and _sort_key_is_start(key) and (rev is None or (isinstance(rev, ast.Constant) and not rev.value))

    def on_call(self, call, st):
        f = call.func
        if call is self.loop:  # the helper holding the merge loop is entered here
            self.at_loop.add(st)
        if isinstance(f, ast.Attribute) and isinstance(f.value, ast.Name) and f.value.id == self.name:
            if f.attr == 'sort':
                return (self._kw_ok(call),)
            if f.attr in ('append', 'extend', 'insert', 'reverse', 'pop', 'remove'):
                return (False,)
        return (st,)

    def on_stmt(self, s, st):
        if isinstance(s, (ast.Assign, ast.AugAssign, ast.AnnAssign)):
            tg = s.targets if isinstance(s, ast.Assign) else [s.target]
            for t in tg:
                if any(isinstance(n, ast.Name) and n.id == self.name for n in ast.walk(t)):
                    v = s.value
                    ok = (
                        isinstance(s, ast.Assign)
                        and isinstance(v, ast.Call)
                        and isinstance(v.func, ast.Name)
                        and v.func.id == 'sorted'
                        and self._kw_ok(v)
                    )
                    return (ok,)
        return (st,)

    def on_for(self, node, st):
        if node is self.loop:
            self.at_loop.add(st)
        return (st,)


def _reach(prog, f, depth=2):
    """f and the repository functions of dawgie.db it calls, to the given depth: [(func, call node, calling func)]"""
    out, seen = [(f, None, None)], {f.qname}
    level = [f]
    for _ in range(depth):
        nxt = []
        for g in level:
            for c in g.calls():
                if isinstance(c.func, ast.Call):
                    continue
                h = prog.func_of(prog.resolve_in(c.func, g))
                if h is None or h.qname in seen or not h.module.name.startswith('dawgie.db'):
                    continue
                if h.cls is not None and h.name == '__init__':
                    continue
                seen.add(h.qname)
                out.append((h, c, g))
                nxt.append(h)
        level = nxt
    return out


def _flows_into(prog, f, src_names, dst):
    """may-flow closure over assignments, growth calls, loop targets and returns: does each of src_names reach dst?

    Pseudo names: '<return>' (what f returns) and '<call:qname>' (the value of a call to a repository function).
    """

    def names(e):
        out = set(names_in(e))
        for c in ast.walk(e):
            if isinstance(c, ast.Call) and not isinstance(c.func, ast.Call):
                h = prog.func_of(prog.resolve_in(c.func, f))
                if h is not None:
                    out.add(f'<call:{h.qname}>')
        return out

    dep = {}
    for n in f.own_nodes():
        if isinstance(n, (ast.Assign, ast.AnnAssign, ast.AugAssign)) and n.value is not None:
            for t in n.targets if isinstance(n, ast.Assign) else [n.target]:
                for tn in names_in(t):
                    dep.setdefault(tn, set()).update(names(n.value))
        elif (
            isinstance(n, ast.Call)
            and isinstance(n.func, ast.Attribute)
            and isinstance(n.func.value, ast.Name)
            and n.func.attr in ('append', 'extend', 'update', 'add', 'insert')
        ):
            for a in n.args:
                dep.setdefault(n.func.value.id, set()).update(names(a))
        elif isinstance(n, (ast.For, ast.comprehension)):
            for tn in names_in(n.target):
                dep.setdefault(tn, set()).update(names(n.iter))
        elif isinstance(n, ast.Return) and n.value is not None:
            dep.setdefault('<return>', set()).update(names(n.value))
    seen, todo = set(), [dst]
    while todo:
        x = todo.pop()
        if x in seen:
            continue
        seen.add(x)
        todo.extend(dep.get(x, ()))
    return {s: s in seen for s in src_names}


def _rule5(ctx, rep):
    prog = ctx.prog
    f = prog.func(FACADE + '._scrub')
    rc = prog.cls(RANGE)
    rep.analysed(f)
    with rep.rule(
        'R-C17-5',
        'normalising a run-ID expression preserves the denoted set: Range.__contains__ is the half-open interval, one '
        'merge step keeps the union (evaluated for every ordering of the four end points incl. open ends), the merge '
        'loop runs on a list sorted by start, and an index is dropped exactly when a range contains it',
        floor=4,
        breaks='a search for "1:4,3:9,5" looks up a different set of run ids than the one the user wrote',
    ) as r:
        # ---- (a) Range.__contains__ is [start, stop) / [start, inf)
        fc = prog.method(RANGE, '__contains__')
        if fc is None:
            raise AnalysisError('anchor function dawgie.db.basis.Range.__contains__ not found')
        rep.analysed(fc)
        r.instance()
        defaults = {}
        for s in rc.node.body:
            if isinstance(s, ast.AnnAssign) and isinstance(s.target, ast.Name) and isinstance(s.value, ast.Constant):
                defaults[s.target.id] = s.value.value
        r.check(
            defaults.get('start') == 0 and 'stop' in defaults and defaults['stop'] is None,
            f'{RANGE}:defaults',
            mwhere(rc.module, rc.node),
            'Range() defaults: start=0, stop=None (open end)',
            f'Range field defaults are {defaults}; the analysis (and _divide) assume start=0 / stop=None',
            nontrivial=False,
        )
        mi = _Mini(prog, fc)
        ps = fc.params()
        cases, bad = 0, None
        try:
            c = _max_literal([fc.node])
            D = 3 * (c + 1)
            for s_, t_, x in itertools.product(range(D), list(range(D)) + [None], range(D)):
                cases += 1
                sig = mi.block(fc.node.body, {ps[0]: _R(s_, t_), ps[1]: x})
                got = sig[1] if isinstance(sig, tuple) else None
                if bool(got) != spec_contains(_R(s_, t_), x):
                    bad = f'Range({s_}, {t_}).__contains__({x}) evaluates to {got}'
                    break
        except _NotUnderstood as e:
            bad = f'not understood: {e}'
        r.check(
            bad is None,
            f'{fc.qname}:half-open',
            where(fc),
            f'{cases} end-point assignments: member in Range  <=>  start <= member and (stop is None or member < stop)',
            f'Range.__contains__ is not the half-open interval the SQL backend and the merge assume: {bad}',
        )
        # ---- (b) merge step (the loop may live in _scrub or in a helper it calls)
        scope = _reach(prog, f)
        for g, _c, _p in scope:
            rep.analysed(g)
        found = [(g, call, parent, lp) for g, call, parent in scope for lp in _find_merge_loop(prog, g)]
        if len(found) != 1:
            raise AnalysisError(
                f'_scrub: expected exactly one loop building Range values (the merge) in _scrub or its helpers, found {len(found)}'
            )
        g, gcall, gparent, loop = found[0]
        loops = [loop]
        r.instance()
        key = f'{f.qname}:merge-step'
        acc = set()
        for n in ast.walk(ast.Module(body=loop.body, type_ignores=[])):
            if isinstance(n, ast.Call) and isinstance(n.func, ast.Attribute) and n.func.attr == 'append' and isinstance(n.func.value, ast.Name):
                acc.add(n.func.value.id)
            if isinstance(n, ast.Assign):
                for t in n.targets:
                    if isinstance(t, ast.Subscript) and isinstance(t.value, ast.Name):
                        acc.add(t.value.id)
        src = None
        it = loop.iter
        if (
            isinstance(it, ast.Subscript)
            and isinstance(it.value, ast.Name)
            and isinstance(it.slice, ast.Slice)
            and norm(it.slice.lower) == '1'
            and it.slice.upper is None
            and it.slice.step is None
        ):
            src = it.value.id
        init_ok = False
        M = next(iter(acc)) if len(acc) == 1 else None
        if M and src:
            inits = [
                n.value
                for n in g.own_nodes()
                if isinstance(n, (ast.Assign, ast.AnnAssign))
                and n.value is not None
                and any(isinstance(t, ast.Name) and t.id == M for t in (n.targets if isinstance(n, ast.Assign) else [n.target]))
            ]
            inits = [v for v in inits if not (isinstance(v, ast.Name))]
            init_ok = len(inits) == 1 and norm(inits[0]) == f'[{src}[0]]'
        M_out = None  # name under which the merged list is visible in _scrub
        if not (isinstance(loop.target, ast.Name) and M and src and init_ok):
            r.fail(
                key,
                where(g, loop),
                'merge loop is not of the understood shape (accumulator initialised with [S[0]], loop over S[1:], '
                'accumulator only appended to or its last element replaced); union preservation not shown',
            )
        else:
            mi = _Mini(prog, g)
            rv = loop.target.id
            c = _max_literal(loop.body)
            D = 4 * (c + 1)
            win = range(-1, D + c + 2)
            cases, bad = 0, None
            stops = list(range(D)) + [None]
            try:
                for ms, mt, rs, rt in itertools.product(range(D), stops, range(D), stops):
                    if ms > rs:
                        continue  # precondition: sorted by start
                    cases += 1
                    m, rr = _R(ms, mt), _R(rs, rt)
                    env = {M: [m], rv: rr}
                    sig = mi.block(loop.body, env)
                    out = env[M]
                    if isinstance(sig, tuple):
                        raise _NotUnderstood('return inside the merge loop')
                    want = _den([m, rr], win)
                    got = _den(out, win)
                    if sig == 'break':
                        # every later range starts at or after rr.start: nothing is lost only if the tail is open
                        if not (out and out[-1][2] is None and out[-1][1] <= rs):
                            bad = f'break with merged[-1]={out[-1] if out else None}: later ranges are dropped'
                            break
                    if got != want:
                        miss, extra = sorted(want - got), sorted(got - want)
                        bad = (
                            f'merged[-1]=Range({ms},{mt}), next=Range({rs},{rt}) gives {[(o[1], o[2]) for o in out]}: '
                            f'run ids lost {miss[:4]} added {extra[:4]}'
                        )
                        break
                    if not out or out[-1][1] > rs:
                        bad = f'after the step merged[-1].start={out[-1][1] if out else None} exceeds the start {rs} just processed (order invariant lost)'
                        break
            except _NotUnderstood as e:
                bad = f'not understood: {e}'
            r.extra['merge_step_cases'] = cases
            r.extra['exhaustive'] = True
            r.check(
                bad is None,
                key,
                where(g, loop),
                f'{cases} (start, stop|open) assignments with merged[-1].start <= r.start: union and order invariant preserved',
                f'one merge step of _scrub changes the denoted set: {bad}',
            )
            # ---- (c) sorted precondition reaches the loop on every path (sorted in the helper or before its call)
            r.instance()
            entry = False
            if g is not f and src in g.params():
                ps = g.params()
                if ps and ps[0] in ('self', 'cls') and not g.is_staticmethod():
                    ps = ps[1:]
                i = ps.index(src) if src in ps else None
                a = arg(gcall, i, src) if i is not None else None
                if isinstance(a, ast.Name):
                    up = _Sorted(a.id, gcall)
                    up.run(gparent.node, False)
                    entry = up.at_loop == {True}
            fl = _Sorted(src, loop)
            fl.run(g.node, entry)
            r.check(
                fl.at_loop == {True},
                f'{f.qname}:sorted-by-start',
                where(g, loop),
                f'{src} is sorted ascending by .start on every path into the merge loop',
                f'the merge loop can be entered with {src} not sorted by start (states {sorted(fl.at_loop)}): '
                'the step only looks at the last merged range, so overlaps with earlier ones are missed',
            )
            if g is f:
                M_out = M
            elif all(_flows_into(prog, g, [M], '<return>').values()):
                M_out = f'<call:{g.qname}>'
        # ---- (d) index absorption (loop or comprehension, in _scrub or a helper)
        r.instance()
        key = f'{f.qname}:index-absorption'
        cand = []
        for g2, _c2, _p2 in scope:
            for n in g2.own_nodes():
                tests = None
                if isinstance(n, ast.For) and n not in loops and isinstance(n.target, ast.Name):
                    region = ast.Module(body=n.body, type_ignores=[])
                elif isinstance(n, (ast.ListComp, ast.SetComp, ast.GeneratorExp)) and len(n.generators) == 1 and n.generators[0].ifs:
                    region = ast.Module(body=[ast.Expr(value=c_) for c_ in n.generators[0].ifs], type_ignores=[])
                else:
                    continue
                tests = [
                    c_
                    for c_ in ast.walk(region)
                    if isinstance(c_, ast.Call) and isinstance(c_.func, ast.Name) and c_.func.id in ('any', 'all')
                    and c_.args and isinstance(c_.args[0], (ast.GeneratorExp, ast.ListComp))
                ]
                if tests:
                    cand.append((g2, n, tests))
        K_out = None
        if len(cand) != 1:
            r.fail(key, where(f), f'expected one loop/comprehension over the individual run ids testing them against the ranges, found {len(cand)}; not understood')
        else:
            g2, lp, tests = cand[0]
            gq = tests[0].args[0]
            mi = _Mini(prog, g2)
            shape_ok = isinstance(gq.generators[0].iter, ast.Name)
            RL = gq.generators[0].iter.id if shape_ok else None
            K = None
            if isinstance(lp, ast.For):
                keep = {
                    n.func.value.id
                    for n in ast.walk(ast.Module(body=lp.body, type_ignores=[]))
                    if isinstance(n, ast.Call) and isinstance(n.func, ast.Attribute) and n.func.attr in ('append', 'add') and isinstance(n.func.value, ast.Name)
                }
                shape_ok = shape_ok and len(keep) == 1
                K = keep.pop() if len(keep) == 1 else None
                iv = lp.target.id
                body_nodes = lp.body

                def run(i, rl):
                    env = {iv: i, RL: list(rl), K: []}
                    sig = mi.block(lp.body, env)
                    if sig not in (None, 'continue'):
                        raise _NotUnderstood('break/return inside the absorption loop')
                    return env[K]

            else:
                gen = lp.generators[0]
                shape_ok = shape_ok and isinstance(gen.target, ast.Name) and isinstance(lp.elt, ast.Name) and lp.elt.id == gen.target.id
                iv = gen.target.id if isinstance(gen.target, ast.Name) else None
                body_nodes = list(gen.ifs)
                # the kept list is whatever the statement holding the comprehension binds
                for st_ in g2.own_nodes():
                    if isinstance(st_, (ast.Assign, ast.AnnAssign)) and st_.value is not None and any(x is lp for x in ast.walk(st_.value)):
                        tg = st_.targets if isinstance(st_, ast.Assign) else [st_.target]
                        if len(tg) == 1 and isinstance(tg[0], ast.Name):
                            K = tg[0].id
                    if isinstance(st_, ast.Return) and st_.value is not None and any(x is lp for x in ast.walk(st_.value)):
                        K = '<return>'
                shape_ok = shape_ok and K is not None

                def run(i, rl):
                    env = {iv: i, RL: list(rl)}
                    return [i] if all(mi.truth(mi.expr(c_, env)) for c_ in gen.ifs) else []

            if not shape_ok:
                r.fail(key, where(g2, lp), 'absorption test is not any/all over a generator on the range list with one kept-list; not understood')
            else:
                c = _max_literal(body_nodes)
                cases, bad = 0, None
                try:
                    D = 3 * (c + 1)
                    for s_, t_, i in itertools.product(range(D), list(range(D)) + [None], range(-1, D)):
                        cases += 1
                        kept = run(i, [_R(s_, t_)])
                        want = [] if spec_contains(_R(s_, t_), i) else [i]
                        if kept != want:
                            bad = f'run id {i} with range ({s_},{t_}): kept {kept}, expected {want}'
                            break
                    if bad is None:
                        E = list(range(4)) + [None]
                        for a_, b_, c2, d, i in itertools.product(range(4), E, range(4), E, range(4)):
                            cases += 1
                            rl = [_R(a_, b_), _R(c2, d)]
                            kept = run(i, rl)
                            want = [] if any(spec_contains(x, i) for x in rl) else [i]
                            if kept != want:
                                bad = f'run id {i} with ranges {[(x[1], x[2]) for x in rl]}: kept {kept}, expected {want}'
                                break
                        cases += 1
                        if run(2, []) != [2]:
                            bad = 'run id dropped although there is no range'
                except _NotUnderstood as e:
                    bad = f'not understood: {e}'
                r.extra['absorption_cases'] = cases
                r.check(
                    bad is None,
                    key,
                    where(g2, lp),
                    f'{cases} assignments: an individual run id is dropped iff one of the ranges contains it',
                    f'the index-absorption test of _scrub does not coincide with range membership: {bad}',
                )
                if g2 is f:
                    K_out = K
                elif K == '<return>' or all(_flows_into(prog, g2, [K], '<return>').values()):
                    K_out = f'<call:{g2.qname}>'
        # ---- (e) both the merged ranges and the kept indices reach the runids of the returned Params
        r.instance()
        pc = [c_ for c_ in f.calls() if prog.resolve_in(c_.func, f) == PARAMS]
        dst = None
        if len(pc) == 1:
            a0 = arg(pc[0], 0, 'runids')
            if isinstance(a0, ast.Name):
                dst = a0.id
        if dst is None:
            r.fail(f'{f.qname}:output', where(f), '_scrub does not build exactly one Params(<name>, ...); output composition not understood')
        elif M_out is None or K_out is None:
            r.fail(
                f'{f.qname}:output',
                where(f, pc[0]),
                'the merged ranges or the kept run ids could not be located (or are not returned by their helper); output composition not shown',
            )
        else:
            fl_ = _flows_into(prog, f, [M_out, K_out], dst)
            r.check(
                all(fl_.values()),
                f'{f.qname}:output',
                where(f, pc[0]),
                f'merged ranges ({M_out}) and kept run ids ({K_out}) both flow into Params.runids ({dst})',
                f'the runids of the scrubbed Params do not receive {[k for k, v in fl_.items() if not v]}',
            )
        r.note('not claimed: the textual parsing in _divide (split/strip/int) - values are strings there, outside the order abstraction')


# ---------------------------------------------------------------------------
# R-C17-2 / R-C17-4  linear-form normalisation of page bounds, path-sensitive in the None-ness of ``limit``

NONE, UNK, ERR, FULL = ('none',), ('unk',), ('err',), ('full',)


def lin(const=0, **syms):
    return ('lin', tuple(sorted((k, v) for k, v in syms.items() if v)), const)


def lin_add(a, b, sign=1):
    if a[0] != 'lin' or b[0] != 'lin':
        if NONE in (a, b) or ERR in (a, b):
            return ERR  # int + None raises TypeError
        return UNK
    d = dict(a[1])
    for k, v in b[1]:
        d[k] = d.get(k, 0) + sign * v
    return lin(a[2] + sign * b[2], **d)


IDX, LIM, LEN = lin(index=1), lin(limit=1), lin(LEN=1)


def covers_all(v):
    """an upper bound that is certainly >= the number of matches (slices and LIMIT clamp)"""
    if v == NONE:
        return True
    if v[0] != 'lin':
        return False
    d = dict(v[1])
    return d.get('LEN', 0) >= 1 and all(c >= 0 for k, c in d.items() if k != 'limit') and 'limit' not in d and v[2] >= 0


def show(v):
    if v is None:
        return 'None'
    if v[0] == 'lin':
        parts = [(f'{c}*' if c != 1 else '') + ('len(matches)' if k == 'LEN' else k) for k, c in v[1]]
        if v[2] or not parts:
            parts.append(str(v[2]))
        return ' + '.join(parts)
    if v[0] == 'slice':
        return f'matches[{show(v[1])}:{show(v[2])}]'
    return {'none': 'None', 'unk': '<not normalisable>', 'err': '<int + None: TypeError>', 'full': 'matches (unsliced)'}.get(v[0], str(v))


class _Page(Flow):
    """state = (tag, env): tag in none/zero/pos is the caller's ``limit`` (None, 0, >0); env: name -> abstract value.

    Abstract values: linear forms over index, limit, LEN (number of matches); None; the full match list; a slice of
    it with linear bounds; ('tail', v1, ..) the known trailing elements of an argument list; unknown; error.
    """

    def __init__(self, prog, func, is_full_call, count_sql=None):
        super().__init__()
        self.prog, self.f = prog, func
        self.is_full_call = is_full_call
        self.iters = []  # (node, tag, value): iteration sources derived from the match list
        self.results = []  # (call, tag, total value, items expr)
        self.executes = []  # (call, tag, tail of args)
        ps = func.params()
        self.p_index = 'index' if 'index' in ps else None
        self.p_limit = 'limit' if 'limit' in ps else None

    def init_states(self):
        out = set()
        for tag in ('none', 'zero', 'pos'):
            env = {self.p_index: IDX, self.p_limit: NONE if tag == 'none' else LIM}
            out.add((tag, frozenset(env.items())))
        return out

    @staticmethod
    def get(st, name):
        for k, v in st[1]:
            if k == name:
                return v
        return UNK

    @staticmethod
    def put(st, name, val):
        return (st[0], frozenset({(k, v) for k, v in st[1] if k != name} | {(name, val)}))

    def truth(self, v, tag):
        """True / False / None (undecided)"""
        if v == NONE:
            return False
        if v == LIM:
            return tag == 'pos'
        if v[0] == 'lin' and not v[1]:
            return bool(v[2])
        if v[0] == 'tail':
            return True if len(v) > 1 else None
        return None

    def ev(self, e, st):
        tag = st[0]
        if isinstance(e, ast.Constant):
            if e.value is None:
                return NONE
            if type(e.value) is int:
                return lin(e.value)
            return UNK
        if isinstance(e, ast.Name):
            return self.get(st, e.id)
        if isinstance(e, ast.BinOp) and isinstance(e.op, ast.Add):
            # <argument list> + [limit, index]: list concatenation keeps the tail of what is appended
            a_, b_ = self.ev(e.left, st), self.ev(e.right, st)
            if b_ and b_[0] == 'tail':
                base = a_ if a_ and a_[0] == 'tail' else ('tail',)
                return self._tail(base + b_[1:])
        if isinstance(e, ast.BinOp) and isinstance(e.op, (ast.Add, ast.Sub)):
            return lin_add(self.ev(e.left, st), self.ev(e.right, st), 1 if isinstance(e.op, ast.Add) else -1)
        if isinstance(e, ast.IfExp):
            t = self.decide(e.test, st)
            if t is None:
                a, b = self.ev(e.body, st), self.ev(e.orelse, st)
                return a if a == b else UNK
            return self.ev(e.body if t else e.orelse, st)
        if isinstance(e, ast.BoolOp) and isinstance(e.op, ast.Or) and len(e.values) == 2:
            a = self.ev(e.values[0], st)  # ``limit or X``
            t = self.truth(a, tag)
            if t is None:
                return UNK
            return a if t else self.ev(e.values[1], st)
        if isinstance(e, ast.Call):
            n = call_name(e)
            if self.is_full_call(e):
                return FULL
            if isinstance(e.func, ast.Name) and n == 'len' and len(e.args) == 1:
                return LEN if self.ev(e.args[0], st) == FULL else UNK
            if isinstance(e.func, ast.Name) and n == 'min' and len(e.args) == 2:
                a, b = self.ev(e.args[0], st), self.ev(e.args[1], st)
                if a == LEN:  # a bound clamped to the number of matches is the same bound (slices clamp)
                    return b
                if b == LEN:
                    return a
                return UNK
            if isinstance(e.func, ast.Name) and n in ('list', 'tuple') and len(e.args) == 1:
                return self.ev(e.args[0], st)
            return UNK
        if isinstance(e, ast.Subscript):
            base = self.ev(e.value, st)
            if isinstance(e.slice, ast.Slice):
                if base not in (FULL,) and base[0] != 'slice':
                    return UNK
                if e.slice.step is not None:
                    return UNK
                lo = self.ev(e.slice.lower, st) if e.slice.lower is not None else NONE
                hi = self.ev(e.slice.upper, st) if e.slice.upper is not None else NONE
                if ERR in (lo, hi):
                    return ERR
                if UNK in (lo, hi) or lo[0] not in ('lin', 'none') or hi[0] not in ('lin', 'none'):
                    return UNK
                lo = lin(0) if lo == NONE else lo
                if base == FULL:
                    return ('slice', lo, hi)
                # (a, b) then (c, d): lower a + c; upper a + d clamped by b
                a, b = base[1], base[2]
                nlo = lin_add(a, lo)
                if hi == NONE:
                    nhi = b
                else:
                    nhi = lin_add(a, hi)
                    if b != NONE and b != nhi:
                        return UNK
                return ('slice', nlo, nhi)
            # <fetchone()>[0] of the count query: the number of matches
            if (
                isinstance(e.value, ast.Call)
                and call_name(e.value) == 'fetchone'
                and norm(e.slice) == '0'
                and self.count_seen(st)
            ):
                return LEN
            return UNK
        if isinstance(e, (ast.List, ast.Tuple)):
            return ('tail',) + tuple(self.ev(x, st) for x in e.elts)
        return UNK

    @staticmethod
    def _tail(t):
        # only the last few elements matter (trailing SQL arguments); bounded so that loops reach a fix-point
        return t if len(t) <= 5 else UNK

    def count_seen(self, st):
        return self.get(st, '<count-executed>') == lin(1)

    def decide(self, e, st):
        tag = st[0]
        if isinstance(e, ast.UnaryOp) and isinstance(e.op, ast.Not):
            t = self.decide(e.operand, st)
            return None if t is None else not t
        if isinstance(e, ast.Compare) and len(e.ops) == 1:
            l, rr = self.ev(e.left, st), self.ev(e.comparators[0], st)
            op = e.ops[0]
            if isinstance(op, (ast.Is, ast.IsNot)) and NONE in (l, rr):
                other = rr if l == NONE else l
                if other == UNK:
                    return None
                return (other == NONE) == isinstance(op, ast.Is)
            if isinstance(op, (ast.Eq, ast.NotEq, ast.Gt, ast.LtE, ast.Lt, ast.GtE)) and l == LIM and rr == lin(0):
                val = {'zero': 0, 'pos': 1}.get(tag)
                if val is None:
                    return None
                return _Mini.CMP[type(op)](val, 0)
            return None
        if isinstance(e, (ast.Compare, ast.Call, ast.BoolOp)):
            return None
        return self.truth(self.ev(e, st), tag)

    def on_test(self, e, st):
        t = self.decide(e, st)
        if t is True:
            return (st,), ()
        if t is False:
            return (), (st,)
        return (st,), (st,)

    def _note_iter(self, node, it, st):
        v = self.ev(it, st)
        if v == FULL or v[0] == 'slice' or (v in (UNK, ERR) and self._mentions_full(it, st)):
            self.iters.append((node, st[0], v))

    def _mentions_full(self, e, st):
        for n in ast.walk(e):
            if isinstance(n, ast.Name) and self.get(st, n.id) in (FULL,) or isinstance(n, ast.Name) and self.get(st, n.id)[0] == 'slice':
                return True
            if isinstance(n, ast.Call) and self.is_full_call(n):
                return True
        return False

    def on_for(self, node, st):
        self._note_iter(node, node.iter, st)
        for n in names_in(node.target):
            st = self.put(st, n, UNK)
        return (st,)

    def on_stmt(self, s, st):
        for n in ast.walk(s):
            if isinstance(n, (ast.ListComp, ast.GeneratorExp, ast.SetComp)):
                for g in n.generators:
                    self._note_iter(n, g.iter, st)
        if isinstance(s, (ast.Assign, ast.AnnAssign)) and s.value is not None:
            tg = s.targets if isinstance(s, ast.Assign) else [s.target]
            v = self.ev(s.value, st)
            for t in tg:
                if isinstance(t, ast.Name):
                    st = self.put(st, t.id, v)
                elif isinstance(t, ast.Tuple):
                    for n in names_in(t):
                        st = self.put(st, n, UNK)
        elif isinstance(s, ast.AugAssign) and isinstance(s.target, ast.Name):
            if isinstance(s.op, (ast.Add, ast.Sub)):
                v = lin_add(self.get(st, s.target.id), self.ev(s.value, st), 1 if isinstance(s.op, ast.Add) else -1)
            else:
                v = UNK
            st = self.put(st, s.target.id, v)
        return (st,)

    def on_call(self, call, st):
        f = call.func
        if self.prog.resolve_in(f, self.f) == BASIS + '.SearchResults':
            total = arg(call, 1, 'total')
            items = arg(call, 0, 'items')
            self.results.append((call, st[0], self.ev(total, st) if total is not None else UNK, items))
        if isinstance(f, ast.Attribute) and isinstance(f.value, ast.Name):
            tgt = f.value.id
            cur = self.get(st, tgt)
            if f.attr == 'extend' and len(call.args) == 1:
                v = self.ev(call.args[0], st)
                if v[0] == 'tail':
                    base = cur if cur[0] == 'tail' else ('tail',)
                    return (self.put(st, tgt, self._tail(base + v[1:])),)
                return (self.put(st, tgt, UNK),) if cur[0] == 'tail' else (st,)
            if f.attr == 'append' and len(call.args) == 1 and cur[0] == 'tail':
                return (self.put(st, tgt, self._tail(cur + (self.ev(call.args[0], st),))),)
            if f.attr == 'execute' and call.args:
                a = call.args[1] if len(call.args) > 1 else None
                tail = self.ev(a, st) if a is not None else ('tail',)
                self.executes.append((call, st[0], tail))
                if 'count(' in sql_text(call.args[0], self.f).lower():
                    st = self.put(st, '<count-executed>', lin(1))
        return (st,)


_FIELD = re.compile(r'\{\{|\}\}|\{([^{}!:]*)(?:![rsa])?(?::[^{}]*)?\}')


def _fmt_subst(txt, call, sub):
    """text of ``<txt>.format(...)``: a field whose argument is itself constant text is replaced by it, every other
    field stays symbolic as ``{<argument expression>}`` (a field without argument keeps its own name)"""
    kws = {k.arg: k.value for k in call.keywords if k.arg is not None}
    auto = [0]

    def one(m):
        if m.group(0) == '{{':
            return '{'
        if m.group(0) == '}}':
            return '}'
        name = m.group(1).strip()
        head = re.split(r'[.\[]', name, maxsplit=1)[0]
        rest = name[len(head):]
        a = None
        if head == '':
            if auto[0] < len(call.args):
                a = call.args[auto[0]]
            auto[0] += 1
        elif head.isdigit():
            a = call.args[int(head)] if int(head) < len(call.args) else None
        else:
            a = kws.get(head)
        if a is None or isinstance(a, ast.Starred):
            return '{' + name + '}'
        if not rest:
            t = sub(a)
            if '{?}' not in t:
                return t
        return '{' + norm(a) + rest + '}'

    return _FIELD.sub(one, txt)


def _text_binding(e, func, module):
    """(value node, key, func', module') of the one definition a name / dotted name denotes, else None.

    A name bound in ``func`` counts when it is stored exactly once by a plain assignment; any other name is a module
    level constant of ``module`` with exactly one assignment, or (through the import table) of another analysed module.
    """
    if isinstance(e, ast.Name):
        if func is not None:
            if e.id in func.params():
                return None
            stores = [n for n in func.own_nodes() if isinstance(n, ast.Name) and n.id == e.id and isinstance(n.ctx, (ast.Store, ast.Del))]
            if stores:
                loc = assigned_value(func, e.id)
                if len(loc) == 1 and len(stores) == 1:
                    return loc[0], (func.qname, e.id), func, module
                return None
        vals = module.globals.get(e.id)
        if vals is not None:
            return (vals[0], (module.name, e.id), None, module) if len(vals) == 1 else None
    prog = _PROG[0]
    if prog is not None and func is not None:
        q = prog.resolve_in(e, func)
        if q and '.' in q:
            mod, _, last = q.rpartition('.')
            m = prog.modules.get(mod)
            if m is not None and len(m.globals.get(last, ())) == 1:
                return m.globals[last][0], (mod, last), None, m
    return None


def sql_text(e, func=None, _seen=(), _module=None):
    """constant text of an SQL expression; formatted values become {name}, anything else {?}.

    Followed (each is text known without running anything): string literals, implicit/explicit concatenation,
    f-strings, ``<text>.format(...)`` and ``<text> % args`` (the %s placeholders stay as they are),
    ``<text>.join([<text>, ..])``, names bound exactly once in ``func`` and module-level string constants.
    """
    module = _module if _module is not None else (func.module if func is not None else None)

    def sub(x):
        return sql_text(x, func, _seen, module)

    if isinstance(e, ast.Constant) and isinstance(e.value, str):
        return e.value
    if isinstance(e, ast.JoinedStr):
        return ''.join(sub(v) for v in e.values)
    if isinstance(e, ast.FormattedValue):
        t = sub(e.value)
        if e.format_spec is None and e.conversion in (-1, 115) and '{?}' not in t:
            return t
        return '{' + norm(e.value) + '}'
    if isinstance(e, ast.BinOp) and isinstance(e.op, ast.Add):
        return sub(e.left) + sub(e.right)
    if isinstance(e, ast.BinOp) and isinstance(e.op, ast.Mod):
        t = sub(e.left)
        return t if '{?}' not in t else '{?}'
    if isinstance(e, ast.Call) and isinstance(e.func, ast.Attribute) and e.func.attr == 'format':
        t = sub(e.func.value)
        return _fmt_subst(t, e, sub) if '{?}' not in t else '{?}'
    if (
        isinstance(e, ast.Call)
        and isinstance(e.func, ast.Attribute)
        and e.func.attr == 'join'
        and len(e.args) == 1
        and not e.keywords
        and isinstance(e.args[0], (ast.List, ast.Tuple))
        and not any(isinstance(x, ast.Starred) for x in e.args[0].elts)
    ):
        sep = sub(e.func.value)
        if '{?}' not in sep:
            return sep.join(sub(x) for x in e.args[0].elts)
    if module is not None and isinstance(e, (ast.Name, ast.Attribute)):
        b = _text_binding(e, func, module)
        if b is not None and b[1] not in _seen:
            t = sql_text(b[0], b[2], _seen + (b[1],), b[3])
            if '{?}' not in t:
                return t
    return '{?}'


_PROG = [None]  # the Program under analysis (set by check()): used to follow string constants imported from elsewhere


def _cols(txt):
    return [c.strip() for c in txt.split(',') if c.strip()]


def _shelve_page(prog, rep):
    f = prog.func(S_IMPL + '._find')
    pk = prog.func(S_IMPL + '._prime_keys')
    rep.analysed(f, pk)

    def is_full(call):
        return prog.func_of(prog.resolve_in(call.func, f)) is pk

    fl = _Page(prog, f, is_full)
    if not (fl.p_index and fl.p_limit):
        raise AnalysisError('shelve _find no longer has the parameters index and limit')
    fl.run(f.node, fl.init_states())
    return f, pk, fl


def _rule2(ctx, rep):
    prog = ctx.prog
    with rep.rule(
        'R-C17-2',
        'a page is matches[index : index + limit] (to the end when limit is None): slice bounds / LIMIT-OFFSET arguments '
        'are normalised to linear forms over index, limit and the match count for limit None, 0 and > 0',
        floor=2,
        breaks='pages other than the first are empty or overlap, so concatenated pages differ from the full list',
    ) as r:
        # ---- shelve: slices of the match list
        f, _pk, fl = _shelve_page(prog, rep)
        r.extra['shelve_states_visited'] = fl.visited
        item_names = {it.id for _c, _t, _tot, it in fl.results if isinstance(it, ast.Name)}
        item_exprs = [it for _c, _t, _tot, it in fl.results if it is not None and not isinstance(it, ast.Name)]
        if not fl.results:
            raise AnalysisError('shelve _find: no SearchResults(...) construction found')

        def feeds_items(node):
            """the loop appends to / the comprehension is the value of the items handed to SearchResults"""
            if isinstance(node, ast.For):
                return any(
                    isinstance(c, ast.Call)
                    and isinstance(c.func, ast.Attribute)
                    and c.func.attr in _GROW_ONE + _GROW_MANY
                    and isinstance(c.func.value, ast.Name)
                    and c.func.value.id in item_names
                    for c in ast.walk(node)
                )
            for a in f.own_nodes():
                if isinstance(a, (ast.Assign, ast.AnnAssign)) and a.value is not None:
                    tg = a.targets if isinstance(a, ast.Assign) else [a.target]
                    if any(isinstance(t, ast.Name) and t.id in item_names for t in tg) and any(x is node for x in ast.walk(a.value)):
                        return True
                if isinstance(a, ast.Call) and isinstance(a.func, ast.Attribute) and a.func.attr in _GROW_MANY and isinstance(a.func.value, ast.Name) and a.func.value.id in item_names:
                    if any(x is node for x in ast.walk(a)):
                        return True
            return any(x is node for e in item_exprs for x in ast.walk(e))

        by_node = {}
        for node, tag, v in fl.iters:
            if feeds_items(node):
                by_node.setdefault(id(node), [node, {}])[1].setdefault(tag, set()).add(v)
        if not by_node:
            r.instance()
            r.fail(f'{f.qname}:page', where(f), 'no loop or comprehension over the match list feeds the items of SearchResults; pagination not shown')
        for node, tags in by_node.values():
            r.instance()
            it = node.iter if isinstance(node, ast.For) else node.generators[0].iter
            key = f'{f.qname}:page:{norm(it)}'
            bad = []
            for tag in ('none', 'zero', 'pos'):
                vs = tags.get(tag, set())
                if not vs and tag != 'zero':
                    bad.append(f'limit {tag}: no page is produced')
                for v in vs:
                    if v[0] != 'slice':
                        bad.append(f'limit {tag}: iterates {show(v)}')
                        continue
                    lo, hi = v[1], v[2]
                    if lo != IDX:
                        bad.append(f'limit {tag}: page starts at {show(lo)} instead of index')
                    if tag == 'none':
                        if not covers_all(hi):
                            bad.append(f'limit None: page ends at {show(hi)} instead of the end of the matches')
                    elif hi != lin_add(IDX, LIM):
                        bad.append(f'limit {"0" if tag == "zero" else "> 0"}: page ends at {show(hi)} instead of index + limit')
            r.check(
                not bad,
                key,
                where(f, node),
                'for limit None / 0 / > 0 the iterated page normalises to matches[index : index + limit | end]',
                f'page {norm(it)} is not matches[index : index + limit]: ' + '; '.join(sorted(set(bad))),
            )
        # ---- post: LIMIT %s OFFSET %s with arguments (limit, index)
        g = prog.func(P_IMPL + '._find')
        rep.analysed(g)
        pf = _Page(prog, g, lambda c: False)
        if not (pf.p_index and pf.p_limit):
            raise AnalysisError('post _find no longer has the parameters index and limit')
        pf.run(g.node, pf.init_states())
        paged = {}
        for call, tag, tail in pf.executes:
            txt = ' '.join(sql_text(call.args[0], g).split())
            if re.search(r'\bLIMIT\b|\bOFFSET\b', txt, re.I):
                paged.setdefault(id(call), [call, txt, {}])[2].setdefault(tag, set()).add(tail)
        if not paged:
            raise AnalysisError('post _find: no SQL statement with LIMIT/OFFSET found')
        for call, txt, tags in paged.values():
            r.instance()
            key = f'{g.qname}:limit-offset'
            bad = []
            if not re.search(r'LIMIT %s OFFSET %s\s*;?\s*$', txt, re.I):
                bad.append('the statement does not end with "LIMIT %s OFFSET %s"')
            for tag in ('none', 'zero', 'pos'):
                vs = tags.get(tag, set())
                if not vs and tag != 'zero':
                    bad.append(f'limit {tag}: the paged query is not executed')
                for v in vs:
                    if v[0] != 'tail' or len(v) != 3:
                        bad.append(f'limit {tag}: trailing arguments of the paged query are not exactly (limit, index)')
                        continue
                    li, of = v[1], v[2]
                    if of != IDX:
                        bad.append(f'limit {tag}: OFFSET receives {show(of)} instead of index')
                    if tag == 'none':
                        if not covers_all(li):
                            bad.append(f'limit None: LIMIT receives {show(li)} which may be below the match count')
                    elif li != LIM:
                        bad.append(f'limit {tag}: LIMIT receives {show(li)} instead of limit')
            r.check(
                not bad,
                key,
                where(g, call),
                'paged query ends with LIMIT %s OFFSET %s and its last two arguments normalise to (limit | count, index)',
                'post _find pagination: ' + '; '.join(sorted(set(bad))),
            )


def _rule4(ctx, rep):
    prog = ctx.prog
    with rep.rule(
        'R-C17-4',
        'matches are a set of 5-component keys (state-vector granularity) sorted ascending with the run id first; the '
        'page keeps that order; total is the size of the unsliced match list; key components are decoded with their own table',
        floor=8,
        breaks='duplicates per value, wrong order across pages, or a total that shrinks with the page',
    ) as r:
        f, pk, fl = _shelve_page(prog, rep)
        fields = params_fields(prog)
        # ---- (a) granularity: results is a set fed only by add(<key>[:keylen]) with keylen == 5
        r.instance()
        rets = [n for n in pk.own_nodes() if isinstance(n, ast.Return)]
        bad = []
        res_names = set()
        for rt in rets:
            v = rt.value
            if not (
                isinstance(v, ast.Call)
                and isinstance(v.func, ast.Name)
                and v.func.id == 'sorted'
                and len(v.args) == 1
                and isinstance(v.args[0], ast.Name)
            ):
                bad.append(f'{norm(rt)} is not sorted(<result set>)')
                continue
            for k in v.keywords:
                if k.arg == 'reverse' and isinstance(k.value, ast.Constant) and not k.value.value:
                    continue
                bad.append(f'sorted(..., {k.arg}=...) changes the natural (run id first) order')
            res_names.add(v.args[0].id)
        if not rets:
            bad.append('no return')
        r.check(
            not bad,
            f'{pk.qname}:sorted',
            where(pk),
            'every return is sorted(<set>) in natural tuple order',
            '_prime_keys does not return the matches in ascending key order: ' + '; '.join(bad),
        )
        r.instance()
        bad = []
        default = None
        a = pk.node.args
        names = [x.arg for x in a.args]
        if 'keylen' in names:
            i = names.index('keylen') - (len(names) - len(a.defaults))
            if 0 <= i < len(a.defaults) and isinstance(a.defaults[i], ast.Constant):
                default = a.defaults[i].value
        want_len = len(fields) - 1  # everything but the value component
        for rn in sorted(res_names):
            inits = [
                n.value
                for n in pk.own_nodes()
                if isinstance(n, (ast.Assign, ast.AnnAssign))
                and n.value is not None
                and any(isinstance(t, ast.Name) and t.id == rn for t in (n.targets if isinstance(n, ast.Assign) else [n.target]))
            ]

            def cut_ok(e):
                if isinstance(e, ast.Call) and call_name(e) == 'tuple' and len(e.args) == 1:
                    e = e.args[0]
                if isinstance(e, ast.Subscript) and isinstance(e.slice, ast.Slice) and e.slice.lower is None and e.slice.step is None:
                    u = e.slice.upper
                    if isinstance(u, ast.Constant):
                        return u.value == want_len
                    if isinstance(u, ast.Name) and u.id == 'keylen':
                        return default == want_len
                return False

            # accepted: the empty set (filled by add) or a set comprehension / set(generator) of cut keys
            for v in inits:
                if isinstance(v, ast.Call) and call_name(v) == 'set' and len(v.args) == 1 and isinstance(v.args[0], (ast.GeneratorExp, ast.ListComp)):
                    v = v.args[0]
                if norm(v) == 'set()':
                    continue
                if isinstance(v, (ast.SetComp, ast.GeneratorExp, ast.ListComp)) and (isinstance(v, ast.SetComp) or True):
                    if not cut_ok(v.elt):
                        bad.append(f'{norm(v.elt)} does not cut the key to its first {want_len} components (runid..state vector)')
                    if isinstance(v, ast.ListComp) and v is not None and not any(
                        isinstance(c, ast.Call) and call_name(c) == 'set' and v in c.args for c in pk.own_nodes()
                    ):
                        bad.append(f'{rn} is a list: duplicates per value would survive')
                    continue
                bad.append(f'{rn} is not initialised as an empty set or a set of cut keys (duplicates per value would survive)')
            if not inits:
                bad.append(f'{rn} is never initialised')
            for n in pk.own_nodes():
                if isinstance(n, ast.Call) and isinstance(n.func, ast.Attribute) and isinstance(n.func.value, ast.Name) and n.func.value.id == rn:
                    if n.func.attr != 'add' or len(n.args) != 1:
                        bad.append(f'{norm(n)}: only {rn}.add(<key>[:n]) is understood')
                        continue
                    if not cut_ok(n.args[0]):
                        bad.append(f'{norm(n)} does not cut the key to its first {want_len} components (runid..state vector)')
        for c in f.calls():
            if prog.func_of(prog.resolve_in(c.func, f)) is pk:
                kl = arg(c, 1, 'keylen')
                if kl is not None and not (isinstance(kl, ast.Constant) and kl.value == want_len):
                    bad.append(f'_find asks for key length {norm(kl)}')
        r.check(
            not bad,
            f'{pk.qname}:granularity',
            where(pk),
            f'matches are collected in a set of key[:{want_len}]',
            '_prime_keys does not collapse matches to state-vector granularity: ' + '; '.join(bad),
        )
        # ---- (b) run id is component 0 of the key (so that natural order is run-id order)
        r.instance()
        pos = name_to_position(prog, prog.func(SHELVE + '._align'))
        fk = [fn for q, fn in prog.funcs.items() if q.startswith('dawgie.db.shelve.model.') and q.endswith('__to_key')]
        kt = key_tuple_tables(prog, fk[0]) if fk else None
        r.check(
            bool(pos) and pos.get(fields[0]) == 0 and bool(kt) and kt[0].startswith('<'),
            f'{SHELVE}:runid-first',
            where(pk),
            'the run id is component 0 of the primary key tuple and of _align',
            'the run id is not the first key component: sorted() no longer yields ascending run-id order',
        )
        # ---- (c) total = len(unsliced matches)
        if not fl.results:
            raise AnalysisError('shelve _find: no SearchResults(...) construction found')
        seen = {}
        for call, tag, tot, items in fl.results:
            seen.setdefault(id(call), [call, set(), items])[1].add(tot)
        for call, tots, items in seen.values():
            r.instance()
            r.check(
                tots == {LEN},
                f'{f.qname}:total',
                where(f, call),
                'total normalises to len(matches) for limit None / 0 / > 0',
                f'total of {norm(call)} is {sorted(show(t) for t in tots)} instead of the number of matches (len of the unsliced list)',
            )
            # ---- (d) items keep page order
            r.instance()
            bad = []
            if not isinstance(items, ast.Name):
                if not (isinstance(items, ast.ListComp)):
                    bad.append(f'items={norm(items) if items is not None else None} is not a list built from the page')
            else:
                page_nodes = {id(n) for n, _t, _v in fl.iters}
                for n in f.own_nodes():
                    if isinstance(n, (ast.Assign, ast.AnnAssign)) and n.value is not None:
                        tg = n.targets if isinstance(n, ast.Assign) else [n.target]
                        if any(isinstance(t, ast.Name) and t.id == items.id for t in tg):
                            v = n.value
                            if isinstance(v, ast.Call) and call_name(v) == 'list' and len(v.args) == 1:
                                v = v.args[0]
                            empty = isinstance(v, ast.List) and not v.elts or norm(v) == 'list()'
                            paged = isinstance(v, (ast.ListComp, ast.GeneratorExp)) and id(v) in page_nodes
                            if not (empty or paged):
                                bad.append(f'{norm(n)[:60]}: items is neither an empty list nor a comprehension over the page')
                    if isinstance(n, ast.Call) and isinstance(n.func, ast.Attribute) and isinstance(n.func.value, ast.Name) and n.func.value.id == items.id:
                        if n.func.attr == 'append':
                            inside = any(
                                isinstance(lp, ast.For) and id(lp) in page_nodes and any(x is n for x in ast.walk(lp))
                                for lp in f.own_nodes()
                            )
                            if not inside:
                                bad.append(f'{norm(n)[:60]} happens outside the loop over the page')
                        else:
                            bad.append(f'{items.id}.{n.func.attr}(...) may reorder or change the page')
                    if isinstance(n, ast.Call) and isinstance(n.func, ast.Name) and n.func.id in ('sorted', 'reversed', 'set') and any(
                        isinstance(x, ast.Name) and x.id == items.id for a_ in n.args for x in ast.walk(a_)
                    ):
                        bad.append(f'{norm(n)[:60]} reorders the page')
            r.check(not bad, f'{f.qname}:items-order', where(f, call), 'items are appended in page order and never reordered', '; '.join(bad))
        # ---- (e) every key component is decoded with the index of its own table (in _find or a helper it calls)
        dec = []
        for g, _c, _p in _reach(prog, f):
            if g.module is not f.module:
                continue
            single = {}
            unpack = {}
            for n in g.own_nodes():
                if isinstance(n, ast.Assign) and len(n.targets) == 1:
                    t = n.targets[0]
                    if isinstance(t, ast.Name):
                        single.setdefault(t.id, []).append(n.value)
                    elif isinstance(t, ast.Tuple) and all(isinstance(e, ast.Name) for e in t.elts):
                        v = n.value
                        if isinstance(v, ast.Subscript) and isinstance(v.slice, ast.Slice) and v.slice.lower is None:
                            v = v.value  # a, b, c, d, e = key[:5]
                        if isinstance(v, ast.Name):
                            for j, e in enumerate(t.elts):
                                unpack.setdefault(e.id, []).append(j)

            def deref(e):
                if isinstance(e, ast.Name) and len(single.get(e.id, ())) == 1:
                    return single[e.id][0]
                return e

            def position(e):
                if isinstance(e, ast.Name) and len(unpack.get(e.id, ())) == 1 and e.id not in single:
                    return unpack[e.id][0]
                e = deref(e)
                if isinstance(e, ast.Subscript) and isinstance(e.slice, ast.Constant) and type(e.slice.value) is int and isinstance(e.value, ast.Name):
                    return e.slice.value
                return None

            for n in g.own_nodes():
                if isinstance(n, ast.Subscript) and isinstance(n.value, ast.Attribute) and not isinstance(n.slice, ast.Slice):
                    base = deref(n.value.value)
                    if isinstance(base, ast.Attribute) and base.attr == 'indices':
                        i = position(n.slice)
                        dec.append((g, n, n.value.attr, i))
        seen_tabs = set()
        for g, n, tabname, i in sorted(dec, key=lambda t: (t[2], t[1].lineno)):
            if tabname not in seen_tabs:
                r.instance()
                seen_tabs.add(tabname)
            if i is None:
                r.fail(f'{f.qname}:decode:{tabname}', where(g, n), f'{norm(n)}: the key component used as index could not be determined; not understood')
                continue
            r.check(
                bool(kt) and 0 <= i < len(kt) and kt[i] == tabname,
                f'{f.qname}:decode:{tabname}',
                where(g, n),
                f'key component {i} is an id of table {tabname} and is decoded with indices.{tabname}',
                f'{norm(n)} decodes key component {i} (an id of table {kt[i] if kt and 0 <= i < len(kt) else "?"}) with the index of table {tabname}',
            )
        # ---- (f) post: DISTINCT ON = ORDER BY = count(DISTINCT) columns, run id first, total from the count
        g = prog.func(P_IMPL + '._find')
        rep.analysed(g)
        pf = _Page(prog, g, lambda c: False)
        pf.run(g.node, pf.init_states())
        texts = {}
        for call, _tag, _tail in pf.executes:
            texts[id(call)] = (call, ' '.join(sql_text(call.args[0], g).split()))
        cnt = [(c, t) for c, t in texts.values() if re.search(r'count\s*\(', t, re.I)]
        pgd = [(c, t) for c, t in texts.values() if re.search(r'\bLIMIT\b', t, re.I)]
        r.instance()
        bad = []
        if len(cnt) != 1 or len(pgd) != 1:
            bad.append(f'expected one count and one paged statement, found {len(cnt)} / {len(pgd)}')
        else:
            ct, pt = cnt[0][1], pgd[0][1]
            m1 = re.search(r'count\s*\(\s*DISTINCT\s*\(([^)]*)\)\s*\)', ct, re.I)
            m2 = re.search(r'SELECT\s+DISTINCT\s+ON\s*\(([^)]*)\)', pt, re.I)
            m3 = re.search(r'ORDER\s+BY\s+(.*?)\s+LIMIT\b', pt, re.I)
            w1 = re.search(r'WHERE\s+(\{[^}]*\})', ct, re.I)
            w2 = re.search(r'WHERE\s+(\{[^}]*\})', pt, re.I)
            if not (m1 and m2 and m3):
                bad.append('count(DISTINCT (..)) / DISTINCT ON (..) / ORDER BY .. LIMIT not found')
            else:
                c1, c2, c3 = _cols(m1.group(1)), _cols(m2.group(1)), _cols(m3.group(1))
                if not (c1 == c2 == c3):
                    bad.append(f'column lists differ: count {c1}, distinct {c2}, order {c3}')
                if len(c2) != len(fields) - 1:
                    bad.append(f'{len(c2)} key columns instead of {len(fields) - 1} (state-vector granularity)')
                if not c3 or not re.fullmatch(r'(\w+\.)?run_ID', c3[0], re.I):
                    bad.append(f'first ORDER BY column is {c3[:1]} instead of the run id')
                if re.search(r'\bDESC\b', m3.group(1), re.I):
                    bad.append('descending order')
            if not (w1 and w2 and w1.group(1) == w2.group(1)):
                bad.append('count and paged statements are not filtered by the same WHERE {constraints}')
        r.check(
            not bad,
            f'{g.qname}:sql-shape',
            where(g),
            'count(DISTINCT cols), DISTINCT ON (cols) and ORDER BY cols agree, run id first, same WHERE',
            'post _find: ' + '; '.join(bad),
        )
        seen = {}
        for call, tag, tot, items in pf.results:
            seen.setdefault(id(call), [call, set()])[1].add(tot)
        if not seen:
            raise AnalysisError('post _find: no SearchResults(...) construction found')
        for call, tots in seen.values():
            r.instance()
            r.check(
                tots == {LEN},
                f'{g.qname}:total',
                where(g, call),
                'total is the result of the count statement on every path',
                f'total of {norm(call)} is {sorted(show(t) for t in tots)} instead of the count of distinct matches',
            )


# ---------------------------------------------------------------------------
# R-C17-1  union exhaustiveness: Params.runids is list[int | Range] after _scrub.  A small type-flow over the two
# alternatives: collections/elements carry the set of alternatives they may hold; isinstance tests refine it.

I_, R_ = 'int', 'Range'
BOTH = frozenset({I_, R_})
KEY, PV = ('key',), ('pv',)


def COL(alts, depth=1, src=None):
    return ('col', frozenset(alts), depth, src)


def EL(alts):
    return ('el', frozenset(alts))


_PASS_THROUGH = ('list', 'set', 'tuple', 'frozenset', 'sorted', 'iter', 'reversed')  # same elements, same alternatives
_GROW_ONE = ('append', 'add', 'insert')  # receiver gets one element
_GROW_MANY = ('extend', 'update')  # receiver gets the elements of a collection
_REFLECT = {ast.Lt: '__gt__', ast.LtE: '__ge__', ast.Gt: '__lt__', ast.GtE: '__le__'}
_DIRECT = {ast.Lt: '__lt__', ast.LtE: '__le__', ast.Gt: '__gt__', ast.GtE: '__ge__'}


class _UCtx:
    """results shared by the flows of one backend"""

    def __init__(self, prog):
        self.prog = prog
        self.range_methods = set(prog.cls(RANGE).methods)
        self.cov = {}  # src -> alt -> [(full?, description)]
        self.sinks = {}  # key -> (where, msg | None)   None = evaluated and fine
        self.memo = {}
        self.depth = 0
        self.collected = {}  # (func qname, name) -> node where run-id elements were put into a local collection
        self.done = set()  # (callee, argument types) already analysed
        self.site_states = {}  # id(for / comprehension node) -> type environments on entry
        self.inlined = set()


def _is_sentinel_test(e, x):
    """x >= 0 / x > -1 / x != -1 / 0 <= x : drops the documented 'latest' sentinel -1 (no real run id is negative)"""
    if isinstance(e, ast.Compare) and len(e.ops) == 1:
        l, op, r_ = e.left, e.ops[0], e.comparators[0]
        txt = (norm(l), type(op).__name__, norm(r_))
        return txt in ((x, 'GtE', '0'), (x, 'Gt', '-1'), (x, 'NotEq', '-1'), ('0', 'LtE', x), ('-1', 'Lt', x), ('-1', 'NotEq', x))
    return False


def _is_logging(prog, func, call):
    """accepted idiom: print(...) / logging.x(...) / <module logger>.x(...) only reports, it neither uses nor drops a constraint"""
    f = call.func
    if isinstance(f, ast.Name):
        return f.id == 'print'
    parts = prog.dotted(f)
    if not parts:
        return False
    sym = prog.resolve_in(f, func) or ''
    if sym.startswith('external:logging.'):
        return True
    for v in func.module.globals.get(parts[0], []):
        if isinstance(v, ast.Call) and (prog.resolve_expr(v.func, func.module) or '').startswith('external:logging.getLogger'):
            return True
    return False


class _Contrib(Flow):
    """per alternative: does every path through one iteration of a consumer loop use the element?

    state = (contributed, trail of undecided tests on the element)
    """

    def __init__(self, uflow, var, alt):
        super().__init__()
        self.u, self.var, self.alt = uflow, var, alt
        self.derived = {var}

    def _mentions(self, e):
        return bool(names_in(e) & self.derived)

    def on_test(self, e, st):
        c, trail = st
        if isinstance(e, ast.Call) and call_name(e) == 'isinstance' and len(e.args) == 2 and isinstance(e.args[0], ast.Name) and e.args[0].id == self.var:
            k = self.u.class_kind(e.args[1])
            if k is not None:
                return ((st,), ()) if k == self.alt else ((), (st,))
        if isinstance(e, ast.Compare) and any(isinstance(o, (ast.In, ast.NotIn)) for o in e.ops) and any(
            self._mentions(cmp) for cmp in e.comparators
        ):
            st = (True, trail)  # the range is evaluated as a constraint (member in range)
            return (st,), (st,)
        if _is_sentinel_test(e, self.var):
            # the documented "latest" sentinel (-1) is not a run id: an element that fails the test is dropped by design
            return (st,), ((True, trail),)
        if isinstance(e, ast.Compare) and len(e.ops) == 1 and _is_sentinel_test(ast.Compare(left=e.left, ops=[{ast.Lt: ast.GtE, ast.LtE: ast.Gt, ast.Eq: ast.NotEq, ast.Gt: ast.LtE, ast.GtE: ast.Lt}.get(type(e.ops[0]), ast.Is)()], comparators=e.comparators), self.var):
            return ((True, trail),), (st,)  # the complement: x < 0 / x == -1
        if self._mentions(e) and len(trail) < 4:
            txt = norm(e)
            return ((c, trail + ((txt, True),)),), ((c, trail + ((txt, False),)),)
        return (st,), (st,)

    def on_call(self, call, st):
        if call_name(call) == 'isinstance' or _is_logging(self.u.prog, self.u.f, call):
            return (st,)
        if any(self._mentions(a) for a in call.args) or any(self._mentions(k.value) for k in call.keywords):
            return ((True, st[1]),)
        return (st,)

    def on_stmt(self, s, st):
        if isinstance(s, (ast.Assign, ast.AugAssign, ast.AnnAssign)) and s.value is not None and self._mentions(s.value):
            tg = s.targets if isinstance(s, ast.Assign) else [s.target]
            for t in tg:
                self.derived |= names_in(t)
            return ((True, st[1]),)
        return (st,)

    def on_return(self, node, st):
        if node.value is not None and self._mentions(node.value):
            return ((True, st[1]),)
        return (st,)


class _Union(Flow):
    def __init__(self, uc, func):
        super().__init__()
        self.uc, self.prog, self.f = uc, uc.prog, func
        self.returns = set()
        self.contrib_done = set()

    # ------------------------------------------------------------ environment
    @staticmethod
    def get(st, name):
        for k, v in st:
            if k == name:
                return v
        return None

    @staticmethod
    def put(st, name, val):
        s = {(k, v) for k, v in st if k != name}
        if val is not None:
            s.add((name, val))
        return frozenset(s)

    def class_kind(self, e):
        if isinstance(e, ast.Name) and e.id == 'int':
            return I_
        if self.prog.resolve_in(e, self.f) == RANGE:
            return R_
        return None

    def key(self, node):
        return f'{self.f.qname}:{norm(node)}'

    def fail(self, node, msg, key=None):
        self.uc.sinks[key or self.key(node)] = (where(self.f, node), msg)

    def fine(self, node):
        self.uc.sinks.setdefault(self.key(node), (where(self.f, node), None))

    # ------------------------------------------------------------------ types
    def ty(self, e, st):
        if e is None:
            return None
        if isinstance(e, ast.Name):
            return self.get(st, e.id)
        if isinstance(e, ast.Attribute):
            if e.attr == 'runids' and isinstance(e.value, ast.Name) and e.value.id in self.f.params():
                self.uc.cov.setdefault(self.f.qname, {})
                return COL(BOTH, 1, self.f.qname)
            return None
        if isinstance(e, ast.Subscript):
            t = self.ty(e.value, st)
            if t and t[0] == 'col':
                if isinstance(e.slice, ast.Slice):
                    return COL(t[1], t[2], None)
                return COL(t[1], t[2] - 1, None) if t[2] > 1 else EL(t[1])
            return None
        if isinstance(e, ast.IfExp):
            a, b = self.ty(e.body, st), self.ty(e.orelse, st)
            return self.join(a, b)
        if isinstance(e, ast.BoolOp):
            out = None
            for v in e.values:
                out = self.join(out, self.ty(v, st))
            return out
        if isinstance(e, (ast.ListComp, ast.SetComp, ast.GeneratorExp)):
            return self.comp(e, st, record=False)
        if isinstance(e, ast.Call):
            n = call_name(e)
            if isinstance(e.func, ast.Name) and n in _PASS_THROUGH and len(e.args) >= 1:
                return self.ty(e.args[0], st)
            if isinstance(e.func, ast.Name) and n == 'filter' and len(e.args) == 2:
                t = self.ty(e.args[1], st)
                if not (t and t[0] == 'col' and t[2] == 1):
                    return t
                lam = e.args[0]
                if isinstance(lam, ast.Lambda) and len(lam.args.args) == 1:
                    x = lam.args.args[0].arg
                    b = lam.body
                    neg = False
                    if isinstance(b, ast.UnaryOp) and isinstance(b.op, ast.Not):
                        neg, b = True, b.operand
                    if isinstance(b, ast.Call) and call_name(b) == 'isinstance' and len(b.args) == 2 and norm(b.args[0]) == x:
                        k = self.class_kind(b.args[1])
                        if k is not None:
                            keep = t[1] & {k} if not neg else t[1] - {k}
                            return COL(keep, 1, t[3])  # the consumer of the filtered stream covers only these alternatives
                    if not neg and _is_sentinel_test(b, x):
                        self.cmp_ok(b, EL(t[1]), left=norm(b.left) == x, node=b)
                        return t  # accepted idiom: sentinel filter keeps every real run id / range
                if R_ in t[1]:
                    msg = f'{norm(e)[:70]}: filter over run ids that may be ranges is neither an isinstance nor a sentinel (>= 0) test'
                    self.fail(e, msg + '; entries may be dropped silently (not understood)')
                    if t[3]:
                        for alt in sorted(t[1]):
                            self.cover(t[3], alt, False, msg)
                return COL(t[1], 1, None)
            fn = self.prog.func_of(self.prog.resolve_in(e.func, self.f)) if not isinstance(e.func, ast.Call) else None
            if fn is not None and fn.qname in self.uc.memo and self.uc.memo[fn.qname] is not None:
                return self.uc.memo[fn.qname]
            return None
        return None

    @staticmethod
    def join(a, b):
        if a is None:
            return b
        if b is None:
            return a
        if a[0] == b[0] == 'col':
            return COL(a[1] | b[1], max(a[2], b[2]), a[3] if a[3] == b[3] else None)
        if a[0] == b[0] == 'el':
            return EL(a[1] | b[1])
        return a

    # ------------------------------------------------------------- coverage
    def cover(self, src, alt, full, desc):
        lst = self.uc.cov.setdefault(src, {}).setdefault(alt, [])
        if (full, desc) not in lst:
            lst.append((full, desc))

    def consume_loop(self, node, var, t):
        """a for loop over a typed collection: per alternative, every path of the body must use the element"""
        if id(node) in self.contrib_done:
            return
        self.contrib_done.add(id(node))
        for alt in sorted(t[1]):
            fl = _Contrib(self, var, alt)
            o = fl.run(ast.Module(body=node.body, type_ignores=[]), (False, ()))
            ends = o.normal | o.cont
            early = o.brk | o.ret
            dropped = sorted({tr for c, tr in ends if not c})
            full = not dropped and not early
            if early:
                desc = f'loop {norm(node.target)} in {self.f.name} is left early (break/return): later run ids are not looked at'
            elif dropped:
                conds = ' / '.join(' and '.join(('' if v else 'not ') + f'({c})' for c, v in tr) or 'unconditionally' for tr in dropped[:3])
                desc = f'in {self.f.name} the {alt} alternative of "{norm(node.target)}" contributes nothing when {conds}'
            else:
                desc = f'loop over {norm(node.iter)[:40]} in {self.f.name}'
            if t[3]:
                self.cover(t[3], alt, full, desc)
            elif not full and alt == R_:
                self.fail(node, desc, key=f'{self.f.qname}:loop:{norm(node.target)}:{alt}')

    def comp(self, e, st, record=True):
        """type of a comprehension; with record=True also registers it as a consumer"""
        if len(e.generators) != 1:
            return None
        g = e.generators[0]
        t = self.ty(g.iter, st)
        if not (t and t[0] == 'col' and t[2] == 1 and isinstance(g.target, ast.Name)):
            return None
        x = g.target.id
        alts = set(t[1])
        partial = []
        for c in g.ifs:
            for a in (c.values if isinstance(c, ast.BoolOp) and isinstance(c.op, ast.And) else [c]):
                neg, b = False, a
                if isinstance(b, ast.UnaryOp) and isinstance(b.op, ast.Not):
                    neg, b = True, b.operand
                if isinstance(b, ast.Call) and call_name(b) == 'isinstance' and len(b.args) == 2 and norm(b.args[0]) == x:
                    k = self.class_kind(b.args[1])
                    if k is not None:
                        alts = alts & {k} if not neg else alts - {k}
                        continue
                if not neg and _is_sentinel_test(b, x):
                    continue
                if x in names_in(a):
                    partial.append(norm(a))
        uses = x in names_in(e.elt)
        if record:
            for alt in sorted(alts):
                full = uses and not partial
                desc = (
                    f'comprehension {norm(e)[:60]} in {self.f.name}'
                    if full
                    else f'in {self.f.name} the comprehension {norm(e)[:60]} drops {alt} elements (condition {partial or "element unused"})'
                )
                if t[3]:
                    self.cover(t[3], alt, full, desc)
                elif not full and alt == R_:
                    self.fail(e, desc)
        if isinstance(e.elt, ast.Name) and e.elt.id == x:
            return COL(alts, 1, None)
        return None

    # ---------------------------------------------------------------- checks
    def cmp_ok(self, cmp, t, left, node):
        """order comparison on an element that may be a Range needs the dunder on basis.Range"""
        if R_ not in t[1]:
            return
        for op in cmp.ops:
            need = (_DIRECT if left else _REFLECT).get(type(op))
            if need and need not in self.uc.range_methods:
                self.fail(node, f'{norm(node)}: the operand may be a Range and basis.Range does not define {need}')
                return
        self.fine(node)

    def on_expr(self, e, st):
        if isinstance(e, ast.Compare):
            left = e.left
            for op, right in zip(e.ops, e.comparators):
                tr, tl = self.ty(right, st), self.ty(left, st)
                if isinstance(op, (ast.In, ast.NotIn)) and tr is not None:
                    if tr[0] == 'col' and R_ in tr[1]:
                        self.fail(
                            e,
                            f'{norm(e)}: membership is tested against a collection that may hold Range objects; a Range never '
                            'equals a run id, so every range constraint matches nothing (ranges must be tested with "id in range")',
                        )
                    elif tr[0] == 'el' and tr[1] != {R_}:
                        self.fail(e, f'{norm(e)}: "in" on a run-id entry that may be a plain int (alternatives {sorted(tr[1])} not discriminated)')
                    elif tr[0] == 'el' and '__contains__' not in self.uc.range_methods:
                        self.fail(e, f'{norm(e)}: basis.Range has no __contains__')
                    else:
                        self.fine(e)
                elif isinstance(op, (ast.Lt, ast.LtE, ast.Gt, ast.GtE)):
                    if tl is not None and tl[0] == 'el':
                        self.cmp_ok(ast.Compare(left=left, ops=[op], comparators=[right]), tl, True, e)
                    if tr is not None and tr[0] == 'el':
                        self.cmp_ok(ast.Compare(left=left, ops=[op], comparators=[right]), tr, False, e)
                left = right
        elif isinstance(e, ast.Attribute) and isinstance(e.ctx, ast.Load):
            t = self.ty(e.value, st)
            if t is not None and t[0] == 'el' and e.attr in ('start', 'stop'):
                if I_ in t[1]:
                    self.fail(e, f'{norm(e)}: the entry may be a plain int (alternatives not discriminated by isinstance)')
                else:
                    self.fine(e)
        return (st,)

    def on_test(self, e, st):
        if isinstance(e, ast.Call) and call_name(e) == 'isinstance' and len(e.args) == 2 and isinstance(e.args[0], ast.Name):
            t = self.get(st, e.args[0].id)
            k = self.class_kind(e.args[1])
            if t is not None and t[0] == 'el' and k is not None:
                yes, no = t[1] & {k}, t[1] - {k}
                return (
                    (self.put(st, e.args[0].id, EL(yes)),) if yes else (),
                    (self.put(st, e.args[0].id, EL(no)),) if no else (),
                )
        if isinstance(e, ast.Compare) and len(e.ops) == 1 and isinstance(e.left, ast.Name) and self.get(st, e.left.id) == KEY:
            c = e.comparators[0]
            if isinstance(c, ast.Constant) and isinstance(e.ops[0], (ast.Eq, ast.NotEq)):
                hit = c.value == 'runids'
                pvs = [k for k, v in st if v == PV]
                yes = st
                if hit:
                    self.uc.cov.setdefault(self.f.qname, {})
                    for n in pvs:
                        yes = self.put(yes, n, COL(BOTH, 1, self.f.qname))
                    no = st
                    for n in pvs:
                        no = self.put(no, n, None)
                    t_, f_ = (yes,), (no,)
                else:
                    t_, f_ = (st,), (st,)
                return (t_, f_) if isinstance(e.ops[0], ast.Eq) else (f_, t_)
        return (st,), (st,)

    # ------------------------------------------------------------ statements
    def bind(self, target, it, st, node):
        if isinstance(target, ast.Tuple) and any(isinstance(n, ast.Attribute) and n.attr == '_asdict' for n in ast.walk(it)) and len(target.elts) == 2:
            k, v = target.elts
            if isinstance(k, ast.Name) and isinstance(v, ast.Name):
                return self.put(self.put(st, k.id, KEY), v.id, PV)
        if isinstance(target, ast.Tuple) and isinstance(it, ast.Call) and call_name(it) == 'zip' and len(it.args) == len(target.elts):
            for tg, a in zip(target.elts, it.args):
                if isinstance(tg, ast.Name):
                    st = self.put(st, tg.id, self.iter_ty(self.ty(a, st)))
            return st
        t = self.ty(it, st)
        if isinstance(target, ast.Name):
            return self.put(st, target.id, self.iter_ty(t))
        for n in names_in(target):
            st = self.put(st, n, None)
        return st

    @staticmethod
    def iter_ty(t):
        if t is None or t[0] != 'col':
            return None
        return COL(t[1], t[2] - 1, None) if t[2] > 1 else EL(t[1])

    def on_for(self, node, st):
        self.uc.site_states.setdefault(id(node), set()).add(st)
        t = self.ty(node.iter, st)
        if t is not None and t[0] == 'col' and t[2] == 1 and isinstance(node.target, ast.Name):
            self.consume_loop(node, node.target.id, t)
        return (self.bind(node.target, node.iter, st, node),)

    def eval(self, e, states):
        if isinstance(e, (ast.ListComp, ast.SetComp, ast.GeneratorExp)) and states:
            for st in states:
                self.uc.site_states.setdefault(id(e), set()).add(st)
                self.comp(e, st, record=True)
                inner = {st}
                for g in e.generators:
                    inner = Flow.eval(self, g.iter, inner)
                    inner = {self.bind(g.target, g.iter, s, e) for s in inner}
                    for c in g.ifs:
                        t, _f = self.cond(c, inner)
                        inner = t
                self.eval(e.elt, inner)
            return states
        return Flow.eval(self, e, states)

    def root_and_depth(self, e):
        d = 0
        while isinstance(e, ast.Subscript):
            e = e.value
            d += 1
        return (e.id, d) if isinstance(e, ast.Name) else (None, 0)

    def grow(self, recv, alts, st, node):
        root, d = self.root_and_depth(recv)
        if root is None:
            if R_ in alts:
                self.fail(node, f'{norm(node)[:70]}: run-id entries that may be ranges flow into a receiver that is not followed; not understood')
            return st
        cur = self.get(st, root)
        new = COL(alts, d + 1, None)
        if cur is not None and cur[0] == 'col':
            new = COL(cur[1] | frozenset(alts), max(cur[2], d + 1), None)
        if root not in self.f.params():
            self.uc.collected.setdefault((self.f.qname, root), node)
        return self.put(st, root, new)

    def on_call(self, call, st):
        n = call_name(call)
        f = call.func
        if n == 'isinstance' or _is_logging(self.prog, self.f, call):
            return (st,)
        targs = [(a, self.ty(a, st)) for a in call.args] + [(k.value, self.ty(k.value, st)) for k in call.keywords]
        risky = [(a, t) for a, t in targs if t is not None and t[0] in ('col', 'el') and (R_ in t[1])]
        if isinstance(f, ast.Attribute) and n in _GROW_ONE and call.args:
            t = self.ty(call.args[-1], st)
            if t is not None and t[0] == 'el':
                return (self.grow(f.value, t[1], st, call),)
            if t is not None and t[0] == 'col':
                r_, d = self.root_and_depth(f.value)
                if r_:
                    return (self.put(st, r_, COL(t[1], t[2] + d + 1, None)),)
            return (st,)
        if isinstance(f, ast.Attribute) and n in _GROW_MANY and len(call.args) == 1:
            t = self.ty(call.args[0], st)
            if t is not None and t[0] == 'col' and t[2] == 1:
                if t[3]:
                    for alt in sorted(t[1]):
                        self.cover(t[3], alt, True, f'{norm(call)[:60]} in {self.f.name}')
                return (self.grow(f.value, t[1], st, call),)
            return (st,)
        if isinstance(f, ast.Name) and n in _PASS_THROUGH + ('filter', 'zip', 'bool', 'len', 'any', 'all', 'enumerate'):
            return (st,)
        fn = self.prog.func_of(self.prog.resolve_in(f, self.f)) if not isinstance(f, ast.Call) else None
        typed = [(a, t) for a, t in targs if t is not None and t[0] in ('col', 'el')]
        if fn is not None and typed and fn.module.name.startswith('dawgie.db.') and self.uc.depth < 3:
            ps = fn.params()
            if ps and ps[0] in ('self', 'cls') and not fn.is_staticmethod() and isinstance(f, ast.Attribute):
                ps = ps[1:]
            elif fn.is_staticmethod() or not isinstance(f, ast.Attribute):
                pass
            init = {}
            for i, a in enumerate(call.args):
                t = self.ty(a, st)
                if t is not None and i < len(ps):
                    init[ps[i]] = t
            for k in call.keywords:
                t = self.ty(k.value, st)
                if t is not None and k.arg:
                    init[k.arg] = t
            mk = (fn.qname, frozenset(init.items()))
            if mk not in self.uc.done:
                self.uc.done.add(mk)
                sub = _Union(self.uc, fn)
                self.uc.depth += 1
                try:
                    sub.run(fn.node, frozenset(init.items()))
                finally:
                    self.uc.depth -= 1
                self.uc.inlined.add(fn.qname)
                ret = self.uc.memo.get(fn.qname)
                for rt in sub.returns:
                    ret = self.join(ret, rt)
                self.uc.memo[fn.qname] = ret
            return (st,)
        if risky:
            a, t = risky[0]
            self.fail(call, f'{norm(call)[:70]}: a run-id value that may be a Range ({norm(a)}) is handed to a call the analysis does not follow; alternatives not shown to be discriminated')
        return (st,)

    def on_stmt(self, s, st):
        if isinstance(s, (ast.Assign, ast.AnnAssign)) and s.value is not None:
            tg = s.targets if isinstance(s, ast.Assign) else [s.target]
            t = self.ty(s.value, st)
            if isinstance(s.value, (ast.ListComp, ast.SetComp)):
                t = self.comp(s.value, st, record=False)
            for x in tg:
                if isinstance(x, ast.Name):
                    st = self.put(st, x.id, t)
                    if t is not None and t[0] == 'col' and x.id not in self.f.params():
                        self.uc.collected.setdefault((self.f.qname, x.id), s)
                elif isinstance(x, ast.Tuple):
                    for n in names_in(x):
                        st = self.put(st, n, None)
        elif isinstance(s, ast.AugAssign) and isinstance(s.op, (ast.BitOr, ast.Add)):
            t = self.ty(s.value, st)
            if t is not None and t[0] == 'col':
                st = self.grow(s.target, t[1], st, s)
        return (st,)

    def on_return(self, node, st):
        if node.value is not None:
            t = self.ty(node.value, st)
            if t is not None:
                self.returns.add(t)
        return (st,)


class _Terms(Flow):
    """how many entries one run-id expression adds to a collection: state = 0, 1 or 2 (= several)"""

    def __init__(self, prog, func, coll, depth=0):
        super().__init__()
        self.prog, self.f, self.coll, self.depth = prog, func, coll, depth
        self.not_understood = []

    def on_call(self, call, st):
        f = call.func
        if isinstance(f, ast.Attribute) and isinstance(f.value, ast.Name) and f.value.id == self.coll:
            if f.attr in _GROW_ONE:
                return (min(2, st + 1),)
            if f.attr in _GROW_MANY:
                return (2,)
            return (st,)
        pos = [i for i, a in enumerate(call.args) if isinstance(a, ast.Name) and a.id == self.coll]
        if pos:
            fn = self.prog.func_of(self.prog.resolve_in(f, self.f)) if not isinstance(f, ast.Call) else None
            if fn is None or self.depth >= 2:
                self.not_understood.append(norm(call)[:70])
                return (2,)
            ps = fn.params()
            if ps and ps[0] in ('self', 'cls') and not fn.is_staticmethod():
                ps = ps[1:]
            if pos[0] >= len(ps):
                self.not_understood.append(norm(call)[:70])
                return (2,)
            sub = _Terms(self.prog, fn, ps[pos[0]], self.depth + 1)
            out = sub.exits(fn.node, st)
            self.not_understood += sub.not_understood
            return tuple(out) or (st,)
        return (st,)

    def on_stmt(self, s, st):
        if isinstance(s, ast.AugAssign) and isinstance(s.target, ast.Name) and s.target.id == self.coll:
            return (2,)
        return (st,)


def and_joined(prog, cls_q):
    """[(producer method, collection name)]: collections that a backend joins with AND to form the WHERE clause"""
    out = {}
    cls = prog.cls(cls_q)
    for _n, g in sorted(cls.methods.items()):
        for c in g.calls():
            if not (
                isinstance(c.func, ast.Attribute)
                and c.func.attr == 'join'
                and isinstance(c.func.value, ast.Constant)
                and isinstance(c.func.value.value, str)
                and re.search(r'\bAND\b', c.func.value.value, re.I)
                and len(c.args) == 1
                and isinstance(c.args[0], ast.Name)
            ):
                continue
            y = c.args[0].id
            for n in g.own_nodes():
                if not isinstance(n, ast.Assign) or not isinstance(n.value, ast.Call):
                    continue
                h = prog.func_of(prog.resolve_in(n.value.func, g))
                if h is None:
                    continue
                for t in n.targets:
                    if isinstance(t, ast.Tuple):
                        for i, el in enumerate(t.elts):
                            if isinstance(el, ast.Name) and el.id == y:
                                for rt in h.own_nodes():
                                    if isinstance(rt, ast.Return) and isinstance(rt.value, ast.Tuple) and i < len(rt.value.elts) and isinstance(rt.value.elts[i], ast.Name):
                                        out[(h.qname, rt.value.elts[i].id)] = h
                    elif isinstance(t, ast.Name) and t.id == y:
                        for rt in h.own_nodes():
                            if isinstance(rt, ast.Return) and isinstance(rt.value, ast.Name):
                                out[(h.qname, rt.value.id)] = h
    return [(h, name) for (_q, name), h in sorted(out.items())]


def runids_branch(h):
    """statements executed for the field 'runids' inside a ``for k, v in ..._asdict().items()`` loop, or None"""
    for n in h.own_nodes():
        if isinstance(n, ast.If) and isinstance(n.test, ast.Compare) and len(n.test.ops) == 1:
            c = n.test.comparators[0]
            if isinstance(c, ast.Constant) and c.value == 'runids' and isinstance(n.test.left, ast.Name):
                if isinstance(n.test.ops[0], ast.Eq):
                    return n.body
                if isinstance(n.test.ops[0], ast.NotEq) and n.orelse:
                    return n.orelse
    return None


# ---- the match decision of a key-filtering backend is the union: id in ids  or  id in some range


def _returned_collections(fn):
    """names whose elements are what fn returns: in a return value, possibly through sorted/list/set/tuple or an alias"""
    def base_names(e):
        if isinstance(e, ast.Name):
            return {e.id}
        if isinstance(e, ast.Call) and isinstance(e.func, ast.Name) and e.func.id in _PASS_THROUGH and e.args:
            return base_names(e.args[0])
        if isinstance(e, (ast.Tuple, ast.List)):
            return set().union(*[base_names(x) for x in e.elts]) if e.elts else set()
        if isinstance(e, ast.IfExp):
            return base_names(e.body) | base_names(e.orelse)
        return set()

    out = set()
    for n in fn.own_nodes():
        if isinstance(n, ast.Return) and n.value is not None:
            out |= base_names(n.value)
    changed = True
    while changed:
        changed = False
        for n in fn.own_nodes():
            if isinstance(n, (ast.Assign, ast.AnnAssign)) and n.value is not None:
                tg = n.targets if isinstance(n, ast.Assign) else [n.target]
                if any(isinstance(t, ast.Name) and t.id in out for t in tg):
                    new = base_names(n.value) - out
                    if new:
                        out |= new
                        changed = True
    return out


def _match_sites(prog, fn):
    """loops / comprehensions of fn that select keys: they put (a part of) their loop variable into what fn returns

    -> [(node, condition-and-body statements, accept predicate on a call)]
    """
    out = []
    for n in fn.own_nodes():
        if isinstance(n, ast.For):
            tnames = names_in(n.target)
            grows = [
                c
                for c in ast.walk(ast.Module(body=n.body, type_ignores=[]))
                if isinstance(c, ast.Call)
                and isinstance(c.func, ast.Attribute)
                and c.func.attr in _GROW_ONE + _GROW_MANY
                and isinstance(c.func.value, ast.Name)
                and any(names_in(a) & tnames for a in c.args)
            ]
            returned = _returned_collections(fn)
            grows = [c for c in grows if c.func.value.id in returned]
            if grows:
                ids = {id(c) for c in grows}
                out.append((n, n.body, lambda c, ids=ids: id(c) in ids))
        elif isinstance(n, (ast.ListComp, ast.SetComp, ast.GeneratorExp)) and len(n.generators) == 1:
            g = n.generators[0]
            if not (names_in(n.elt) & names_in(g.target)):
                continue
            if any(
                isinstance(c, ast.Call) and isinstance(c.func, ast.Name) and c.func.id in ('any', 'all', 'sum', 'max', 'min', 'len') and n in c.args
                for c in fn.own_nodes()
            ):
                continue  # a quantifier over the collection, not a selection of keys
            # the comprehension value must reach the return value
            holder = None
            for st_ in fn.own_nodes():
                if isinstance(st_, ast.Return) and st_.value is not None and any(x is n for x in ast.walk(st_.value)):
                    holder = '<return>'
                elif isinstance(st_, (ast.Assign, ast.AnnAssign)) and st_.value is not None and any(x is n for x in ast.walk(st_.value)):
                    tg = st_.targets if isinstance(st_, ast.Assign) else [st_.target]
                    if len(tg) == 1 and isinstance(tg[0], ast.Name):
                        holder = tg[0].id
            if holder is None or not (holder == '<return>' or holder in _returned_collections(fn)):
                continue
            mark = ast.Call(func=ast.Name(id='<accept>', ctx=ast.Load()), args=[], keywords=[])
            body = [ast.Expr(value=mark)]
            if g.ifs:
                test = g.ifs[0] if len(g.ifs) == 1 else ast.BoolOp(op=ast.And(), values=list(g.ifs))
                body = [ast.If(test=test, body=body, orelse=[])]
            for x in body:
                ast.fix_missing_locations(ast.copy_location(x, n))
            out.append((n, body, lambda c, mark=mark: c is mark))
    return out


class _Match(Flow):
    """is the key accepted?  run-id atoms are fixed by an oracle (ids given, ranges given, id in ids, id in a range);
    every condition that does not involve run ids is left open (both branches): the other constraints are assumed to match.

    state = frozenset of (name, type | ('bool', v))
    """

    def __init__(self, uc, func, oracle, accept, depth=0):
        super().__init__()
        self.u = _Union(uc, func)
        self.uc, self.prog, self.f = uc, uc.prog, func
        self.ig, self.rg, self.in_i, self.in_r = oracle
        self.oracle = oracle
        self.accept = accept
        self.accepted = False
        self.unknown = []
        self.depth = depth

    def given(self, t):
        if t is None or t[0] != 'col':
            return None
        if t[1] == {I_}:
            return self.ig
        if t[1] == {R_}:
            return self.rg
        if not t[1]:
            return False
        self.unknown.append('a collection mixing ids and ranges')
        return None

    @staticmethod
    def k_not(v):
        return None if v is None else not v

    def tv(self, e, st):
        """three-valued value of a condition"""
        if isinstance(e, ast.Constant):
            return bool(e.value)
        if isinstance(e, ast.UnaryOp) and isinstance(e.op, ast.Not):
            return self.k_not(self.tv(e.operand, st))
        if isinstance(e, ast.BoolOp):
            vals = [self.tv(v, st) for v in e.values]
            if isinstance(e.op, ast.And):
                return False if False in vals else (None if None in vals else True)
            return True if True in vals else (None if None in vals else False)
        if isinstance(e, ast.IfExp):
            t = self.tv(e.test, st)
            if t is None:
                a, b = self.tv(e.body, st), self.tv(e.orelse, st)
                return a if a == b else None
            return self.tv(e.body if t else e.orelse, st)
        if isinstance(e, ast.Name):
            v = _Union.get(st, e.id)
            if v is not None and v[0] == 'bool':
                return v[1]
            return self.given(v)
        if isinstance(e, ast.Compare) and len(e.ops) == 1:
            op, right = e.ops[0], e.comparators[0]
            if isinstance(op, (ast.In, ast.NotIn)):
                t = self.u.ty(right, st)
                v = None
                if t is not None and t[0] == 'col' and t[2] == 1 and t[1] == {I_}:
                    v = self.in_i
                elif t is not None and t[0] == 'col' and t[2] == 1 and not t[1]:
                    v = False
                elif t is not None and t[0] in ('col', 'el') and R_ in t[1]:
                    self.unknown.append(norm(e))
                return v if isinstance(op, ast.In) else self.k_not(v)
            # len(C) > 0, len(C) != 0, 0 < len(C), len(C) == 0
            for a, b, flip in ((e.left, right, False), (right, e.left, True)):
                if isinstance(a, ast.Call) and call_name(a) == 'len' and len(a.args) == 1 and isinstance(b, ast.Constant) and b.value == 0:
                    g = self.given(self.u.ty(a.args[0], st))
                    name = type(op).__name__
                    if flip:
                        name = {'Lt': 'Gt', 'Gt': 'Lt', 'LtE': 'GtE', 'GtE': 'LtE'}.get(name, name)
                    if name in ('Gt', 'NotEq'):
                        return g
                    if name in ('Eq', 'LtE'):
                        return self.k_not(g)
            return None
        if isinstance(e, ast.Call):
            n = call_name(e)
            if isinstance(e.func, ast.Name) and n in ('bool', 'len') and len(e.args) == 1:
                return self.given(self.u.ty(e.args[0], st)) if n == 'len' or True else None
            if isinstance(e.func, ast.Name) and n in ('any', 'all') and len(e.args) == 1:
                g = e.args[0]
                if isinstance(g, (ast.List, ast.Tuple)):
                    vals = [self.tv(x, st) for x in g.elts]
                    if n == 'all':
                        return False if False in vals else (None if None in vals else True)
                    return True if True in vals else (None if None in vals else False)
                if isinstance(g, (ast.GeneratorExp, ast.ListComp)) and len(g.generators) == 1 and not g.generators[0].ifs:
                    gen = g.generators[0]
                    t = self.u.ty(gen.iter, st)
                    if t is not None and t[0] == 'col' and t[2] == 1 and t[1] == {R_} and isinstance(gen.target, ast.Name):
                        # over the ranges: any(x in r) is "x in some range"; all(x not in r) its negation
                        el = g.elt
                        if isinstance(el, ast.Compare) and len(el.ops) == 1 and norm(el.comparators[0]) == gen.target.id:
                            if n == 'any' and isinstance(el.ops[0], ast.In):
                                return self.in_r
                            if n == 'all' and isinstance(el.ops[0], ast.NotIn):
                                return not self.in_r
                        self.unknown.append(norm(e)[:60])
                        return None
                    st2 = self.u.bind(gen.target, gen.iter, st, g)
                    typed = [nm for nm in names_in(gen.target) if _Union.get(st2, nm) is not None]
                    if typed and n == 'all':
                        # generic test over all constraint slots: the run-id slot decides, the others are assumed to match
                        return self.tv(g.elt, st2)
                    if typed:
                        self.unknown.append(norm(e)[:60])
                    return None
                return None
            # single-expression helper substituted into the condition
            fn = self.prog.func_of(self.prog.resolve_in(e.func, self.f)) if not isinstance(e.func, ast.Call) else None
            if fn is not None and self.depth < 2 and fn.module.name.startswith('dawgie.db'):
                body = [b for b in fn.node.body if not (isinstance(b, ast.Expr) and isinstance(b.value, ast.Constant))]
                if len(body) == 1 and isinstance(body[0], ast.Return) and body[0].value is not None:
                    ps = fn.params()
                    if ps and ps[0] in ('self', 'cls') and not fn.is_staticmethod():
                        ps = ps[1:]
                    st2 = frozenset()
                    for i, a in enumerate(e.args):
                        if i < len(ps):
                            t = self.u.ty(a, st)
                            if t is not None:
                                st2 = _Union.put(st2, ps[i], t)
                    for k in e.keywords:
                        t = self.u.ty(k.value, st)
                        if t is not None and k.arg:
                            st2 = _Union.put(st2, k.arg, t)
                    sub = _Match(self.uc, fn, self.oracle, self.accept, self.depth + 1)
                    v = sub.tv(body[0].value, st2)
                    self.unknown += sub.unknown
                    return v
            return None
        return None

    def on_test(self, e, st):
        v = self.tv(e, st)
        if v is True:
            return (st,), ()
        if v is False:
            return (), (st,)
        return (st,), (st,)

    def on_stmt(self, s, st):
        if isinstance(s, (ast.Assign, ast.AnnAssign)) and s.value is not None:
            tg = s.targets if isinstance(s, ast.Assign) else [s.target]
            for t in tg:
                if isinstance(t, ast.Name):
                    ty = self.u.ty(s.value, st)
                    if ty is not None:
                        st = _Union.put(st, t.id, ty)
                        continue
                    v = self.tv(s.value, st) if isinstance(s.value, (ast.BoolOp, ast.Compare, ast.UnaryOp, ast.Call, ast.IfExp)) else None
                    st = _Union.put(st, t.id, ('bool', v) if v is not None else None)
                else:
                    for nm in names_in(t):
                        st = _Union.put(st, nm, None)
        return (st,)

    def on_for(self, node, st):
        return (self.u.bind(node.target, node.iter, st, node),)

    def on_call(self, call, st):
        if self.accept(call):
            self.accepted = True
        return (st,)


_ORACLES = [
    (ig, rg, ii, ir)
    for ig in (False, True)
    for rg in (False, True)
    for ii in (False, True)
    for ir in (False, True)
    if (ig or not ii) and (rg or not ir)
]


def _check_union(prog, r, uc, funcs, required):
    """truth table of every key-selecting loop over the atoms (ids given, ranges given, id in ids, id in a range)"""
    n_sites = 0
    for fn in funcs:
        for node, body, accept in _match_sites(prog, fn):
            envs = uc.site_states.get(id(node))
            if not envs:
                continue
            # only sites where run-id collections are in scope take part
            envs = [e for e in envs if any(v is not None and v[0] == 'col' for _k, v in e)]
            if not envs:
                continue
            n_sites += 1
            r.instance()
            key = f'{fn.qname}:runid-union'
            rows, unknown = [], []
            # one environment: every collection that may hold run-id entries on some path carries its alternatives
            joined = {}
            for env in envs:
                for k, v in env:
                    if v is not None and v[0] in ('col', 'el'):
                        joined[k] = _Union.join(joined.get(k), v)
            for env in [frozenset(joined.items())]:
                for oc in _ORACLES:
                    m = _Match(uc, fn, oc, accept)
                    # loop-invariant flags hoisted out of the site (any_runid = not (rids or ranges)): single assignment,
                    # evaluated under the oracle in source order
                    env0 = env
                    inside = {id(x) for x in ast.walk(node)}
                    counts = {}
                    for a_ in fn.own_nodes():
                        if isinstance(a_, (ast.Assign, ast.AnnAssign, ast.AugAssign)):
                            for t_ in a_.targets if isinstance(a_, ast.Assign) else [a_.target]:
                                for nm in names_in(t_):
                                    counts[nm] = counts.get(nm, 0) + 1
                    hoisted = [
                        a_
                        for a_ in fn.own_nodes()
                        if isinstance(a_, ast.Assign)
                        and id(a_) not in inside
                        and len(a_.targets) == 1
                        and isinstance(a_.targets[0], ast.Name)
                        and counts.get(a_.targets[0].id) == 1
                        and isinstance(a_.value, (ast.BoolOp, ast.UnaryOp, ast.Compare, ast.Call, ast.Name))
                    ]
                    for a_ in sorted(hoisted, key=lambda x: (x.lineno, x.col_offset)):
                        if _Union.get(env, a_.targets[0].id) is None and m.u.ty(a_.value, env) is None:
                            v_ = m.tv(a_.value, env)
                            if v_ is not None:
                                env = _Union.put(env, a_.targets[0].id, ('bool', v_))
                    m.unknown = []
                    init, env = env, env0
                    if isinstance(node, ast.For):
                        init = m.u.bind(node.target, node.iter, init, node)
                    else:
                        init = m.u.bind(node.generators[0].target, node.generators[0].iter, init, node)
                    m.run(ast.Module(body=body, type_ignores=[]), init)
                    ig, rg, ii, ir = oc
                    want = (not ig and not rg) or ii or ir
                    unknown += m.unknown
                    if m.accepted != want:
                        rows.append(
                            f'ids {"given" if ig else "absent"}, ranges {"given" if rg else "absent"}, id in ids={ii}, '
                            f'id in a range={ir}: key {"accepted" if m.accepted else "rejected"}, expected {"accepted" if want else "rejected"}'
                        )
            rows = sorted(set(rows))
            r.extra['union_truth_table_rows'] = len(_ORACLES)
            r.check(
                not rows,
                key,
                where(fn, node),
                f'{len(_ORACLES)} valuations: a key passes the run-id test iff no run-id constraint is given, or its id is in the id set, or in one of the ranges',
                'the run-id test of the key filter is not the union of the ids and the ranges: '
                + '; '.join(rows[:4])
                + (f' (not understood: {sorted(set(unknown))[:3]})' if unknown else ''),
            )
    if required and not n_sites:
        r.instance()
        r.fail(
            f'{required}:runid-union',
            where(prog.funcs[required]) if required in prog.funcs else '',
            'no loop or comprehension selecting the primary keys under the run-id collections was recognised; union of ids and ranges not shown',
        )


def _runid_sources(prog, cls_q):
    """methods of a backend that read the scrubbed runids: ``<param>.runids`` or ``k == 'runids'`` over _asdict()"""
    out = []
    for name, m in sorted(prog.cls(cls_q).methods.items()):
        hit = False
        for n in m.own_nodes():
            if isinstance(n, ast.Attribute) and n.attr == 'runids' and isinstance(n.value, ast.Name) and n.value.id in m.params():
                hit = True
            if isinstance(n, ast.Compare) and any(isinstance(c, ast.Constant) and c.value == 'runids' for c in n.comparators + [n.left]):
                hit = True
        if hit:
            out.append(m)
    return out


def _read_elsewhere(func, name, funcs):
    """is the local collection read anywhere except as the receiver of its own growth calls / its initialisation?"""
    for n in func.own_nodes():
        if isinstance(n, ast.Name) and n.id == name and isinstance(n.ctx, ast.Load):
            skip = False
            for c in func.own_nodes():
                if isinstance(c, ast.Call) and isinstance(c.func, ast.Attribute) and c.func.attr in _GROW_ONE + _GROW_MANY + ('discard', 'remove', 'clear'):
                    if any(x is n for x in ast.walk(c.func.value)):
                        skip = True
            if not skip:
                return True
    return False


def _rule1(ctx, rep):
    prog = ctx.prog
    with rep.rule(
        'R-C17-1',
        'every consumer of the scrubbed runids (list[int | Range]) discriminates the two alternatives, every path of the '
        'Range alternative (bounded / open) contributes a constraint, and a Range is never tested by set membership',
        floor=4,
        breaks='range queries return nothing (a Range inside a set never equals a run id) or ignore the open lower bound',
    ) as r:
        backends = [q for q, c in prog.classes.items() if FACADE in c.bases]
        if S_IMPL not in backends or P_IMPL not in backends:
            raise AnalysisError(f'search backends found: {backends}; expected the shelve and post implementations of SearchFacade')
        r.extra['backends'] = sorted(backends)
        for cq in sorted(backends):
            uc = _UCtx(prog)
            srcs = _runid_sources(prog, cq)
            if not srcs:
                raise AnalysisError(f'{cq}: no method reads the runids of the search parameters')
            for m in srcs:
                rep.analysed(m)
                fl = _Union(uc, m)
                fl.run(m.node, frozenset())
            for q in sorted(uc.inlined):
                rep.analysed(prog.funcs[q])
            if not uc.cov:
                raise AnalysisError(f'{cq}: no expression denoting the scrubbed runids was recognised in {[m.name for m in srcs]}')
            for src in sorted(uc.cov):
                sf = prog.funcs[src]
                for alt in (I_, R_):
                    r.instance()
                    cons = uc.cov[src].get(alt, [])
                    full = sorted({d for ok, d in cons if ok})
                    part = sorted({d for ok, d in cons if not ok})
                    r.check(
                        bool(full),
                        f'{src}:runids:{alt}',
                        where(sf),
                        f'{alt} entries are consumed on every path by: {full[:2]}',
                        f'the {alt} alternative of runids is not turned into a constraint on every path: '
                        + ('; '.join(part) if part else 'no consumer handles it'),
                    )
            for key, (wh, msg) in sorted(uc.sinks.items()):
                r.instance()
                if msg is None:
                    r.ok(key, 'use of a run-id entry/collection is consistent with its alternatives', wh)
                else:
                    r.fail(key, wh, msg)
            _check_union(
                prog,
                r,
                uc,
                srcs + [prog.funcs[q] for q in sorted(uc.inlined) if prog.funcs[q] not in srcs],
                S_IMPL + '._prime_keys' if cq == S_IMPL else None,
            )
            for (fq, name), node in sorted(uc.collected.items(), key=lambda t: t[0]):
                fn = prog.funcs[fq]
                rets = any(isinstance(n, ast.Return) and n.value is not None and name in names_in(n.value) for n in fn.own_nodes())
                r.check(
                    rets or _read_elsewhere(fn, name, prog),
                    f'{fq}:collected:{name}',
                    where(fn, node),
                    f'collection {name} holding run-id entries is read again (test, argument or return)',
                    f'run-id entries are collected in {name} but {name} is never read: the constraint is lost',
                    nontrivial=False,
                )
        # ---- a run-id expression denotes a union: it may add at most one term to a list that is joined with AND
        for cq in sorted(backends):
            for h, coll in and_joined(prog, cq):
                body = runids_branch(h)
                r.instance()
                rep.analysed(h)
                key = f'{h.qname}:runids-terms-conjoined'
                if body is None:
                    r.fail(key, where(h), f'{h.name} builds the AND-joined list {coll} but its runids branch was not recognised; not understood')
                    continue
                tf = _Terms(prog, h, coll)
                o = tf.run(ast.Module(body=body, type_ignores=[]), 0)
                worst = max(o.normal | o.ret | o.cont | o.brk | {0})
                r.extra['and_terms_states'] = tf.visited
                r.check(
                    worst <= 1 and not tf.not_understood,
                    key,
                    where(h, body[0]),
                    f'one run-id expression adds at most one term to {coll} (joined with AND)',
                    f'one run-id expression can add several terms to {coll}, which is joined with AND: the ranges / ids of the '
                    'expression are intersected instead of united (two disjoint ranges, or a range and an id, match nothing)'
                    + (f'; not followed: {tf.not_understood}' if tf.not_understood else ''),
                )
        r.note('not claimed: the meaning of the sentinel -1 ("latest")')


# ---------------------------------------------------------------------------


def _rule6(ctx, rep):
    """the SQL range term is the same half-open interval as basis.Range (added after seeded change C17-4: the PostgreSQL
    backend's `run_ID >= %s and run_ID < %s` became `run_ID BETWEEN %s AND %s`, which includes the stop)"""
    import re as _re

    prog = ctx.prog
    cands = [f for q, f in prog.funcs.items() if q.startswith('dawgie.db.post.search.') and any(isinstance(n, ast.Attribute) and n.attr in ('start', 'stop') for n in f.own_nodes())]
    with rep.rule(
        'R-C17-6',
        'PostgreSQL run-ID ranges are half open like basis.Range: in the branch that pushes (start, stop) the SQL term compares with ">=" then "<", in the branch that pushes only start it compares with ">="; one placeholder per pushed bound',
        floor=2,
        breaks='entries whose run ID equals the stop of a range are returned (or entries at the start are not): find, total and facet disagree with the shelve backend and with Range.__contains__',
    ) as r:
        if not cands:
            raise AnalysisError('db.post.search: no function handling Range.start / Range.stop found')
        for f in cands:
            g = prog.nfunc(f.qname)
            rep.analysed(g)

            def text_of(e):
                t = sql_text(e, g)
                return None if '{?}' in t else t

            def blocks(stmts):
                yield stmts
                for st in stmts:
                    for fld in ('body', 'orelse', 'finalbody'):
                        sub = getattr(st, fld, None)
                        if isinstance(sub, list) and sub and isinstance(sub[0], ast.stmt):
                            yield from blocks(sub)

            # locals that are pushed after the branch (`term = ...; bound = ...` per arm, `terms.append(term); args.extend(bound)` behind it)
            pushed_later = {c.args[0].id for c in g.calls() if isinstance(c.func, ast.Attribute) and c.func.attr in ('append', 'extend') and len(c.args) == 1 and isinstance(c.args[0], ast.Name)}
            for blk in blocks(g.node.body):
                pushed, term = [], None
                for st in blk:
                    if isinstance(st, ast.Assign) and len(st.targets) == 1 and isinstance(st.targets[0], ast.Name) and st.targets[0].id in pushed_later:
                        attrs = [x.attr for x in ast.walk(st.value) if isinstance(x, ast.Attribute) and x.attr in ('start', 'stop')]
                        if attrs:
                            pushed += attrs
                        elif text_of(st.value) is not None and 'run' in text_of(st.value).lower():
                            term = (st, text_of(st.value))
                        continue
                    if not (isinstance(st, ast.Expr) and isinstance(st.value, ast.Call) and isinstance(st.value.func, ast.Attribute)):
                        continue
                    c = st.value
                    attrs = [x.attr for a in c.args for x in ast.walk(a) if isinstance(x, ast.Attribute) and x.attr in ('start', 'stop')]
                    if c.func.attr in ('append', 'extend') and attrs:
                        pushed += attrs
                    elif c.func.attr == 'append' and c.args and text_of(c.args[0]) is not None and 'run' in text_of(c.args[0]).lower():
                        term = (c, text_of(c.args[0]))
                if not pushed or term is None:
                    continue
                r.instance()
                call, txt = term
                ops = _re.findall(r'(>=|<=|<>|!=|=|<|>)\s*%s', txt)
                between = bool(_re.search(r'\bbetween\b', txt, _re.I))
                want = ['>=', '<'] if pushed == ['start', 'stop'] else (['>='] if pushed == ['start'] else None)
                r.check(
                    want is not None and not between and ops == want and txt.count('%s') == len(pushed),
                    f'{f.qname}:range-term[{"+".join(pushed)}]',
                    where(g, call),
                    f'"{txt}" with bounds {pushed}',
                    f'{f.qname}: the SQL term "{txt}" for the pushed bounds {pushed} is not the half-open interval start <= run < stop (operators {ops}{", BETWEEN is inclusive" if between else ""})',
                )


def _rule7(ctx, rep):
    """the page reaches the client in the order find() produced (added after seeded change C17-5: the search end point
    sorted the page by text, so run 10 was listed before run 9 and concatenated pages differed from the full reply)"""
    prog = ctx.prog
    with rep.rule(
        'R-C17-7',
        'every caller of SearchFacade.find hands the result on without reordering, filtering or de-duplicating its items (no sorted / sort / reversed / set / filter / slice of the items between find and the reply)',
        floor=1,
        breaks='the client sees a page in another order (or with other entries) than the matches in ascending run-ID order: pages no longer concatenate to the full result',
    ) as r:
        n = 0
        for q, raw in sorted(prog.funcs.items()):
            if not q.startswith('dawgie.fe.'):
                continue
            finds = [c for c in raw.calls() if isinstance(c.func, ast.Attribute) and c.func.attr == 'find' and isinstance(c.func.value, ast.Call) and (prog.resolve_in(c.func.value.func, raw) or '').endswith('dawgie.db.search')]
            finds += [c for c in raw.calls() if isinstance(c.func, ast.Attribute) and c.func.attr == 'find' and isinstance(c.func.value, ast.Name) and any(isinstance(d, ast.Assign) and any(isinstance(t, ast.Name) and t.id == c.func.value.id for t in d.targets) and isinstance(d.value, ast.Call) and (prog.resolve_in(d.value.func, raw) or '').endswith('dawgie.db.search') for d in raw.own_nodes())]
            if not finds:
                continue
            f = prog.nfunc(q)
            rep.analysed(f)
            n += 1
            r.instance()
            # names that hold the result (or its items)
            held = set()
            for d in f.own_nodes():
                if isinstance(d, ast.Assign) and any(isinstance(x, ast.Call) and isinstance(x.func, ast.Attribute) and x.func.attr == 'find' for x in ast.walk(d.value)):
                    held |= {t.id for t in d.targets if isinstance(t, ast.Name)}
            changed = True
            while changed:
                changed = False
                for d in f.own_nodes():
                    if isinstance(d, ast.Assign) and any(isinstance(x, ast.Name) and x.id in held for x in ast.walk(d.value)):
                        new_names = {t.id for t in d.targets if isinstance(t, ast.Name)} - held
                        if new_names:
                            held |= new_names
                            changed = True
            bad = []
            for c in f.calls():
                name = c.func.id if isinstance(c.func, ast.Name) else (c.func.attr if isinstance(c.func, ast.Attribute) else '')
                touches = any(isinstance(x, ast.Attribute) and x.attr == 'items' and isinstance(x.value, ast.Name) and x.value.id in held for a in list(c.args) + [k.value for k in c.keywords] + ([c.func.value] if isinstance(c.func, ast.Attribute) else []) for x in ast.walk(a))
                if touches and name in ('sorted', 'reversed', 'set', 'frozenset', 'filter', 'sort', 'reverse', 'shuffle', 'sample', 'fromkeys'):
                    bad.append(c)
            for x in f.own_nodes():
                if isinstance(x, ast.Subscript) and isinstance(x.slice, ast.Slice) and isinstance(x.value, ast.Attribute) and x.value.attr == 'items' and isinstance(x.value.value, ast.Name) and x.value.value.id in held:
                    bad.append(x)
            r.check(
                not bad,
                f'{q}:page-order-kept',
                where(f, bad[0] if bad else finds[0]),
                'the items of the result are handed on as they are',
                f'{q} applies {norm(bad[0])[:70] if bad else ""} to the items returned by find(): the page no longer is the slice of the matches in ascending run-ID order',
            )
        if not n:
            raise AnalysisError('no front-end caller of dawgie.db.search().find found')


def _rule8(ctx, rep):
    """every search reads the catalogue as it is now (added after seeded change C17-8: the shelve backend cached the
    name -> id resolution with functools.lru_cache; names registered after the first search never matched again)"""
    from . import shared

    prog, cg = ctx.prog, ctx.cg
    with rep.rule(
        'R-C17-8',
        'the search path keeps nothing between calls: no function of the shelve / post search modules reached from find / facet is memoised (decorator), rebinds a global or stores into a module-level or default-argument container',
        floor=4,
        breaks='a later search answers from what an earlier one saw: entries written in between are missing from items, total and every page',
    ) as r:
        for modname in ('dawgie.db.shelve.search', 'dawgie.db.post.search'):
            roots = [q for q in prog.funcs if q.startswith(modname + '.') and q.rsplit('.', 1)[-1] in ('find', 'facet', '_find')]
            if not roots:
                raise AnalysisError(f'{modname}: find / facet not found')
            path = sorted(q for q in cg.reachable(roots, kinds={'direct'}) if q.startswith(modname + '.') and q in prog.funcs)
            for q in path:
                f = prog.funcs[q]
                rep.analysed(f)
                r.instance()
                probs = shared.state_kept_by(prog, f)
                r.check(not probs, f'{q}:keeps-nothing', where(f), 'no state that outlives the call', f'{q}: ' + '; '.join(probs) + ': the catalogue is not read again by the next search')


def _rule9(ctx, rep):
    """a name constraint matches whole names (added after seeded change C17-10: shelve search._subset tested
    `key.partition('___version:')[0].endswith(name)`, so "data" also selected "metadata" and "1214" selected "GJ 1214")"""
    prog = ctx.prog
    f = prog.nfunc('dawgie.db.shelve.search._subset')
    rep.analysed(f)
    with rep.rule(
        'R-C17-9',
        'the shelve search resolves a name to table ids by equality of the dissected name field (dissect(key)[1] == name): no prefix / suffix / substring test on the key text',
        floor=1,
        breaks='a constraint on one name also selects every stored name that merely ends (or starts) with it: find returns extra entries, total is inflated and facet lists names that do not satisfy the constraints',
    ) as r:
        name = f.params()[1] if len(f.params()) > 1 else None
        if name is None:
            raise AnalysisError('db.shelve.search._subset no longer takes (table, name)')
        r.instance()
        good, bad = [], []
        for n in ast.walk(f.node):
            if isinstance(n, ast.Compare) and len(n.ops) == 1:
                sides = [n.left, n.comparators[0]]
                mentions = [any(isinstance(x, ast.Name) and x.id in (name, 'n') for x in ast.walk(sd)) for sd in sides]
                if any(mentions):
                    other = sides[1] if mentions[0] else sides[0]
                    is_field = isinstance(other, ast.Subscript) and isinstance(other.value, ast.Call) and (call_name(other.value) or '').endswith('dissect') and isinstance(other.slice, ast.Constant) and other.slice.value == 1
                    (good if isinstance(n.ops[0], ast.Eq) and is_field else bad).append(n)
            if isinstance(n, ast.Call) and isinstance(n.func, ast.Attribute) and n.func.attr in ('endswith', 'startswith', 'find', 'index', 'count', 'search', 'match') and any(isinstance(x, ast.Name) and x.id in (name, 'n') for a in n.args for x in ast.walk(a)):
                bad.append(n)
        r.check(
            bool(good) and not bad,
            f'{f.qname}:whole-name',
            where(f, bad[0] if bad else None),
            'dissect(key)[1] == name',
            f'{f.qname} does not select by equality of the dissected name: {norm(bad[0])[:70] if bad else "no comparison with dissect(key)[1] found"}',
        )


def _rule10(ctx, rep):
    """added after seeded change C17-10: the PostgreSQL search dropped the WHERE term of a name constraint whose lookup
    found no key ("never send an empty array"); a search for an unknown target / task / algorithm / state vector then
    returned everything the remaining constraints matched instead of nothing"""
    prog = ctx.prog
    from . import shared

    with rep.rule(
        'R-C17-10',
        'every given name constraint restricts the PostgreSQL query: in __args_n_constraints the WHERE term and its argument are appended for each non-run-id parameter on every path (an unknown name yields an empty key list, which matches nothing)',
        floor=2,
        breaks='a search that names something unknown returns the matches of the other constraints (or raises "No constraints") instead of the empty result',
    ) as r:
        f = next((g for q, g in sorted(prog.funcs.items()) if q.startswith('dawgie.db.post.search.SearchImplementation.') and q.endswith('args_n_constraints')), None)
        if f is None:
            raise AnalysisError('dawgie.db.post.search.SearchImplementation.__args_n_constraints not found')
        g = prog.nfunc(f.qname)
        rep.analysed(g)
        # the two accumulators are what the function returns
        rets = [n for n in g.own_nodes() if isinstance(n, ast.Return) and isinstance(n.value, ast.Tuple)]
        accs = [e.id for e in rets[0].value.elts if isinstance(e, ast.Name)] if rets else []
        if len(accs) != 2:
            raise AnalysisError(f'{f.qname} no longer returns its two accumulators (args, constraints)')
        for acc in accs:
            apps = [c for c in g.calls() if isinstance(c.func, ast.Attribute) and c.func.attr in ('append', 'extend') and isinstance(c.func.value, ast.Name) and c.func.value.id == acc]
            r.instance()
            if not apps:
                r.fail(f'{f.qname}:{acc}:appended', where(g), f'{f.qname} never appends to {acc} for a name constraint (only the run-id helper does)')
                continue
            for c in apps:
                # tests on the loop's own variables select which parameters are given / which one is the run-id list
                loopvars = {n.id for lp in g.own_nodes() if isinstance(lp, ast.For) and any(x is c for x in ast.walk(lp)) for n in ast.walk(lp.target) if isinstance(n, ast.Name)}
                extra = [(t, o) for t, o in shared.path_condition(g, c) if not ({n.id for n in ast.walk(t) if isinstance(n, ast.Name)} <= loopvars | {'bool', 'len'})]
                r.check(
                    not extra,
                    f'{f.qname}:{acc}:unconditional',
                    where(g, c),
                    f'{norm(c)[:50]} is executed for every name parameter that is given',
                    f'{norm(c)[:60]} only happens when ' + ' and '.join(('' if o else 'not ') + '(' + norm(t)[:40] + ')' for t, o in extra) + ': a given name constraint can leave the query unrestricted',
                )


def check(ctx):
    rep = Report(
        PID,
        ctx.tier,
        ctx.prog,
        'Decides from the source of db/basis.py, db/shelve/search.py, db/post/search.py (and the key builder in '
        'db/shelve/model.py): (1) a type-flow over the two alternatives of the scrubbed runids (int | Range) showing that '
        'each consumer discriminates them, that every path of the Range alternative yields a constraint and that no Range '
        'is tested by set membership; (2) linear-form normalisation of the page bounds (slice / LIMIT-OFFSET) for limit '
        'None, 0 and > 0; (3) agreement of the field/position/table lookup tables with Params._fields and the key tuple; '
        '(4) granularity (set of 5-component keys), natural run-id-first order, total from the unsliced list; (5) the '
        'merge step and the index-absorption test of _scrub evaluated over a complete small model of the end points. '
        'Not decided: agreement with concrete database contents, the SQL executed by PostgreSQL, parsing of the textual '
        'run-id expression in _divide, the meaning of the sentinel -1.',
        assumptions=[
            'run ids are integers and the analysed code touches them only through comparisons and +/- literals',
            'tuple ordering and sorted() are those of CPython; slices clamp at the sequence length',
            'SearchFacade.find/facet are the only entry points (they are typing.final) and always scrub first',
        ],
    )
    rep.not_decided = [
        'agreement with concrete database contents',
        'behaviour of the SQL statements inside PostgreSQL',
        'textual parsing of run-id expressions (_divide)',
    ]
    # sa/inline.py caches normal forms under id(prog): a Program created after an earlier one was freed (variants
    # analysed one after the other in one process) can get the same id and be served the earlier program's functions
    _inline._CACHE.clear()
    _PROG[0] = ctx.prog
    _rule1(ctx, rep)
    _rule2(ctx, rep)
    _rule3(ctx, rep)
    _rule4(ctx, rep)
    _rule5(ctx, rep)
    _rule6(ctx, rep)
    _rule7(ctx, rep)
    _rule8(ctx, rep)
    _rule9(ctx, rep)
    _rule10(ctx, rep)
    return rep


_SH, _PO, _BA = 'db/shelve/search.py', 'db/post/search.py', 'db/basis.py'
_PK, _FI = 'SearchImplementation._prime_keys', 'SearchImplementation._find'
_AR, _AC = 'SearchImplementation.__add_runids', 'SearchImplementation.__args_n_constraints'

# ``old`` texts that only exist after pending fixes C17-1..4 are skipped automatically on the unrepaired tree
VARIANTS = [
    V('post search drops the term of an unknown name', 'B', 'db/post/search.py', 'SearchImplementation.__args_n_constraints', 'args.append(list(row[0] for row in cursor.fetchall())) constraints.append(_CONSTRAINT.format(sql=sql_info))', 'fks = [row[0] for row in cursor.fetchall()]\n                    if fks:\n                        args.append(fks)\n                        constraints.append(_CONSTRAINT.format(sql=sql_info))', 'R-C17-10'),
    V('post search keeps the keys in a local first', 'N', 'db/post/search.py', 'SearchImplementation.__args_n_constraints', 'args.append(list(row[0] for row in cursor.fetchall())) constraints.append(_CONSTRAINT.format(sql=sql_info))', 'fks = [row[0] for row in cursor.fetchall()]\n                    args.append(fks)\n                    constraints.append(_CONSTRAINT.format(sql=sql_info))', None),

    V('shelve search matches names by suffix', 'B', 'db/shelve/search.py', '_subset', 'dissect(t[0])[1] == n', 'dissect(t[0])[1].endswith(n)', 'R-C17-9'),
    V('shelve search memoises its key selection', 'B', 'db/shelve/search.py', None, 'def _subset(', 'import functools\n\n\n@functools.lru_cache(maxsize=64)\ndef _subset(', 'R-C17-8'),
    V('search end point sorts the page as text', 'B', 'fe/api/database.py', 'search', 'return build_return_object(results._asdict())', 'results = results._replace(items=sorted(results.items, key=str.casefold))\n    return build_return_object(results._asdict())', 'R-C17-7'),
    V('post range uses BETWEEN', 'B', 'db/post/search.py', None, "_RANGE = 'run_ID >= %s and run_ID < %s'", "_RANGE = 'run_ID BETWEEN %s AND %s'", 'R-C17-6'),
    V('post range upper case AND', 'N', 'db/post/search.py', None, "_RANGE = 'run_ID >= %s and run_ID < %s'", "_RANGE = 'run_ID >= %s AND run_ID < %s'", None),
    # ---- R-C17-1
    V('ranges added to the id set again', 'B', _SH, _PK, 'ranges.append(rid)', 'rids.add(rid)', 'R-C17-1'),
    V('Range alternative dropped in shelve', 'B', _SH, _PK, 'ranges.append(rid)', 'pass', 'R-C17-1'),
    V('range list tested by membership', 'B', _SH, _PK, 'any(runid in r for r in ranges)', 'runid in ranges', 'R-C17-1'),
    V('alternatives not discriminated', 'B', _SH, _PK, 'if isinstance(rid, Range):', 'if rid.stop is None:', 'R-C17-1'),
    V('post: open range ignored again', 'B', _PO, _AR,
      'if rid.stop is None:\n                    terms.append(_RANGE_UE)\n                    args.append(rid.start)\n                else:\n                    terms.append(_RANGE)',
      'if rid.stop:\n                    terms.append(_RANGE)', 'R-C17-1'),
    V('post: one AND term per range again', 'B', _PO, _AR, 'terms.append(_RANGE)', 'constraints.append(_RANGE)', 'R-C17-1'),
    V('post: filter drops ranges silently', 'B', _PO, _AR, 'filter(lambda i: i >= 0, runids)', 'filter(lambda i: i.start > 5, runids)', 'R-C17-1'),
    V('shelve: comprehension discrimination', 'N', _SH, _PK,
      'for rid in v:\n                    if isinstance(rid, Range):\n                        ranges.append(rid)\n                    else:\n                        rids.add(rid)',
      'ranges.extend(r for r in v if isinstance(r, Range))\n                rids.update(i for i in v if not isinstance(i, Range))', None),
    V('shelve: loop variable renamed, branches inverted', 'N', _SH, _PK,
      'for rid in v:\n                    if isinstance(rid, Range):\n                        ranges.append(rid)\n                    else:\n                        rids.add(rid)',
      'for entry in v:\n                    if not isinstance(entry, Range):\n                        rids.add(entry)\n                    else:\n                        ranges.append(entry)', None),
    V('shelve: logging added', 'N', _SH, _PK, 'for rid in v:', 'for rid in v:\n                    print("run id entry", rid, v)', None),
    V('shelve: matches also logged', 'N', _SH, _FI, 'items: [str] = []', 'items: [str] = []\n        for k in self._prime_keys(parameters):\n            print(k)', None),
    V('post: sentinel filter mirrored', 'N', _PO, _AR, 'lambda i: i >= 0', 'lambda i: 0 <= i', None),
    # ---- R-C17-2
    V('slice end is limit again', 'B', _SH, _FI, 'pks[index:stop]', 'pks[index:limit]', 'R-C17-2'),
    V('stop computed without index', 'B', _SH, _FI, 'else index + limit', 'else limit', 'R-C17-2'),
    V('page starts at 0', 'B', _SH, _FI, 'pks[index:stop]', 'pks[:stop]', 'R-C17-2'),
    V('post: LIMIT/OFFSET arguments swapped', 'B', _PO, _FI, 'args.extend([limit, index])', 'args.extend([index, limit])', 'R-C17-2'),
    V('post: limit None no longer means all', 'B', _PO, _FI, 'limit = total if limit is None else limit', 'limit = 0 if limit is None else limit', 'R-C17-2'),
    V('post: OFFSET literal dropped', 'B', _PO, _FI, "'LIMIT %s OFFSET %s;'", "'OFFSET %s LIMIT %s;'", 'R-C17-2'),
    V('chained slices', 'N', _SH, _FI, 'pks[index:stop]', 'pks[index:][:limit]', None),
    V('inline conditional bound', 'N', _SH, _FI, 'pks[index:stop]', 'pks[index : (index + limit if limit is not None else None)]', None),
    V('bound clamped to length', 'N', _SH, _FI, 'stop = None if limit is None else index + limit', 'stop = len(pks) if limit is None else min(index + limit, len(pks))', None),
    V('post: limit normalised with an if', 'N', _PO, _FI, 'limit = total if limit is None else limit', 'if limit is None:\n                limit = total', None),
    V('post: count statement formatted from a template held in a local', 'N', _PO, _FI, "cursor.execute(\n                'SELECT count(DISTINCT (p.run_ID, p.tn_ID, p.task_ID, '\n                f'p.alg_ID, p.sv_ID)) FROM Prime p WHERE {constraints};',\n                args,\n            )", "key = 'p.run_ID, p.tn_ID, p.task_ID, p.alg_ID, p.sv_ID'\n            count_sql = 'SELECT count(DISTINCT ({key})) ' 'FROM Prime p WHERE {where};'\n            cursor.execute(count_sql.format(key=key, where=constraints), args)", None),
    V('post: paged statement tail concatenated with OFFSET before LIMIT', 'B', _PO, _FI, "'LIMIT %s OFFSET %s;',", "+ 'OFFSET %s ' + 'LIMIT %s;',", 'R-C17-2'),
    V('post: templated count statement loses the state vector column', 'B', _PO, _FI, "cursor.execute(\n                'SELECT count(DISTINCT (p.run_ID, p.tn_ID, p.task_ID, '\n                f'p.alg_ID, p.sv_ID)) FROM Prime p WHERE {constraints};',\n                args,\n            )", "key = 'p.run_ID, p.tn_ID, p.task_ID, p.alg_ID'\n            count_sql = 'SELECT count(DISTINCT ({key})) ' 'FROM Prime p WHERE {where};'\n            cursor.execute(count_sql.format(key=key, where=constraints), args)", 'R-C17-4'),
    V('key tuple built from reply temporaries', 'N', 'db/shelve/model.py', 'Interface.__to_key', 'vid = self._update_cmd(vn, sid, Table.value, None, sv[vn]._get_ver())[1]\n        return (runid, trgtid, tid, aid, sid, vid)', 'reply = self._update_cmd(vn, sid, Table.value, None, sv[vn]._get_ver())\n        vid = reply[1]\n        key = (runid, trgtid) + (tid, aid, sid, vid)\n        return key', None),
    V('key tuple through a temporary puts the target first', 'B', 'db/shelve/model.py', 'Interface.__to_key', 'return (runid, trgtid, tid, aid, sid, vid)', 'key = (trgtid, runid, tid, aid, sid, vid)\n        return key', 'R-C17-4'),
    # ---- R-C17-3
    V('_align with tasks/targets swapped', 'B', _SH, '_align', "'targets', 'tasks'", "'tasks', 'targets'", 'R-C17-3'),
    V('_table_index: algs looked up in the task table', 'B', _SH, '_table_index', "'algs': Table.alg", "'algs': Table.task", 'R-C17-3'),
    V('_table_index: field missing', 'B', _SH, '_table_index', "'vals': Table.value,", '', 'R-C17-3'),
    V('post table keyed with a typo again', 'B', _PO, None, "'vals': _SqlInfo", "'vaks': _SqlInfo", 'R-C17-3'),
    V('_align via Params._fields', 'N', _SH, '_align',
      "return { k: i for i, k in enumerate( ['runids', 'targets', 'tasks', 'algs', 'svs', 'vals'] ) }[param_name]",
      'return Params._fields.index(param_name)', None),
    V('_align as literal table', 'N', _SH, '_align',
      "return { k: i for i, k in enumerate( ['runids', 'targets', 'tasks', 'algs', 'svs', 'vals'] ) }[param_name]",
      "return {'runids': 0, 'targets': 1, 'tasks': 2, 'algs': 3, 'svs': 4, 'vals': 5}[param_name]", None),
    # ---- R-C17-4
    V('total counts the page', 'B', _SH, _FI, 'total=len(pks)', 'total=len(items)', 'R-C17-4'),
    V('value granularity', 'B', _SH, _PK, 'results.add(pk[:keylen])', 'results.add(pk)', 'R-C17-4'),
    V('matches not sorted', 'B', _SH, _PK, 'return sorted(results)', 'return list(results)', 'R-C17-4'),
    V('matches sorted descending', 'B', _SH, _PK, 'return sorted(results)', 'return sorted(results, reverse=True)', 'R-C17-4'),
    V('results kept in a list', 'B', _SH, _PK, 'results = set()', 'results = list()', 'R-C17-4'),
    V('task decoded from the algorithm slot', 'B', _SH, _FI, 'DBI().indices.task[pk[2]]', 'DBI().indices.task[pk[3]]', 'R-C17-4'),
    V('page re-sorted', 'B', _SH, _FI, 'return SearchResults(items=items', 'items.sort()\n        return SearchResults(items=items', 'R-C17-4'),
    V('post: order by target first', 'B', _PO, _FI, "'ORDER BY p.run_ID, p.tn_ID,", "'ORDER BY p.tn_ID, p.run_ID,", 'R-C17-4'),
    V('post: total from the page', 'B', _PO, _FI, 'return SearchResults(items, total)', 'return SearchResults(items, len(items))', 'R-C17-4'),
    V('total through a temporary', 'N', _SH, _FI, 'return SearchResults(items=items, total=len(pks))', 'n = len(pks)\n        return SearchResults(items=items, total=n)', None),
    V('explicit reverse=False', 'N', _SH, _PK, 'return sorted(results)', 'return sorted(results, reverse=False)', None),
    # ---- R-C17-5
    V('merge keeps the smaller stop', 'B', _BA, 'SearchFacade._scrub', 'r.stop > merged[-1].stop', 'r.stop < merged[-1].stop', 'R-C17-5'),
    V('merge forgets the open end', 'B', _BA, 'SearchFacade._scrub', 'elif r.stop is None or r.stop > merged[-1].stop:', 'elif r.stop is not None and r.stop > merged[-1].stop:', 'R-C17-5'),
    V('merge glues across a gap', 'B', _BA, 'SearchFacade._scrub', 'if r.start > merged[-1].stop:', 'if r.start > merged[-1].stop + 1:', 'R-C17-5'),
    V('absorption with closed upper end', 'B', _BA, 'SearchFacade._scrub', 'r.start <= i < (', 'r.start <= i <= (', 'R-C17-5'),
    V('absorption needs every range', 'B', _BA, 'SearchFacade._scrub', 'if not any(', 'if not all(', 'R-C17-5'),
    V('ranges not sorted before merging', 'B', _BA, 'SearchFacade._scrub', 'ranges.sort(key=lambda r: r.start)', 'pass', 'R-C17-5'),
    V('ranges sorted by stop', 'B', _BA, 'SearchFacade._scrub', 'ranges.sort(key=lambda r: r.start)', 'ranges.sort(key=lambda r: r.stop or 0)', 'R-C17-5'),
    V('Range closed at the top', 'B', _BA, 'Range.__contains__', 'self.start <= member < self.stop', 'self.start <= member <= self.stop', 'R-C17-5'),
    V('kept ids not returned', 'B', _BA, 'SearchFacade._scrub', 'runidset.extend(indices)', 'pass', 'R-C17-5'),
    V('adjacent ranges kept apart', 'N', _BA, 'SearchFacade._scrub', 'if r.start > merged[-1].stop:', 'if r.start >= merged[-1].stop:', None),
    V('open tail ends the merge', 'N', _BA, 'SearchFacade._scrub', 'if merged[-1].stop is None:\n                            continue', 'if merged[-1].stop is None:\n                            break', None),
    V('absorption through Range.__contains__', 'N', _BA, 'SearchFacade._scrub', 'r.start <= i < (i + 1 if r.stop is None else r.stop)', 'i in r', None),
    V('sorted() instead of sort()', 'N', _BA, 'SearchFacade._scrub', 'ranges.sort(key=lambda r: r.start)', 'ranges = sorted(ranges, key=lambda x: x.start)', None),
    # ---- R-C17-1 union of ids and ranges (truth table) / R-C17-5 seeded-style changes
    V('ids in the generic slot, ranges tested alone (intersection)', 'B', _SH, _PK, "rids.add(rid) rids.discard(-1) else: table = DBI().tables[_table_index(k)] for name in v: subtable = _subset(table, name) subvalues = subtable.values() if subtable else [-1] constraints[_align(k)].update(subvalues) for pk in prime_keys(DBI().tables.prime): runid = pk[_align('runids')] if (rids or ranges) and not ( runid in rids or any(runid in r for r in ranges) ): continue", "constraints[_align(k)].add(rid)\n                constraints[_align(k)].discard(-1)\n            else:\n                table = DBI().tables[_table_index(k)]\n                for name in v:\n                    subtable = _subset(table, name)\n                    subvalues = subtable.values() if subtable else [-1]\n                    constraints[_align(k)].update(subvalues)\n        for pk in prime_keys(DBI().tables.prime):\n            runid = pk[_align('runids')]\n            if ranges and not any(runid in r for r in ranges):\n                continue", 'R-C17-1'),
    V('run-id test uses and', 'B', _SH, _PK, 'runid in rids or any(runid in r for r in ranges)', 'runid in rids and any(runid in r for r in ranges)', 'R-C17-1'),
    V('run-id test skipped when only ranges are given', 'B', _SH, _PK, 'if (rids or ranges) and not (', 'if rids and not (', 'R-C17-1'),
    V('ranges ignored by the key filter', 'B', _SH, _PK, 'runid in rids or any(runid in r for r in ranges)', 'runid in rids or not ranges', 'R-C17-1'),
    V('union test: De Morgan', 'N', _SH, _PK, 'if (rids or ranges) and not ( runid in rids or any(runid in r for r in ranges) ): continue',
      'if (rids or ranges) and runid not in rids and all(runid not in r for r in ranges):\n                continue', None),
    V('union test: nested ifs', 'N', _SH, _PK, 'if (rids or ranges) and not ( runid in rids or any(runid in r for r in ranges) ): continue',
      'if rids or ranges:\n                if runid not in rids:\n                    if not any(runid in r for r in ranges):\n                        continue', None),
    V('union test: local flag', 'N', _SH, _PK, 'if (rids or ranges) and not ( runid in rids or any(runid in r for r in ranges) ): continue',
      'hit = runid in rids or any(runid in r for r in ranges)\n            if (len(rids) > 0 or ranges) and not hit:\n                continue', None),
    V('union test: single-expression helper', 'N', _SH, _PK, 'if (rids or ranges) and not ( runid in rids or any(runid in r for r in ranges) ): continue if all(not c or e in c for c, e in zip(constraints, pk)): results.add(pk[:keylen]) return sorted(results)',
      "if not self._runid_ok(runid, rids, ranges):\n                continue\n            if all(not c or e in c for c, e in zip(constraints, pk)):\n                results.add(pk[:keylen])\n        return sorted(results)\n\n    @staticmethod\n    def _runid_ok(runid, rids, ranges):\n        '''the run id expression is a union'''\n        return not (rids or ranges) or runid in rids or any(runid in r for r in ranges)\n", None),
    V('absorption as a comprehension', 'N', _BA, 'SearchFacade._scrub',
      'idx = [] for i in indices: if not any( r.start <= i < (i + 1 if r.stop is None else r.stop) for r in ranges ): idx.append(i)',
      'idx = [i for i in indices if not any(i in r for r in ranges)]', None),
    V('absorption comprehension with closed end', 'B', _BA, 'SearchFacade._scrub',
      'idx = [] for i in indices: if not any( r.start <= i < (i + 1 if r.stop is None else r.stop) for r in ranges ): idx.append(i)',
      'idx = [i for i in indices if not any(r.start <= i <= (i if r.stop is None else r.stop) for r in ranges)]', 'R-C17-5'),
    V('key filter as a set comprehension', 'N', _SH, _PK,
      "for pk in prime_keys(DBI().tables.prime): runid = pk[_align('runids')] if (rids or ranges) and not ( runid in rids or any(runid in r for r in ranges) ): continue if all(not c or e in c for c, e in zip(constraints, pk)): results.add(pk[:keylen])",
      'results = {\n            pk[:keylen]\n            for pk in prime_keys(DBI().tables.prime)\n            if (not (rids or ranges) or pk[0] in rids or any(pk[0] in r for r in ranges))\n            and all(not c or e in c for c, e in zip(constraints, pk))\n        }', None),
    V('key filter comprehension without the ranges', 'B', _SH, _PK,
      "for pk in prime_keys(DBI().tables.prime): runid = pk[_align('runids')] if (rids or ranges) and not ( runid in rids or any(runid in r for r in ranges) ): continue if all(not c or e in c for c, e in zip(constraints, pk)): results.add(pk[:keylen])",
      'results = {\n            pk[:keylen]\n            for pk in prime_keys(DBI().tables.prime)\n            if (not rids or pk[0] in rids)\n            and all(not c or e in c for c, e in zip(constraints, pk))\n        }', 'R-C17-1'),
    V('decode through an alias of the index group', 'N', _SH, _FI, 'tgt = dissect(DBI().indices.target[pk[1]])[1]', 'idx = DBI().indices\n            tgt = dissect(idx.target[pk[1]])[1]', None),
    V('decode after unpacking the key', 'N', _SH, _FI, 'tn = dissect(DBI().indices.task[pk[2]])[1]', '_r, _t, taskid, _a, _s = pk\n            tn = dissect(DBI().indices.task[taskid])[1]', None),
    V('decode after unpacking the key, wrong slot', 'B', _SH, _FI, 'tn = dissect(DBI().indices.task[pk[2]])[1]', '_r, _t, _k, taskid, _s = pk\n            tn = dissect(DBI().indices.task[taskid])[1]', 'R-C17-4'),
    V('merge: stop guard dropped (nested range truncates)', 'B', _BA, 'SearchFacade._scrub', 'elif r.stop is None or r.stop > merged[-1].stop:', 'else:', 'R-C17-5'),
]
