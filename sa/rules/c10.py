"""C10  Life-cycle follows the documented state machine and always returns to rest."""

import ast

from .. import AnalysisError
from ..dot import edges_of
from ..flow import Flow, Tracked
from ..report import Report
from ..util import where, norm, call_name, arg
from ..variants import V

PID = 'C10'
FSM = 'dawgie.pl.state.FSM'
REST = ('running', 'gitting')

# the documented life cycle (property statement): start, load, introspect, run; submit and back; archive and back to
# where it came from; update, archive, refresh
DOCUMENTED = {
    ('starting', 'starting_trigger', 'loading'),
    ('loading', 'contemplation_trigger', 'contemplation'),
    ('contemplation', 'running_trigger', 'running'),
    ('running', 'gitting_trigger', 'gitting'),
    ('gitting', 'running_trigger', 'running'),
    ('running', 'archiving_trigger', 'archiving'),
    ('archiving', 'running_trigger', 'running'),
    ('running', 'update_trigger', 'updating'),
    ('updating', 'loading_trigger', 'loading'),
    ('updating', 'archiving_trigger', 'archiving'),
    ('archiving', 'updating_trigger', 'updating'),
}

UNK = ('?', '?', '?', (), '?')


class Machine:
    """composition of state.dot with the FSM class (DESIGN B.9)"""

    def __init__(self, ctx, rule):
        self.ctx = ctx
        self.prog = ctx.prog
        self.edges = edges_of(ctx.prog)
        self.rule = rule
        self.cls = self.prog.cls(FSM)
        self.by_trigger = {}
        for e in self.edges:
            self.by_trigger.setdefault(e.get('trigger'), []).append(e)
        self.problems = []  # (key, where, msg)
        self.depth = 0
        self.fired = 0
        self.configs = set()
        # exception semantics (used by R-C10-7): a MachineError / setter error aborts the running chain; the configuration
        # reached so far stays and is collected in `raised`
        self.raise_mode = False
        self.raised = set()

    def throw(self, cfg):
        self.raised.add(cfg)
        return set()

    def problem(self, key, wh, msg):
        if (key, wh) not in {(k, w) for k, w, _m in self.problems}:
            self.problems.append((key, wh, msg))

    def is_trigger(self, name):
        return name in self.by_trigger

    def method(self, name):
        return self.prog.method(FSM, name)

    # -- a trigger is fired in configuration cfg at `site` (text); returns set of configurations when the call returns
    def fire(self, cfg, trig, site, wh):
        state, trans, prior, pend, dt = cfg
        self.fired += 1
        self.log = getattr(self, 'log', set())
        self.log.add((state, trig, site, wh))
        if state == '?':
            self.problem(f'{site}', wh, f'{trig}() is fired without an established life-cycle state (no dominating is_pipeline_active() / state test and no earlier stage of the same chain establishes it): it is accepted in whatever state the machine happens to be in, or raises MachineError')
            return {cfg}
        es = [e for e in self.by_trigger.get(trig, []) if e.get('source') == state]
        if trig not in self.by_trigger:
            self.problem(f'{site}', wh, f'{trig} is not a trigger of the state machine (state.dot)')
            return {cfg}
        if not es:
            self.problem(f'{site}', wh, f'{trig}() is fired in state {state}, where it is not allowed (sources: {sorted(e.get("source") for e in self.by_trigger[trig])}): the library raises MachineError')
            return self.throw(cfg) if self.raise_mode else {cfg}
        self.depth += 1
        if self.depth > 40:
            self.depth -= 1
            self.problem(f'{site}:unbounded', wh, 'trigger chain does not settle (more than 40 nested transitions)')
            return {cfg}
        e = es[0]
        cfgs = {cfg}
        for cb in filter(None, [e.get('before')]):
            cfgs = self.callback(cfgs, cb, f'before={cb} of {e.src}->{e.dst}')
        cfgs = {(e.get('dest'), t, p, pd, d5) for (_s, t, p, pd, d5) in cfgs}
        for cb in filter(None, [e.get('after')]):
            cfgs = self.callback(cfgs, cb, f'after={cb} of {e.src}->{e.dst}')
        self.depth -= 1
        return cfgs

    def callback(self, cfgs, name, what):
        out = set()
        for c in cfgs:
            if self.is_trigger(name):
                out |= self.fire(c, name, f'state.dot:{what}', 'pl/state.dot')
            else:
                m = self.method(name)
                if m is None:
                    self.problem(f'state.dot:{what}', 'pl/state.dot', f'callback {name} is neither a method of FSM nor a trigger')
                    out.add(c)
                else:
                    out |= self.run(m, c)
        return out

    def run(self, func, cfg):
        """run a function body from cfg; returns configurations at its exits"""
        self.configs.add(cfg[:3])
        from ..inline import normalised

        func = normalised(self.prog, func)  # newly extracted helpers (e.g. a shared "defer this step" method) are analysed in place
        ex = _Exec(self, func)
        o = ex.run(func.node, cfg)
        if self.raise_mode:
            return o.normal | o.ret
        return (o.normal | o.ret) or {cfg}

    def settle(self, cfgs):
        """run pending deferred continuations until none is left"""
        out = set()
        todo = list(cfgs)
        seen = set()
        while todo:
            c = todo.pop()
            if c in seen:
                continue
            seen.add(c)
            if len(seen) > 400:
                self.problem('settle:unbounded', 'pl/state.py', 'deferred continuations do not settle')
                break
            state, trans, prior, pend, dt = c
            if not pend:
                out.add(c)
                continue
            self.inter = getattr(self, 'inter', set())
            self.inter.add(c)  # the reactor is free here while a background step is outstanding
            q = pend[0]
            f = self.prog.funcs.get(q)
            rest = (state, trans, prior, pend[1:], dt)
            if f is None:
                todo.append(rest)
            else:
                r0 = set(self.raised)
                todo.extend(self.run(f, rest))
                # an exception inside a deferred step is swallowed at the Deferred boundary (errback logs): the
                # configuration reached when it was raised stays, later steps still run
                todo.extend(self.raised - r0)
        return out


class _Exec(Tracked):
    """abstract execution of one function: state = (fsm state, transitioning, prior, pending continuations)"""

    def __init__(self, machine, func):
        super().__init__()
        self.m = machine
        self.prog = machine.prog
        self.f = func
        self.infsm = func.cls is not None and func.cls.qname == FSM

    # ---- helpers
    def _fsm_expr(self, e):
        """does the expression denote the FSM instance?"""
        if isinstance(e, ast.Name) and e.id == 'self' and self.infsm:
            return True
        sym = self.prog.resolve_in(e, self.f) if isinstance(e, (ast.Name, ast.Attribute)) else None
        return sym in ('dawgie.context.fsm', FSM)

    def _site(self, node):
        q = self.f.qname
        if self.f.parent is not None:
            # the name of a local closure is not part of the construct's identity (renaming it must not change the key)
            q = self.f.parent.qname + '.<locals>.<callback>'
        return f'{q}:{norm(node)}'

    def t_test(self, e, st):
        state, trans, prior, pend, dt = st
        if isinstance(e, ast.Attribute) and e.attr == '_FSM__doctest':
            # the doctest switch is a constant of the FSM instance: one value for the whole exploration
            if dt == '?':
                return ((state, trans, prior, pend, True),), ((state, trans, prior, pend, False),)
            return ((st,), ()) if dt else ((), (st,))
        if isinstance(e, ast.Call):
            sym = self.prog.resolve_in(e.func, self.f) or ''
            if sym == FSM + '.is_pipeline_active':
                if state == '?':
                    return (('running', 'active', prior, pend, dt),), (st,)
                v = state == 'running' and trans == 'active'
                return ((st,), ()) if v else ((), (st,))
            g = self.prog.func_of(sym)
            if g is not None and guard_summary(self.m, g):
                if state == '?':
                    return (('running', 'active', prior, pend, dt),), (st,)
                v = state == 'running' and trans == 'active'
                return ((st,), ()) if v else ((), (st,))
        if isinstance(e, ast.Compare) and len(e.ops) == 1 and isinstance(e.comparators[0], ast.Constant) and isinstance(e.comparators[0].value, str):
            l = e.left
            if isinstance(l, ast.Attribute) and l.attr == 'state' and self._fsm_expr(l.value):
                lit = e.comparators[0].value
                eq = isinstance(e.ops[0], (ast.Eq, ast.Is))
                if state == '?':
                    known = (lit, 'active' if lit in REST else '?', prior, pend, dt)
                    return ((known,), (st,)) if eq else ((st,), (known,))
                v = (state == lit) == eq
                return ((st,), ()) if v else ((), (st,))
        return (st,), (st,)

    def t_stmt(self, s, st):
        state, trans, prior, pend, dt = st
        if isinstance(s, ast.Assign) and len(s.targets) == 1:
            t = s.targets[0]
            if isinstance(t, ast.Attribute) and t.attr == 'transitioning' and self._fsm_expr(t.value):
                new = norm(s.value).rsplit('.', 1)[-1]
                if new in ('entering', 'exiting') and trans not in ('active', '?'):
                    self.m.problem(self._site(s), where(self.f, s), f'transitioning is set to {new} while it is {trans} (state {state}): the setter raises MachineError and the chain stops here')
                    if self.m.raise_mode:
                        return tuple(self.m.throw(st))
                return ((state, new, prior, pend, dt),)
            if isinstance(t, ast.Attribute) and t.attr.endswith('__prior') and self._fsm_expr(t.value):
                v = s.value
                if isinstance(v, ast.Attribute) and v.attr == 'state':
                    return ((state, trans, state, pend, dt),)
                if isinstance(v, ast.Constant):
                    return ((state, trans, v.value if v.value is not None else '?', pend, dt),)
                return ((state, trans, '?', pend, dt),)
            if isinstance(t, (ast.Attribute, ast.Name)) and (self.prog.resolve_in(t, self.f) or '') == 'dawgie.context.fsm':
                if isinstance(s.value, ast.Call) and self.prog.resolve_in(s.value.func, self.f) == FSM:
                    return (('starting', 'active', '?', (), dt),)
        return (st,)

    def t_call(self, call, st):
        state, trans, prior, pend, dt = st
        f = call.func
        # dynamic trigger: getattr(self, self.__prior + '_trigger')()
        if isinstance(f, ast.Call) and isinstance(f.func, ast.Name) and f.func.id == 'getattr' and len(f.args) >= 2:
            name = f.args[1]
            if isinstance(name, ast.Name):
                # the trigger name held in a temporary: follow its single definition in this function
                defs = [d.value for d in self.f.own_nodes() if isinstance(d, ast.Assign) and any(isinstance(t, ast.Name) and t.id == name.id for t in d.targets)]
                if len(defs) == 1:
                    name = defs[0]
            if isinstance(name, ast.JoinedStr) and len(name.values) == 2 and isinstance(name.values[0], ast.FormattedValue) and isinstance(name.values[1], ast.Constant):
                # f'{self.__prior}_trigger'
                name = ast.BinOp(left=name.values[0].value, op=ast.Add(), right=name.values[1])
            if isinstance(name, ast.BinOp) and isinstance(name.right, ast.Constant) and name.right.value == '_trigger' and isinstance(name.left, ast.Attribute) and name.left.attr.endswith('__prior'):
                if prior in ('?', None):
                    self.m.problem(self._site(call), where(self.f, call), 'the computed trigger <prior>_trigger is fired while no prior state was saved (save_prior_state did not run on the edge into archiving)')
                    return tuple(self.m.throw(st)) if self.m.raise_mode else (st,)
                self.m.computed = getattr(self.m, 'computed', set())
                self.m.computed.add(self._site(call))  # this site derives the trigger from the saved prior state
                return tuple(self.m.fire(st, prior + '_trigger', self._site(call), where(self.f, call)))
            self.m.problem(self._site(call), where(self.f, call), f'computed trigger name {norm(name)} not understood')
            return (st,)
        if isinstance(f, ast.Name):
            # call of a local closure (done()) or module function that fires triggers
            tgt = self.prog.func_of(self.prog.resolve_in(f, self.f) or '')
            if tgt is not None and tgt.qname in self.m.firing and tgt.parent is not None:
                return tuple(self.m.run(tgt, st))
            return (st,)
        if not isinstance(f, ast.Attribute):
            return (st,)
        sym = self.prog.resolve_in(f, self.f) or ''
        name = f.attr
        # deferred continuations
        if name == 'deferToThread' and call.args:
            tgt = self.prog.resolve_in(call.args[0], self.f)
            fn = self.prog.func_of(tgt)
            if fn is not None:
                return ((state, trans, prior, pend + (fn.qname,), dt),)
            return (st,)
        if name in ('addCallbacks', 'addCallback', 'addBoth') and call.args:
            tgt = self.prog.resolve_in(call.args[0], self.f)
            fn = self.prog.func_of(tgt)
            if fn is not None and ((fn.parent is not None and fn.parent.qname == self.f.qname) or (fn.cls is not None and fn.cls.qname == FSM)) and pend:
                return ((state, trans, prior, pend + (fn.qname,), dt),)
            return (st,)
        if self._fsm_expr(f.value) or sym == FSM + '.' + name:
            if name.endswith('_trigger'):
                return tuple(self.m.fire(st, name, self._site(call), where(self.f, call)))
            m = self.prog.method(FSM, name)
            if m is not None and m.qname in self.m.firing:
                return tuple(self.m.run(m, st))
            return (st,)
        # a repository function that receives an FSM callback and calls it (db.archive(self._archive_done))
        for a in call.args:
            if isinstance(a, ast.Lambda) and isinstance(a.body, ast.Call) and isinstance(a.body.func, ast.Attribute) and not a.body.args:
                a = a.body.func  # lambda: self._archive_done()
            if isinstance(a, ast.Attribute) and self._fsm_expr(a.value):
                cb = self.prog.method(FSM, a.attr)
                if cb is not None and cb.qname in self.m.firing:
                    return tuple(self.m.run(cb, st))
        return (st,)


_GUARDS = {}


def guard_summary(machine, g):
    """True when every `return True` of g is reached only after is_pipeline_active() was true"""
    if g.qname in _GUARDS:
        return _GUARDS[g.qname]
    _GUARDS[g.qname] = False
    if g.cls is not None and g.cls.qname == FSM:
        return False
    rets = []

    class G(_Exec):
        def t_return(s, node, st):
            rets.append((node, st))
            return (st,)

        def t_call(s, call, st):
            return (st,)

    if not any(isinstance(n, ast.Call) and (machine.prog.resolve_in(n.func, g) or '') == FSM + '.is_pipeline_active' for n in g.own_nodes()):
        return False
    ex = G(machine, g)
    ex.run(g.node, UNK)
    truthy = [(n, st) for n, st in rets if isinstance(n.value, ast.Constant) and n.value.value is True]
    ok = bool(truthy) and all(st[0] == 'running' and st[1] == 'active' for _n, st in truthy) and all(isinstance(n.value, ast.Constant) for n, _s in rets)
    _GUARDS[g.qname] = ok
    return ok


def _firing_methods(ctx):
    """FSM methods (and closures) that fire a trigger, directly or through other FSM functions"""
    prog, cg = ctx.prog, ctx.cg
    direct = set()
    for q, fn in prog.funcs.items():
        if fn.cls is not None and fn.cls.qname == FSM:
            for c in fn.calls():
                if isinstance(c.func, ast.Attribute) and c.func.attr.endswith('_trigger'):
                    direct.add(q)
                if isinstance(c.func, ast.Call) and isinstance(c.func.func, ast.Name) and c.func.func.id == 'getattr':
                    direct.add(q)
    firing = set(direct)
    changed = True
    while changed:
        changed = False
        for q, fn in prog.funcs.items():
            if q in firing or not (fn.cls is not None and fn.cls.qname == FSM):
                continue
            for e in cg.callees(q):
                if e.dst in firing:
                    firing.add(q)
                    changed = True
                    break
    return firing


def rule1(ctx, rep, M):
    prog = ctx.prog
    with rep.rule(
        'R-C10-1',
        'edge table of state.dot equals the documented life cycle; callbacks exist; every trigger fired anywhere exists; every edge into archiving saves the prior state and the way back is computed from it',
        floor=11,
        breaks='the machine moves along an undocumented transition, or an archive does not return to where it came from',
    ) as r:
        got = {(e.get('source'), e.get('trigger'), e.get('dest')) for e in M.edges}
        for t in sorted(DOCUMENTED | got):
            r.instance()
            r.check(
                t in DOCUMENTED and t in got,
                f'state.dot:{t[0]}-{t[1]}->{t[2]}',
                'pl/state.dot',
                'documented edge present',
                f'edge {t} is ' + ('not in the documented life cycle' if t in got else 'missing from state.dot'),
                nontrivial=False,
            )
        for e in M.edges:
            if e.src != e.get('source') or e.dst != e.get('dest'):
                r.fail(f'state.dot:{e.src}->{e.dst}:attrs', f'pl/state.dot:{e.line}', f'edge drawn {e.src}->{e.dst} but declared source={e.get("source")} dest={e.get("dest")}')
            for k in ('before', 'after'):
                cb = e.get(k)
                if cb:
                    r.instance()
                    r.check(M.is_trigger(cb) or M.method(cb) is not None, f'state.dot:{e.src}->{e.dst}:{k}={cb}', f'pl/state.dot:{e.line}', 'callback resolves', f'{k}={cb} is neither an FSM method nor a trigger', nontrivial=False)
            if e.get('dest') == 'archiving':
                r.instance()
                r.check(
                    e.get('before') == 'save_prior_state',
                    f'state.dot:{e.src}->archiving:before',
                    f'pl/state.dot:{e.line}',
                    'before=save_prior_state',
                    f'the edge {e.src} -> archiving has before={e.get("before")}: the state to return to is not saved, so the archive returns to a stale or undefined state',
                )
        # every trigger fired anywhere in the repository exists
        n = 0
        for fn in prog.funcs.values():
            for c in fn.calls():
                if isinstance(c.func, ast.Attribute) and c.func.attr.endswith('_trigger'):
                    sym = prog.resolve_in(c.func, fn) or ''
                    if sym.startswith(FSM + '.') or sym.startswith('dawgie.context.fsm'):
                        n += 1
                        r.instance()
                        r.check(M.is_trigger(c.func.attr), f'{fn.qname}:{norm(c)}', where(fn, c), 'trigger exists', f'{c.func.attr} is not a trigger of state.dot', nontrivial=False)
        r.extra['trigger_call_sites'] = n
        if n < 15:
            raise AnalysisError(f'only {n} trigger call sites found (expected about 20)')
        # save_prior_state stores the current state; nothing else writes it (besides the constructor's None)
        sp = prog.func(FSM + '.save_prior_state')
        rep.analysed(sp)
        writers = []
        for fn in prog.funcs.values():
            for s in fn.own_nodes():
                if isinstance(s, ast.Assign) and any(isinstance(t, ast.Attribute) and t.attr == '_FSM__prior' for t in s.targets):
                    writers.append((fn, s))
        r.instance()
        okw = all(
            (fn.qname == sp.qname and isinstance(s.value, ast.Attribute) and s.value.attr == 'state')
            or (fn.qname == FSM + '.__init__' and isinstance(s.value, ast.Constant) and s.value.value is None)
            for fn, s in writers
        ) and any(fn.qname == sp.qname for fn, _s in writers)
        r.check(okw, f'{FSM}:prior-writers', where(sp), 'prior written only by save_prior_state (= self.state) and initialised to None', f'the saved prior state is written by {[(fn.qname, norm(s)) for fn, s in writers]}')


def rule234(ctx, rep, M):
    prog, cg = ctx.prog, ctx.cg
    r2 = rep.rule('R-C10-2', 'typestate at trigger sites: every trigger is fired in a state that is among its sources (callbacks: composed machine; external sites: dominated by a state test or established earlier in the same chain)', floor=8, breaks='a trigger is rejected with MachineError in the middle of a chain, or accepted in a state in which a background step is still outstanding')
    r3 = rep.rule('R-C10-3', 'transitioning protocol: entering/exiting is only set from active, and every chain is back at active before the next trigger and at rest', floor=4, breaks='the setter raises and the chain stops half way; the pipeline never declares itself active again')
    r4 = rep.rule('R-C10-4', 'return to rest: every accepted external trigger ends, after its deferred steps, in running or gitting with transitioning active and no step outstanding', floor=5, breaks='the pipeline stays for ever in loading / contemplation / archiving / updating')
    with r2, r3, r4:
        # ---- external entry points
        roots = []
        for q, fn in sorted(prog.funcs.items()):
            fires = False
            for c in fn.calls():
                if isinstance(c.func, ast.Attribute):
                    sym = prog.resolve_in(c.func, fn) or ''
                    if c.func.attr.endswith('_trigger') and (sym.startswith(FSM) or 'context.fsm' in sym):
                        fires = True
                    m = prog.func_of(sym)
                    if m is not None and m.qname in M.firing and not (fn.cls is not None and fn.cls.qname == FSM):
                        fires = True
            if not fires:
                continue
            in_fsm = fn.cls is not None and fn.cls.qname == FSM
            if in_fsm:
                # closures that complete a *poller* run at an arbitrary later time: external entry
                if fn.parent is not None and fn.parent.name.startswith('wait_for_'):
                    roots.append(fn)
                continue
            roots.append(fn)
        # submit chains: step_3 may be registered in several Deferred chains of one Process life
        step_regs = {}
        for fn in prog.funcs.values():
            for c in fn.calls():
                if call_name(c) in ('addCallback', 'addCallbacks') and c.args:
                    t = prog.func_of(prog.resolve_in(c.args[0], fn) or '')
                    if t is None and isinstance(c.args[0], ast.Attribute):
                        # self.__process.step_3 : resolve by attribute name within the same module's Process class
                        cand = prog.classes.get(fn.module.name + '.Process')
                        if cand is not None and c.args[0].attr in cand.methods:
                            t = cand.methods[c.args[0].attr]
                    if t is not None and t.name.startswith('step_'):
                        step_regs.setdefault(t.qname, []).append((fn, c))
        entry_override = {}
        for q, regs in step_regs.items():
            fn = prog.funcs[q]
            if fn.name == 'step_1':
                continue
            # entered after step_1 succeeded: state gitting
            entry_override[q] = ('gitting', 'active', '?', (), '?')
        seen_sites = 0
        for fn in roots:
            rep.analysed(fn)
            before = len(M.problems)
            entry = entry_override.get(fn.qname, UNK)
            runs = len(step_regs.get(fn.qname, [])) or 1
            cfgs = {entry}
            finals = set()
            for _i in range(runs):
                nxt = set()
                for c in cfgs:
                    outs = M.settle(M.run(fn, c))
                    nxt |= outs
                cfgs = nxt
                finals |= nxt
            seen_sites += 1
            new = M.problems[before:]
            r2.instance()
            if not new:
                r2.ok(f'{fn.qname}:trigger-sites', 'every trigger fired here is legal in the state established at the site', where(fn))
            # rest check: whenever a transition was accepted the chain must end at rest
            r4.instance()
            bad = sorted({(s, t) for (s, t, _p, pd, _d) in finals if s != '?' and (s not in REST or t != 'active' or pd)})
            r4.check(
                not bad,
                f'{fn.qname}:returns-to-rest',
                where(fn),
                f'all chains started here end in {sorted({s for s, *_ in finals})}',
                f'a chain started from {fn.qname} ends in {bad} (state, transitioning): the pipeline is not at rest once its background steps completed',
            )
        del M.problems[:0]
        # boot chain and every documented external trigger from its rest state (composed machine exploration)
        for (src, trig), dtv in [(x, y) for x in (('starting', 'starting_trigger'), ('running', 'archiving_trigger'), ('running', 'update_trigger'), ('running', 'gitting_trigger'), ('gitting', 'running_trigger')) for y in (False, True)]:
            r4.instance()
            before = len(M.problems)
            finals = M.settle(M.fire((src, 'active', '?', (), dtv), trig, f'machine:{src}.{trig}', 'pl/state.dot'))
            bad = sorted({(s, t, bool(pd)) for (s, t, _p, pd, _d) in finals if s not in REST or t != 'active' or pd})
            r4.check(
                not bad and bool(finals),
                f'machine:{src}.{trig}[doctest={dtv}]:returns-to-rest',
                'pl/state.dot',
                f'{src} --{trig}--> ... ends in {sorted({s for s, *_ in finals})} with transitioning active',
                f'accepted trigger {trig} from {src} can end in {bad} (state, transitioning, step outstanding)',
            )
        r4.extra['configurations_explored'] = len(M.configs)
        r4.extra['transitions_fired'] = M.fired
        # leaving archiving: "back to where it came from" -- only through the trigger computed from the saved prior state
        r1x = rep.rules[0]
        for state, trig, site, wh in sorted(getattr(M, 'log', set())):
            if state == 'archiving':
                r1x.instance()
                r1x.check(
                    site in getattr(M, 'computed', set()),
                    f'{site}:leaves-archiving',
                    wh,
                    'archiving is left through <saved prior>_trigger',
                    f'{trig}() leaves archiving from a site that does not compute the trigger from the saved prior state ({site}): an archive that interrupted an update would not return to updating',
                )
        # report machine problems under the right rule
        for key, wh, msg in M.problems:
            if 'transitioning is set' in msg:
                r3.instance()
                r3.fail(key, wh, msg)
            else:
                r2.instance()
                r2.fail(key, wh, msg)
        # R-C10-3 positive obligations: every method that sets entering/exiting
        for q in sorted(prog.funcs):
            fn = prog.funcs[q]
            if not (fn.cls is not None and fn.cls.qname == FSM):
                continue
            sets = [s for s in fn.own_nodes() if isinstance(s, ast.Assign) and any(isinstance(t, ast.Attribute) and t.attr == 'transitioning' for t in s.targets)]
            if sets and fn.name != 'transitioning':
                r3.instance()
                r3.ok(f'{q}:transitioning-writes', f'{len(sets)} write(s) interpreted in the composed machine', where(fn))
        # the setter itself: the composed machine above *assumes* that asking for entering / exiting raises unless the
        # marker is active; here the guard written in the property setter is evaluated for all 3 x 3 (requested, current)
        # pairs (added after seeded change C10-9, which let "the status already held" through: reload marks itself
        # exiting, so the refusing before-callbacks - which ask for exiting - no longer refused during a reload)
        r3.instance()
        setter = None
        for q_, fn_ in prog.funcs.items():
            if fn_.cls is not None and fn_.cls.qname == FSM and fn_.name == 'transitioning' and len(fn_.params()) == 2:
                setter = fn_
        if setter is None:
            raise AnalysisError('FSM.transitioning setter not found')
        rep.analysed(setter)
        req_name = setter.params()[1]
        VALS = ('active', 'entering', 'exiting')

        class _NU2(Exception):
            pass

        def sval(e, req, cur):
            if isinstance(e, ast.Name) and e.id == req_name:
                return req
            if isinstance(e, ast.Attribute) and e.attr in ('transitioning', '_FSM__transitioning') and isinstance(e.value, ast.Name) and e.value.id == 'self':
                return cur
            if isinstance(e, ast.Attribute) and e.attr in VALS:
                return e.attr
            if isinstance(e, (ast.Tuple, ast.List, ast.Set)):
                return tuple(sval(x, req, cur) for x in e.elts)
            if isinstance(e, ast.Name) and _local_def(e.id) is not None:
                return sval(_local_def(e.id), req, cur)
            raise _NU2(norm(e))

        def _local_def(name):
            defs = [d.value for d in setter.own_nodes() if isinstance(d, ast.Assign) and any(isinstance(t, ast.Name) and t.id == name for t in d.targets)]
            return defs[0] if len(defs) == 1 else None

        def struth(e, req, cur):
            if isinstance(e, ast.Name) and e.id != req_name and _local_def(e.id) is not None:
                return struth(_local_def(e.id), req, cur)  # a named sub-condition bound once in the setter
            if isinstance(e, ast.BoolOp):
                vals = [struth(v, req, cur) for v in e.values]
                return all(vals) if isinstance(e.op, ast.And) else any(vals)
            if isinstance(e, ast.UnaryOp) and isinstance(e.op, ast.Not):
                return not struth(e.operand, req, cur)
            if isinstance(e, ast.Compare) and len(e.ops) == 1:
                a, b = sval(e.left, req, cur), sval(e.comparators[0], req, cur)
                op = e.ops[0]
                if isinstance(op, (ast.Eq, ast.Is)):
                    return a == b
                if isinstance(op, (ast.NotEq, ast.IsNot)):
                    return a != b
                if isinstance(op, ast.In):
                    return a in b
                if isinstance(op, ast.NotIn):
                    return a not in b
            raise _NU2(norm(e))

        guards = [n for n in setter.own_nodes() if isinstance(n, ast.If) and any(isinstance(x, ast.Raise) for b in n.body for x in ast.walk(b))]
        wrong = []
        try:
            for req in VALS:
                for cur in VALS:
                    raises = any(struth(g.test, req, cur) for g in guards)
                    want = req in ('entering', 'exiting') and cur != 'active'
                    if raises != want:
                        wrong.append((req, cur, raises))
            r3.check(
                bool(guards) and not wrong,
                f'{setter.qname}:guard',
                where(setter),
                'raises exactly when entering / exiting is requested while the marker is not active (9 pairs)',
                f'the transitioning setter raises for (requested, current) = {[(a, b) for a, b, c in wrong if c]} and not for {[(a, b) for a, b, c in wrong if not c]}; it must refuse exactly entering / exiting while not active, which is what the refusing before-callbacks rely on',
            )
        except _NU2 as e_:
            r3.fail(f'{setter.qname}:guard', where(setter), f'guard of the transitioning setter not understood: {e_}')
        # the transitioning marker is set before the step is handed to the thread pool: the worker may finish (and, for the
        # archive, run _archive_done in its own thread) before the launching method executes its next statement (added after
        # seeded change C10-7: `transitioning = entering` moved behind deferToThread in FSM.archive)
        for q in sorted(prog.funcs):
            fn = prog.funcs[q]
            if not (fn.cls is not None and fn.cls.qname == FSM and fn.parent is None):
                continue
            g = prog.nfunc(q)
            if not any(isinstance(c.func, ast.Attribute) and c.func.attr == 'deferToThread' for c in g.calls()):
                continue
            late = []

            class Ord(Flow):
                def on_call(s, call, st):
                    if isinstance(call.func, ast.Attribute) and call.func.attr == 'deferToThread':
                        return ('handed',)
                    return (st,)

                def on_stmt(s, node, st):
                    if st == 'handed' and isinstance(node, ast.Assign) and any(isinstance(t, ast.Attribute) and t.attr == 'transitioning' for t in node.targets):
                        late.append(node)
                    return (st,)

            Ord().run(g.node, 'pre')
            r3.instance()
            r3.check(
                not late,
                f'{q}:marker-before-handover',
                where(g, late[0] if late else None),
                'transitioning is written only before deferToThread',
                f'{q} writes transitioning ({norm(late[0]) if late else ""}) after the step was handed to the thread pool: if the worker finishes first the marker is set after the chain already returned to rest and is never cleared',
            )
        # deferring callbacks never belong to an edge into a rest state
        for e in M.edges:
            cb = e.get('after')
            m = M.method(cb) if cb else None
            if m is not None and any(x.kind == 'thread' for x in cg.callees(m.qname)):
                r4.instance()
                r4.check(e.get('dest') not in REST, f'state.dot:{e.src}->{e.dst}:deferred-after', f'pl/state.dot:{e.line}', 'deferred step on an edge into a non-rest state', f'after={cb} defers work but the edge enters the rest state {e.get("dest")}: external triggers would be accepted while the step is outstanding')


def _first_effect(fn):
    """first statement of a method that is not a docstring / print / log call"""
    for st in fn.node.body:
        if isinstance(st, ast.Expr) and isinstance(st.value, ast.Constant):
            continue
        if isinstance(st, ast.Expr) and isinstance(st.value, ast.Call) and (call_name(st.value) in ('print', 'debug', 'info', 'warning') or norm(st.value).startswith('log.')):
            continue
        return st
    return None


def rule7(ctx, rep, M):
    """triggers that arrive while a background step is outstanding (the quantifier of the property: every sequence of
    triggers from every reachable state, steps completing in every order relative to later triggers).  Added after seeded
    change C10-4, which removed the exiting/active flip from FSM.reset: that flip is what refuses a refresh while the
    reload is still running."""
    with rep.rule(
        'R-C10-7',
        'while a background step is outstanding every trigger of the machine is either refused before any effect (the before-callback of its edge starts with the transitioning setter, which raises unless active) or, if accepted, the machine still settles at rest once all steps completed',
        floor=6,
        breaks='a trigger arriving during load / reload / archive / introspection is accepted, the outstanding step then fires its own continuation from the wrong state (MachineError) and the pipeline never declares itself active again',
    ) as r:
        def _is_step(q):
            # the background steps of the property are load / reload / archive / introspection; the submit pollers
            # (wait_for_* / is_*_done) are covered by R-C10-2 at their completion callbacks
            fn = ctx.prog.funcs.get(q)
            return not (fn is not None and (fn.name.startswith('is_') or (fn.parent is not None and fn.parent.name.startswith('wait_for_'))))

        inter = sorted((c for c in getattr(M, 'inter', set()) if all(_is_step(q) for q in c[3])), key=str)
        if not inter:
            raise AnalysisError('no configuration with an outstanding background step was reached by the exploration')
        verdicts = {}
        for c in inter:
            state, trans, prior, pend, dt = c
            for trig in sorted(M.by_trigger):
                es = [e for e in M.by_trigger[trig] if e.get('source') == state]
                if not es:
                    continue
                e = es[0]
                P = Machine(ctx, None)
                P.firing = M.firing
                P.raise_mode = True
                cfgs = {c}
                bcb = e.get('before')
                key = (state, trans, trig)
                v = verdicts.setdefault(key, {'line': e.line, 'bad': []})
                if bcb:
                    cfgs = P.callback(cfgs, bcb, f'before={bcb} of {e.src}->{e.dst}')
                    if P.raised:
                        # refused by the before-callback: the raise must be its first effect
                        meth = P.method(bcb)
                        fe = _first_effect(meth) if meth is not None else None
                        clean = fe is not None and isinstance(fe, ast.Assign) and any(isinstance(t, ast.Attribute) and t.attr == 'transitioning' for t in fe.targets)
                        if not clean:
                            v['bad'].append(f'refused by before={bcb}, but only after other statements of that callback already ran')
                        if not cfgs:
                            continue
                cfgs = {(e.get('dest'), t, p_, pd, d5) for (_s, t, p_, pd, d5) in cfgs}
                acb = e.get('after')
                if acb:
                    r0 = set(P.raised)
                    cfgs = P.callback(cfgs, acb, f'after={acb} of {e.src}->{e.dst}')
                    late = P.raised - r0
                    if late:
                        v['bad'].append(f'accepted (no refusing before-callback on {e.src}->{e.dst}): the state changes to {e.get("dest")} and then after={acb} raises ({P.problems[-1][2][:120]})')
                    cfgs |= late
                finals = P.settle(cfgs)
                notrest = sorted({(s_, t) for (s_, t, _p, pd, _d) in finals if s_ not in REST or t != 'active' or pd})
                if notrest:
                    v['bad'].append(f'accepted on {e.src}->{e.dst}; once every outstanding step completed the machine is left in {notrest} (state, transitioning), not at rest')
        for (state, trans, trig), v in sorted(verdicts.items()):
            r.instance()
            r.check(
                not v['bad'],
                f'machine:{state}/{trans}.{trig}:while-step-outstanding',
                f'pl/state.dot:{v["line"]}',
                'refused before any effect, or settles at rest',
                f'{trig} arriving in {state} while transitioning is {trans} (a background step is outstanding) is ' + v['bad'][0] if v['bad'] else '',
            )


def rule5(ctx, rep):
    prog = ctx.prog
    f = prog.func(FSM + '.is_pipeline_active')
    rep.analysed(f)
    with rep.rule('R-C10-5', "activity predicate is exactly state == 'running' and transitioning == active", floor=1, breaks='the pipeline declares itself active while entering/exiting a state or outside running') as r:
        r.instance()
        rets = [n for n in f.own_nodes() if isinstance(n, ast.Return)]
        ok = False
        if len(rets) == 1 and rets[0].value is not None:
            e = rets[0].value
            # truth table over (state is running, transitioning is active)
            def ev(x, a, b):
                if isinstance(x, ast.BoolOp):
                    vs = [ev(v, a, b) for v in x.values]
                    if None in vs:
                        return None
                    return all(vs) if isinstance(x.op, ast.And) else any(vs)
                if isinstance(x, ast.UnaryOp) and isinstance(x.op, ast.Not):
                    v = ev(x.operand, a, b)
                    return None if v is None else not v
                if isinstance(x, ast.Compare) and len(x.ops) == 1:
                    t = norm(x)
                    eq = isinstance(x.ops[0], (ast.Eq, ast.Is))
                    ne = isinstance(x.ops[0], (ast.NotEq, ast.IsNot))
                    if not (eq or ne):
                        return None
                    if 'self.state' in t and "'running'" in t:
                        return a if eq else not a
                    if 'transitioning' in t and t.endswith('Status.active') or 'Status.active' in t and 'transitioning' in t:
                        return b if eq else not b
                return None

            table = {(a, b): ev(e, a, b) for a in (False, True) for b in (False, True)}
            ok = table == {(False, False): False, (False, True): False, (True, False): False, (True, True): True}
        r.check(ok, f'{f.qname}:predicate', where(f), 'truth table equals running AND active', 'is_pipeline_active is not the conjunction of state == running and transitioning == active')


def rule6(ctx, rep):
    """the archive continuation is always delivered (added after seeded change C10-3: db/post ArchiveHandler.processEnded
    called the completion callback only when pg_dump ended cleanly; after a failed dump the FSM stayed in archiving)"""
    prog = ctx.prog
    with rep.rule(
        'R-C10-6',
        'every implementation of db.archive(done) delivers the continuation exactly once on every normal path: it calls done() itself or hands it to a process handler whose processEnded calls it on every path',
        floor=2,
        breaks='the archiving state is never left (no _archive_done): the pipeline does not return to rest after a failed or unusual archive run',
    ) as r:
        impls = [prog.funcs[q] for q in sorted(prog.funcs) if q in ('dawgie.db.shelve.archive', 'dawgie.db.post.archive')]
        if len(impls) != 2:
            raise AnalysisError('db.archive implementations (shelve, post) not found')
        for raw in impls:
            f = prog.nfunc(raw.qname)
            rep.analysed(f)
            if not f.params():
                raise AnalysisError(f'{f.qname} takes no continuation parameter')
            done = f.params()[0]
            delegates = []

            class Del(Flow):
                def on_call(s, call, st):
                    if isinstance(call.func, ast.Name) and call.func.id == done:
                        return (min(st + 1, 2),)
                    if any(isinstance(a, ast.Name) and a.id == done for a in list(call.args) + [k.value for k in call.keywords]):
                        sym = prog.resolve_in(call.func, f)
                        delegates.append((call, sym))
                        return (min(st + 1, 2),)
                    return (st,)

            fl = Del()
            out = fl.run(f.node, 0)
            exits = out.normal | out.ret
            r.instance()
            r.check(exits == {1}, f'{f.qname}:continuation-delivered', where(f), 'done() called (or handed on) exactly once on every normal path', f'{f.qname} can return after delivering the continuation {sorted(exits)} times')
            for call, sym in delegates:
                c = prog.classes.get(sym) if sym else None
                r.instance()
                if c is None:
                    r.fail(f'{f.qname}:{norm(call)[:60]}:delegate', where(f, call), f'{f.qname} hands the continuation to {norm(call.func)}, which the analysis cannot follow')
                    continue
                init = c.methods.get('__init__')
                pos = [i for i, a in enumerate(call.args) if isinstance(a, ast.Name) and a.id == done]
                attr = None
                if init is not None and pos and len(init.params()) > pos[0] + 1:
                    pname = init.params()[pos[0] + 1]
                    for s_ in init.own_nodes():
                        if isinstance(s_, ast.Assign) and isinstance(s_.value, ast.Name) and s_.value.id == pname and isinstance(s_.targets[0], ast.Attribute):
                            attr = s_.targets[0].attr
                ended = c.methods.get('processEnded')
                if attr is None or ended is None:
                    r.fail(f'{c.qname}:stores-and-calls-continuation', where(init or f), f'{c.qname} does not keep the continuation in an attribute / has no processEnded')
                    continue
                g = prog.nfunc(ended.qname)
                rep.analysed(g)

                class Cnt(Flow):
                    def on_call(s, cl, st):
                        fn = cl.func
                        if isinstance(fn, ast.Attribute) and fn.attr == attr and isinstance(fn.value, ast.Name) and fn.value.id == 'self':
                            return (min(st + 1, 2),)
                        return (st,)

                o2 = Cnt().run(g.node, 0)
                ex2 = o2.normal | o2.ret
                r.check(ex2 == {1}, f'{g.qname}:continuation-delivered', where(g), f'self.{attr}() called exactly once on every normal path', f'{g.qname} can return after calling the archive continuation {sorted(ex2)} times: with 0 the FSM never leaves archiving')
        # the caller's side (added after seeded change C10-10: FSM._archive handed db.archive a callback that only logs and
        # chained _archive_done to the thread's Deferred instead; the PostgreSQL back end returns as soon as pg_dump is
        # spawned, so the machine left archiving - and accepted update / submit - while the dump was still running)
        completion = prog.funcs.get(FSM + '._archive_done')
        if completion is None:
            cands = [g_ for g_ in prog.funcs.values() if g_.cls is not None and g_.cls.qname == FSM and any(
                isinstance(a_, ast.Assign) and any(isinstance(t_, ast.Attribute) and prog.resolve_in(t_, g_) == 'dawgie.pl.farm.ARCHIVE' for t_ in a_.targets) and isinstance(a_.value, ast.Constant) and a_.value.value is False
                for a_ in g_.own_nodes())]
            completion = cands[0] if len(cands) == 1 else None
        sites = []
        for g_ in prog.funcs.values():
            if g_.cls is None or g_.cls.qname != FSM:
                continue
            for c_ in g_.calls():
                if (prog.callee(c_, g_) or '') == 'dawgie.db.archive':
                    sites.append((g_, c_))
        r.instance()
        if completion is None or not sites:
            r.fail(f'{FSM}:archive-continuation', f'pl/state.py:1', 'the FSM no longer calls dawgie.db.archive, or its completion step (_archive_done) was not found')
        for g_, c_ in sites:
            arg = c_.args[0] if c_.args else next((k.value for k in c_.keywords), None)
            reaches = False
            if arg is not None and completion is not None:
                if isinstance(arg, ast.Attribute) and isinstance(arg.value, ast.Name) and arg.value.id == 'self' and arg.attr == completion.name:
                    reaches = True
                elif isinstance(arg, ast.Lambda):
                    reaches = any(isinstance(x, ast.Call) and isinstance(x.func, ast.Attribute) and x.func.attr == completion.name for x in ast.walk(arg.body))
                elif isinstance(arg, ast.Name) and arg.id in g_.children:
                    reaches = any(isinstance(x, ast.Call) and isinstance(x.func, ast.Attribute) and x.func.attr == completion.name for x in ast.walk(g_.children[arg.id].node))
            r.check(
                reaches,
                f'{g_.qname}:archive-continuation',
                where(g_, c_),
                f'the continuation handed to db.archive is (or calls) {completion.name if completion else "?"}',
                f'{g_.qname} hands db.archive the continuation {norm(arg)[:60] if arg is not None else "<none>"}, which does not reach {completion.name if completion else "the completion step"}: '
                'the machine leaves archiving when the thread returns, not when the back end has finished (the PostgreSQL archive returns right after spawning pg_dump)',
            )


def rule8(ctx, rep):
    """added after seeded change C10-11: the "this submission already failed" latch was deleted from fe/api/submit.Process
    as dead code; step_3 is still reached from the compliance process when it ends cleanly - after a git step of the same
    submission failed and failure() had already taken the machine back to running - and fired running_trigger() into an
    archive / update cycle that was outstanding by then"""
    prog = ctx.prog
    with rep.rule(
        'R-C10-8',
        'a submission that has failed fires nothing more: in each submit front end, failure() sets a latch and every other step that fires running_trigger() is dominated by the test that the latch is not set',
        floor=2,
        breaks='a late continuation of a failed submission (the compliance process ending cleanly) pulls the machine to running out of whatever state it is in by then: an outstanding archive or update never completes',
    ) as r:
        from . import shared

        for cq in ('dawgie.fe.api.submit.Process', 'dawgie.fe.submit.Process'):
            c = prog.classes.get(cq)
            if c is None:
                continue
            fail = c.methods.get('failure')
            r.instance()
            key = f'{cq}:failure-latch'
            if fail is None:
                r.fail(key, f'{c.module.relpath}:{c.node.lineno}', f'{cq} has no failure() step')
                continue
            rep.analysed(fail)
            latches = {t.attr for a in fail.own_nodes() if isinstance(a, ast.Assign) and isinstance(a.value, ast.Constant) and a.value.value is True for t in a.targets
                       if isinstance(t, ast.Attribute) and isinstance(t.value, ast.Name) and t.value.id == 'self'}
            fires = any(isinstance(x.func, ast.Attribute) and x.func.attr.endswith('_trigger') for x in fail.calls())
            if not fires:
                r.ok(key, 'failure() fires no trigger: nothing to latch', where(fail), nontrivial=False)
                continue
            if not r.check(bool(latches), key, where(fail), f'failure() sets {sorted(latches)}', f'{fail.qname} fires a trigger but sets no latch: later steps of the same submission cannot know that it failed'):
                continue
            for name, m in sorted(c.methods.items()):
                if m is fail:
                    continue
                g = prog.nfunc(m.qname)
                for call in g.calls():
                    if not (isinstance(call.func, ast.Attribute) and call.func.attr == 'running_trigger'):
                        continue
                    r.instance()
                    guarded = False
                    for t, outcome in shared.path_condition(g, call):
                        e, neg = t, False
                        while isinstance(e, ast.UnaryOp) and isinstance(e.op, ast.Not):
                            e, neg = e.operand, not neg
                        if isinstance(e, ast.Attribute) and isinstance(e.value, ast.Name) and e.value.id == 'self' and e.attr in latches:
                            # reached with: (latch xor neg) == outcome  ->  latch == (outcome xor neg); must be False
                            if (outcome != neg) is False:
                                guarded = True
                    r.check(
                        guarded,
                        f'{m.qname}:running_trigger:latched',
                        where(g, call),
                        f'running_trigger() only when {sorted(latches)} is not set',
                        f'{m.qname} fires running_trigger() without having tested the failure latch {sorted(latches)}: after failure() returned the machine to running, this late step fires again from whatever state the machine is in',
                    )


def check(ctx):
    rep = Report(
        PID,
        ctx.tier,
        ctx.prog,
        'Composes pl/state.dot (edges, triggers, before/after) with the FSM class into a finite abstract machine over (state, transitioning, prior, '
        'outstanding deferred steps) and explores it: the edge table equals the documented life cycle; each callback is abstractly executed (doctest and '
        'production branches, deferred closures as continuations, the computed <prior>_trigger); every trigger fired must be legal in the state established '
        'at its site (dominating is_pipeline_active()/state test, fresh FSM, or earlier stage of the same chain); the transitioning setter protocol is '
        'interpreted; every accepted external trigger must settle in running/gitting with transitioning active and nothing outstanding; the activity '
        'predicate is checked by truth table. Rejection without side effects is the transitions library contract (trusted).',
        assumptions=['transitions: invalid trigger raises before any callback; before -> state change -> after; nested triggers run immediately', 'a deferred step completes eventually and no external trigger is accepted in a non-rest state (checked: external sites establish a rest state)'],
    )
    rep.not_decided = ['failures inside background steps (errbacks only log; the machine stays non-active)', 'thread-safety of firing running_trigger from the navel-gaze thread', 'real interleavings of several concurrent submit requests']
    M = Machine(ctx, None)
    M.firing = _firing_methods(ctx)
    rule1(ctx, rep, M)
    rule234(ctx, rep, M)
    rule7(ctx, rep, M)
    rule5(ctx, rep)
    rule6(ctx, rep)
    rule8(ctx, rep)
    return rep


VARIANTS = [
    V('setter lets the status already held through', 'B', 'pl/state.py', 'FSM.transitioning', 'status in (Status.entering, Status.exiting)', 'status not in (Status.active, self.__transitioning)', 'R-C10-3'),
    V('archive marks entering after the hand-over', 'B', 'pl/state.py', 'FSM.archive', "d.addErrback(\n                dawgie.pl.LogFailure(\n                    'while archiving the pipeline', __name__\n                ).log\n            )", "d.addErrback(\n                dawgie.pl.LogFailure(\n                    'while archiving the pipeline', __name__\n                ).log\n            )\n            self.transitioning = Status.entering", 'R-C10-3'),
    V('reset no longer refuses while a reload is outstanding', 'B', 'pl/state.py', 'FSM.reset', 'self.transitioning = Status.exiting\n        self.wait_on_crew.set()\n        self.wait_on_doing.set()\n        self.wait_on_todo.set()\n        self.priority = None\n        self.transitioning = Status.active', 'self.wait_on_crew.set()\n        self.wait_on_doing.set()\n        self.wait_on_todo.set()\n        self.priority = None', 'R-C10-7'),
    V('guard dropped from the introspect edge', 'B', 'pl/state.dot', None, 'before=step_is_done,\n                                 after=navel_gaze', 'after=navel_gaze', 'R-C10-7'),
    V('save_prior_state records before it refuses', 'B', 'pl/state.py', 'FSM.save_prior_state', 'self.transitioning = Status.exiting\n        self.__prior = self.state', 'self.__prior = self.state\n        self.transitioning = Status.exiting', 'R-C10-7'),
    V('run edge out of archiving guarded too', 'N', 'pl/state.dot', None, 'source=archiving,\n                             dest=running];', 'source=archiving,\n                             dest=running,\n                             before=step_is_done];', None),
    V('failed pg_dump never reports the archive as finished', 'B', 'db/post/__init__.py', 'ArchiveHandler.processEnded', 'pass\n\n        self.__done()', 'pass\n        else:\n            self.__done()', 'R-C10-6'),
    V('db.archive gets a continuation that only logs', 'B', 'pl/state.py', 'FSM._archive', 'dawgie.db.archive(self._archive_done)', "dawgie.db.archive(lambda: log.info('exiting state archive'))\n        self._archive_done()", 'R-C10-6'),
    V('db.archive gets a lambda around the completion', 'N', 'pl/state.py', 'FSM._archive', 'dawgie.db.archive(self._archive_done)', 'dawgie.db.archive(lambda: self._archive_done())', None),
    V('step_3 of the api front end ignores the failure latch', 'B', 'fe/api/submit.py', 'Process.step_3', 'if self.__failed:\n            return None\n        dawgie.context.fsm.running_trigger()', 'dawgie.context.fsm.running_trigger()', 'R-C10-8'),
    V('step_3 tests the latch as a guard on the trigger', 'N', 'fe/api/submit.py', 'Process.step_3', 'if self.__failed:\n            return None\n        dawgie.context.fsm.running_trigger()', 'if not self.__failed:\n            dawgie.context.fsm.running_trigger()\n        else:\n            return None', None),
    V('shelve archive forgets the continuation', 'B', 'db/shelve/__init__.py', 'archive', 'done()', 'pass', 'R-C10-6'),
    V('extra edge loading->running', 'B', 'pl/state.dot', None, 'contemplation -> running[label=run,', 'loading -> running[label=skip, trigger=running_trigger, source=loading, dest=running];\n        contemplation -> running[label=run,', 'R-C10-1'),
    V('save_prior_state dropped from idle archive', 'B', 'pl/state.dot', None, 'after=archive,\n                             before=save_prior_state,', 'after=archive,', 'R-C10-1'),
    V('load.done without active', 'B', 'pl/state.py', 'FSM.load', 'self.transitioning = Status.active\n            self.contemplation_trigger()', 'self.contemplation_trigger()', 'R-C10-3'),
    V('archive without completion when nothing to archive', 'B', 'pl/state.py', 'FSM.archive', 'else:\n            self._archive_done()', 'else:\n            pass', 'R-C10-4'),
    V('reload.done fires running_trigger', 'B', 'pl/state.py', 'FSM.reload', 'self.transitioning = Status.active\n            self.archiving_trigger()', 'self.transitioning = Status.active\n            self.running_trigger()', 'R-C10-2'),
    V('_archive_done constant trigger', 'B', 'pl/state.py', 'FSM._archive_done', "getattr(self, self.__prior + '_trigger')()", 'self.running_trigger()', 'R-C10-1'),
    V('is_pipeline_active ignores transitioning', 'B', 'pl/state.py', 'FSM.is_pipeline_active', "return self.state == 'running' and self.transitioning == Status.active", "return self.state == 'running'", 'R-C10-5'),
    V('dispatch archives without activity gate', 'B', 'pl/farm.py', 'dispatch', 'if not something_to_do():\n        return', 'pass', 'R-C10-2'),
    V('failure fires running_trigger unguarded', 'B', 'fe/api/submit.py', 'Process.failure', "if dawgie.context.fsm.state == 'gitting':\n                dawgie.context.fsm.running_trigger()", 'if True:\n                dawgie.context.fsm.running_trigger()', 'R-C10-2'),
    V('navel gaze leaves entering', 'B', 'pl/state.py', 'FSM._navel_gaze', 'self.transitioning = Status.active\n        self.running_trigger()', 'self.running_trigger()', 'R-C10-4'),
    V('dot relabelled', 'N', 'pl/state.dot', None, 'label=boot,', 'label="power on",', None),
    V('activity predicate reordered', 'N', 'pl/state.py', 'FSM.is_pipeline_active', "return self.state == 'running' and self.transitioning == Status.active", "return self.transitioning == Status.active and self.state == 'running'", None),
]
