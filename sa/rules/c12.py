"""C12  A submitted update takes effect exactly when its priority allows."""

import ast
import itertools

from .. import AnalysisError
from ..dot import edges_of
from ..flow import Flow, Tracked
from ..report import Report
from ..util import where, norm, calls_to, call_name, names_in
from ..variants import V
from .. import wsa

PID = 'C12'
FSM = 'dawgie.pl.state.FSM'
PRI = 'dawgie.tools.submit.Priority'
ORDER = ['TODO', 'DOING', 'CREW', 'NOW']  # weakest .. strongest


def members(prog):
    c = prog.cls(PRI)
    out = []
    for s in c.node.body:
        if isinstance(s, ast.Assign) and len(s.targets) == 1 and isinstance(s.targets[0], ast.Name) and isinstance(s.value, ast.Constant):
            out.append(s.targets[0].id)
    return out


class _NotUnderstood(Exception):
    pass


def _eval_max(prog, f, args, mem):
    """finite-domain evaluation of Priority.max(*args); values are member names or None"""
    var = f.node.args.vararg.arg if f.node.args.vararg else None
    if var is None:
        raise _NotUnderstood('Priority.max no longer takes *args')
    env = {var: tuple(args)}

    def val(e, env):
        if isinstance(e, ast.Constant) and e.value is None:
            return None
        if isinstance(e, ast.Name):
            if e.id in env:
                return env[e.id]
            raise _NotUnderstood(f'name {e.id}')
        if isinstance(e, ast.Attribute) and isinstance(e.value, ast.Name) and e.value.id == 'Priority' and e.attr in mem:
            return e.attr
        if isinstance(e, ast.Attribute):
            sym = prog.resolve_in(e, f) or ''
            if sym.startswith(PRI + '.') and sym.rsplit('.', 1)[1] in mem:
                return sym.rsplit('.', 1)[1]
        if isinstance(e, ast.Call) and isinstance(e.func, ast.Name) and e.func.id == 'filter' and len(e.args) == 2 and isinstance(e.args[0], ast.Lambda):
            lam = e.args[0]
            p = lam.args.args[0].arg
            return tuple(x for x in val(e.args[1], env) if truth(lam.body, dict(env, **{p: x})))
        if isinstance(e, (ast.GeneratorExp, ast.ListComp, ast.SetComp)) and len(e.generators) == 1 and isinstance(e.generators[0].target, ast.Name):
            g = e.generators[0]
            out = []
            for x in val(g.iter, env):
                env2 = dict(env, **{g.target.id: x})
                if all(truth(c, env2) for c in g.ifs):
                    out.append(val(e.elt, env2))
            return tuple(out)
        if isinstance(e, ast.Call) and isinstance(e.func, ast.Name) and e.func.id in ('list', 'tuple') and len(e.args) == 1:
            return tuple(val(e.args[0], env))
        if isinstance(e, (ast.List, ast.Tuple)):
            return tuple(val(x, env) for x in e.elts)
        if isinstance(e, ast.IfExp):
            return val(e.body, env) if truth(e.test, env) else val(e.orelse, env)
        raise _NotUnderstood(norm(e))

    def truth(e, env):
        if isinstance(e, ast.BoolOp):
            if isinstance(e.op, ast.And):
                return all(truth(v, env) for v in e.values)
            return any(truth(v, env) for v in e.values)
        if isinstance(e, ast.UnaryOp) and isinstance(e.op, ast.Not):
            return not truth(e.operand, env)
        if isinstance(e, ast.Compare) and len(e.ops) == 1:
            a, b = val(e.left, env), val(e.comparators[0], env)
            op = e.ops[0]
            if isinstance(op, (ast.Eq, ast.Is)):
                return a == b
            if isinstance(op, (ast.NotEq, ast.IsNot)):
                return a != b
            if isinstance(op, ast.In):
                return a in b
            if isinstance(op, ast.NotIn):
                return a not in b
        raise _NotUnderstood(norm(e))

    class Ret(Exception):
        def __init__(self, v):
            self.v = v

    def run(body, env):
        for s in body:
            if isinstance(s, ast.Assign) and len(s.targets) == 1 and isinstance(s.targets[0], ast.Name):
                env[s.targets[0].id] = val(s.value, env)
            elif isinstance(s, ast.For) and isinstance(s.target, ast.Name):
                for x in val(s.iter, env):
                    env[s.target.id] = x
                    try:
                        run(s.body, env)
                    except StopIteration:
                        break
                    except _Cont:
                        continue
            elif isinstance(s, ast.If):
                run(s.body if truth(s.test, env) else s.orelse, env)
            elif isinstance(s, ast.Return):
                raise Ret(val(s.value, env) if s.value is not None else None)
            elif isinstance(s, ast.Pass) or (isinstance(s, ast.Expr) and isinstance(s.value, ast.Constant)):
                pass
            elif isinstance(s, ast.Continue):
                raise _Cont()
            elif isinstance(s, ast.Break):
                raise StopIteration()
            else:
                raise _NotUnderstood(norm(s)[:80])

    class _Cont(Exception):
        pass

    try:
        run(f.node.body, env)
    except Ret as r:
        return r.v
    return None


def rule1(ctx, rep):
    prog = ctx.prog
    f = prog.nfunc(PRI + '.max')
    rep.analysed(f)
    mem = members(prog)
    with rep.rule(
        'R-C12-1',
        'priority lattice: Priority.max over every pair and triple of {None, NOW, CREW, DOING, TODO} is the maximum in NOW > CREW > DOING > TODO',
        floor=100,
        breaks='a weaker later submission downgrades a waiting stronger one (or vice versa): the reload fires at the wrong moment',
    ) as r:
        if sorted(mem) != sorted(ORDER):
            r.fail(f'{PRI}:members', where(f), f'Priority members are {mem}; the documented lattice is NOW > CREW > DOING > TODO')
            return
        dom = [None] + ORDER
        bad = []
        n = 0
        for k in (1, 2, 3):
            for args in itertools.product(dom, repeat=k):
                n += 1
                r.instance()
                try:
                    got = _eval_max(prog, f, args, mem)
                except _NotUnderstood as e:
                    r.fail(f'{f.qname}:not-understood', where(f), f'Priority.max uses a construct outside the evaluated subset: {e}')
                    return
                real = [a for a in args if a is not None]
                want = max(real, key=ORDER.index) if real else 'TODO'
                if got != want:
                    bad.append((args, got, want))
        r.extra['evaluations'] = n
        r.extra['exhaustive'] = True
        r.check(
            not bad,
            f'{f.qname}:lattice',
            where(f),
            f'{n} argument tuples evaluated, all equal to the lattice maximum',
            f'Priority.max disagrees with the lattice on {len(bad)} of {n} tuples, e.g. max{bad[0][0] if bad else ""} = {bad[0][1] if bad else ""} (expected {bad[0][2] if bad else ""})',
        )
        # set_submit_info folds the new priority into the stored one with Priority.max
        g = prog.nfunc(FSM + '.set_submit_info')
        rep.analysed(g)
        cs = calls_to(prog, g, f.qname)
        okc = False
        for c in cs:
            texts = {norm(a) for a in c.args}
            if 'self.priority' in texts and len(c.args) == 2:
                for s in g.own_nodes():
                    if isinstance(s, ast.Assign) and s.value is c and norm(s.targets[0]) == 'self.priority':
                        okc = True
                    # through a temporary: strongest = Priority.max(self.priority, new) ... self.priority = strongest
                    if isinstance(s, ast.Assign) and s.value is c and isinstance(s.targets[0], ast.Name):
                        tmp = s.targets[0].id
                        defs = [d for d in g.own_nodes() if isinstance(d, ast.Assign) and any(isinstance(t, ast.Name) and t.id == tmp for t in d.targets)]
                        stores = [d for d in g.own_nodes() if isinstance(d, ast.Assign) and norm(d.targets[0]) == 'self.priority']
                        if len(defs) == 1 and stores and all(isinstance(d.value, ast.Name) and d.value.id == tmp and d.lineno > s.lineno for d in stores):
                            okc = True
        r.check(okc, f'{g.qname}:folds-with-max', where(g), 'self.priority = Priority.max(self.priority, new)', 'set_submit_info does not combine the stored and the new priority with Priority.max')


class _Cross(Flow):
    def __init__(self, prog, f, member):
        super().__init__()
        self.prog = prog
        self.f = f
        self.member = member
        self.calls = []

    def on_test(self, e, st):
        if isinstance(e, ast.Call) and self.prog.resolve_in(e.func, self.f) == FSM + '.is_pipeline_active':
            return (st | {'active'},), (st | {'inactive'},)
        if isinstance(e, ast.Compare) and len(e.ops) == 1 and 'self.priority' in (norm(e.left), norm(e.comparators[0])):
            # either orientation: self.priority == X  /  X == self.priority
            rhs = e.comparators[0] if norm(e.left) == 'self.priority' else e.left
            op = e.ops[0]
            if isinstance(rhs, ast.Constant) and rhs.value is None:
                v = self.member is None
            else:
                sym = self.prog.resolve_in(rhs, self.f) or ''
                if not sym.startswith(PRI + '.'):
                    return (st,), (st,)
                v = sym.rsplit('.', 1)[1] == self.member
            if isinstance(op, (ast.NotEq, ast.IsNot)):
                v = not v
            return ((st,), ()) if v else ((), (st,))
        return (st,), (st,)

    def on_call(self, call, st):
        sym = self.prog.resolve_in(call.func, self.f) or ''
        if sym.startswith(FSM + '.wait_for_') or sym.endswith('_trigger'):
            self.calls.append((sym.rsplit('.', 1)[1], frozenset(st)))
        return (st,)


WAITER = {'CREW': 'wait_for_crew', 'DOING': 'wait_for_doing', 'TODO': 'wait_for_todo', 'NOW': 'wait_for_nothing'}
POLLER = {'crew': ('is_crew_done', 'dawgie.pl.farm._busy'), 'doing': ('is_doing_done', 'dawgie.pl.schedule.view_doing'), 'todo': ('is_todo_done', 'dawgie.pl.schedule.que')}
WEAKER = {'crew': ['doing', 'todo'], 'doing': ['todo'], 'todo': []}


def _event_ops(f, prog):
    """[(event name, 'set'|'clear')] in source order for self.wait_on_<x>.set()/clear()"""
    out = []
    for c in sorted(f.calls(), key=lambda n: (n.lineno, n.col_offset)):
        if isinstance(c.func, ast.Attribute) and c.func.attr in ('set', 'clear') and isinstance(c.func.value, ast.Attribute) and c.func.value.attr.startswith('wait_on_') and norm(c.func.value.value) == 'self':
            out.append((c.func.value.attr[len('wait_on_'):], c.func.attr))
        # for ev in (self.wait_on_a, self.wait_on_b): ev.set()   - a loop over a literal sequence of the events
        if isinstance(c.func, ast.Attribute) and c.func.attr in ('set', 'clear') and isinstance(c.func.value, ast.Name):
            for lp in f.own_nodes():
                if (
                    isinstance(lp, ast.For)
                    and isinstance(lp.target, ast.Name)
                    and lp.target.id == c.func.value.id
                    and isinstance(lp.iter, (ast.Tuple, ast.List))
                    and any(x is c for b in lp.body for x in ast.walk(b))
                    and not any(isinstance(x, (ast.Break, ast.Continue, ast.Return, ast.If)) for b in lp.body for x in ast.walk(b))
                ):
                    for e in lp.iter.elts:
                        if isinstance(e, ast.Attribute) and e.attr.startswith('wait_on_') and norm(e.value) == 'self':
                            out.append((e.attr[len('wait_on_'):], c.func.attr))
    return out


def rule2(ctx, rep):
    prog, cg = ctx.prog, ctx.cg
    f = prog.nfunc(FSM + '.submit_crossroads')
    rep.analysed(f)
    mem = members(prog)
    with rep.rule(
        'R-C12-2',
        'crossroads is exhaustive and correctly wired: each priority reaches its own waiter under is_pipeline_active(); each waiter polls its own condition and arms exactly its own event',
        floor=12,
        breaks='a submission of some priority is silently ignored or waits for the wrong condition',
    ) as r:
        for m in [None] + mem:
            r.instance()
            fl = _Cross(prog, f, m)
            fl.run(f.node, frozenset())
            got = sorted({c for c, st in fl.calls})
            inactive = [c for c, st in fl.calls if 'active' not in st]
            want = [WAITER[m]] if m in WAITER else []
            r.check(
                got == want and not inactive,
                f'{f.qname}:priority[{m}]',
                where(f),
                f'priority {m} -> {want or "nothing"} under the activity test',
                f'with priority {m} the crossroads calls {got or "nothing"} (expected {want or "nothing"}; calls outside the is_pipeline_active() branch: {inactive})',
            )
        for ev, (poll, source) in POLLER.items():
            w = prog.nfunc(f'{FSM}.wait_for_{ev}')
            p = prog.nfunc(f'{FSM}.{poll}')
            rep.analysed(w, p)
            r.instance()
            # the waiter starts its own poller in a thread
            started = [e.dst for e in cg.callees(w.qname, kinds={'thread'})]
            r.check(started == [p.qname], f'{w.qname}:starts-poller', where(w), f'deferToThread({poll})', f'{w.qname} starts {started} in a thread, expected {p.qname}')
            # the poller loops while (condition source non-empty) and (still waiting on this event)
            r.instance()
            loops = [n for n in p.own_nodes() if isinstance(n, ast.While)]
            okp = False
            det = 'no polling loop'
            for lp in loops:
                # the condition is evaluated as a boolean function of (S: the condition source is non-empty,
                # W: waiting_on_<ev>() is true) and must be S and W, in whatever syntactic form
                def ev2(e, S, W):
                    if isinstance(e, ast.BoolOp):
                        vals = [ev2(v, S, W) for v in e.values]
                        if any(v is None for v in vals):
                            return None
                        return all(vals) if isinstance(e.op, ast.And) else any(vals)
                    if isinstance(e, ast.UnaryOp) and isinstance(e.op, ast.Not):
                        v = ev2(e.operand, S, W)
                        return None if v is None else not v
                    if isinstance(e, ast.Call) and isinstance(e.func, ast.Name) and e.func.id in ('len', 'bool') and e.args:
                        return ev2(e.args[0], S, W)
                    if isinstance(e, ast.Compare) and len(e.ops) == 1 and isinstance(e.comparators[0], ast.Constant) and e.comparators[0].value == 0:
                        v = ev2(e.left, S, W)
                        if v is None:
                            return None
                        return v if isinstance(e.ops[0], (ast.Gt, ast.NotEq)) else ((not v) if isinstance(e.ops[0], ast.Eq) else None)
                    if isinstance(e, ast.Call):
                        q = prog.resolve_in(e.func, p)
                        if q == f'{FSM}.waiting_on_{ev}':
                            return W
                        if q == source:
                            return S
                    if isinstance(e, (ast.Name, ast.Attribute)) and prog.resolve_in(e, p) == source:
                        return S
                    return None

                rows = {(S, W): ev2(lp.test, S, W) for S in (False, True) for W in (False, True)}
                okp = all(rows[(S, W)] is not None and rows[(S, W)] == (S and W) for S, W in rows)
                det = f'loop condition {norm(lp.test)}'
            r.check(okp, f'{p.qname}:condition', where(p), det, f'{p.qname} must poll while "{source} non-empty and waiting_on_{ev}()": {det}')
            # the condition is re-read on every iteration: no local of the loop test is a snapshot taken before the loop
            # (added after seeded change C12-3: `que = dawgie.pl.schedule.que` before the loop; organize/build rebind the
            # module attribute, so the poller watches a list nobody drains)
            r.instance()
            raw = prog.func(f'{FSM}.{poll}')
            stale = _stale_locals(prog, raw)
            r.check(
                not stale,
                f'{p.qname}:live-condition',
                where(raw, stale[0][0] if stale else None),
                'every name in the polling condition is re-evaluated per iteration',
                f'{p.qname} polls on ' + '; '.join(f'local "{n}" bound once before the loop to {d}' for _l, n, d in stale) + ': later changes of the live state are never seen',
            )
            # events: clear own, set every weaker, touch nothing stronger
            r.instance()
            ops = _event_ops(w, prog)
            want = [(ev, 'clear')] + [(x, 'set') for x in WEAKER[ev]]
            r.check(
                sorted(ops) == sorted(want),
                f'{w.qname}:events',
                where(w),
                f'event operations {ops}',
                f'{w.qname} performs {ops} on the wait events, expected {want} (arm own wait, cancel every weaker one, leave stronger ones)',
            )
            # waiting_on_<ev> reads its own event, negated
            q = prog.nfunc(f'{FSM}.waiting_on_{ev}')
            r.instance()
            rets = [n for n in q.own_nodes() if isinstance(n, ast.Return)]
            okq = len(rets) == 1 and isinstance(rets[0].value, ast.UnaryOp) and isinstance(rets[0].value.op, ast.Not) and f'self.wait_on_{ev}.wait(' in norm(rets[0].value)
            r.check(okq, f'{q.qname}:reads-own-event', where(q), norm(rets[0].value) if rets else '', f'waiting_on_{ev} is not "not self.wait_on_{ev}.wait(...)"')
        n = prog.nfunc(FSM + '.wait_for_nothing')
        rep.analysed(n)
        r.instance()
        ops = _event_ops(n, prog)
        trig = [c for c in n.calls() if call_name(c) == 'update_trigger']
        r.check(
            sorted(ops) == sorted((e, 'set') for e in POLLER) and len(trig) == 1,
            f'{n.qname}:cancels-all-and-fires',
            where(n),
            'sets all three events and fires update_trigger once',
            f'wait_for_nothing performs {ops} and fires update_trigger {len(trig)} time(s); expected: cancel all waits, fire once',
        )


def _rebound(prog, sym):
    """is the module attribute `sym` assigned anywhere outside its module's top level?"""
    mod, _, name = sym.rpartition('.')
    for fn in prog.funcs.values():
        glob = {n for g in fn.own_nodes() if isinstance(g, ast.Global) for n in g.names}
        for s in fn.own_nodes():
            tg = []
            if isinstance(s, ast.Assign):
                tg = s.targets
            elif isinstance(s, (ast.AugAssign, ast.AnnAssign)):
                tg = [s.target]
            for t in tg:
                if isinstance(t, ast.Attribute) and t.attr == name and prog.resolve_in(t, fn) == sym:
                    return True
                if isinstance(t, ast.Name) and t.id == name and t.id in glob and fn.module.name == mod:
                    return True
    return False


def _stale_locals(prog, p):
    """[(loop, local name, description)] for locals read by a polling loop's test that are bound once, before the loop,
    to a call result or to a module attribute that is rebound elsewhere"""
    out = []
    for lp in [n for n in p.own_nodes() if isinstance(n, ast.While)]:
        inside = {id(x) for b in lp.body + lp.orelse for x in ast.walk(b)}
        for nm in {x.id for x in ast.walk(lp.test) if isinstance(x, ast.Name) and isinstance(x.ctx, ast.Load)}:
            defs = [s for s in p.own_nodes() if isinstance(s, ast.Assign) and any(isinstance(t, ast.Name) and t.id == nm for t in s.targets)]
            if not defs or any(id(s) in inside for s in defs):
                continue
            for s in defs:
                v = s.value
                if isinstance(v, ast.Call):
                    out.append((lp, nm, f'the call result {norm(v)}'))
                elif isinstance(v, (ast.Attribute, ast.Name)):
                    sym = prog.resolve_in(v, p)
                    if sym and _rebound(prog, sym):
                        out.append((lp, nm, f'{sym}, which is rebound elsewhere'))
    return out


class _Done(Flow):
    """state: (slot, waiting) slot in {'held','free'}, waiting in {'?','yes','no'}"""

    def __init__(self, prog, f, ev):
        super().__init__()
        self.prog = prog
        self.f = f
        self.ev = ev
        self.fires = []

    def on_test(self, e, st):
        slot, wt = st
        if isinstance(e, ast.Call):
            sym = self.prog.resolve_in(e.func, self.f) or ''
            if sym.startswith(FSM + '.waiting_on_'):
                which = sym.rsplit('_', 1)[1]
                if which == self.ev:
                    return ((slot, 'yes'),), ((slot, 'no'),)
                return ((slot, 'other:' + which),), ((slot, wt),)
        return (st,), (st,)

    def on_call(self, call, st):
        if call_name(call) and call_name(call).endswith('_trigger'):
            self.fires.append((call, st))
        return (st,)

    def on_stmt(self, s, st):
        slot, wt = st
        if isinstance(s, ast.Assign):
            for t in s.targets:
                if norm(t) == f'self.{self.ev}_thread':
                    slot = 'free' if isinstance(s.value, ast.Constant) and s.value.value is None else 'held'
        return ((slot, wt),)


def rule34(ctx, rep):
    prog, cg = ctx.prog, ctx.cg
    r3 = rep.rule(
        'R-C12-3',
        'the reload fires only if the finished poller is still the active wait: update_trigger() in each done() is dominated by its own waiting_on_<x>()',
        floor=6,
        breaks='a cancelled (overtaken) waiter triggers the reload although the stronger condition does not hold yet',
    )
    r4 = rep.rule(
        'R-C12-4',
        'poller slot typestate: acquired only under "is None", released by its done() callback on every path and before the trigger is fired',
        floor=6,
        breaks='a waiter cancelled by a stronger submission keeps the slot: the next submission of that priority starts no poller and never reloads',
    )
    with r3, r4:
        for ev in POLLER:
            w = prog.nfunc(f'{FSM}.wait_for_{ev}')
            # the success callback registered on the poller's deferred
            cbs = [e for e in cg.callees(w.qname, kinds={'reactor'}) if e.via in ('addCallbacks', 'addCallback', 'addBoth')]
            dones = [prog.funcs[e.dst] for e in cbs if e.dst in prog.funcs and prog.funcs[e.dst].parent is not None and prog.funcs[e.dst].parent.qname == w.qname]
            if not dones:
                raise AnalysisError(f'{w.qname}: no completion callback registered on the poller deferred')
            # the callback that may fire the reload runs only when the poller *returned* (its condition held or it was
            # cancelled), never when it died: registered as a success callback, with no errback before it that turns the
            # failure into a result (added after seeded change C12-7: addErrback(log) followed by addBoth(done))
            r3.instance()
            regs = sorted(
                (c for c in w.calls() if isinstance(c.func, ast.Attribute) and c.func.attr in ('addCallbacks', 'addCallback', 'addBoth', 'addErrback')),
                key=lambda c: (c.lineno, c.col_offset),
            )
            problems = []
            seen_errback = False
            for c in regs:
                tgt = prog.func_of(prog.resolve_in(c.args[0], w) or '') if c.args else None
                is_done = tgt is not None and any(tgt.qname == d.qname for d in dones)
                if c.func.attr == 'addBoth' and is_done:
                    problems.append(f'{norm(c)[:50]} runs the callback on failure as well')
                if c.func.attr in ('addCallback', 'addCallbacks') and is_done and seen_errback:
                    problems.append(f'{norm(c)[:50]} follows an errback that turns a failure into a result')
                if c.func.attr == 'addErrback' or (c.func.attr == 'addBoth' and not is_done):
                    seen_errback = True
                if c.func.attr == 'addCallbacks' and len(c.args) > 1:
                    t2 = prog.func_of(prog.resolve_in(c.args[1], w) or '')
                    if t2 is not None and any(t2.qname == d.qname for d in dones):
                        problems.append(f'{norm(c)[:50]} registers the callback as errback')
            r3.check(
                not problems,
                f'{w.qname}:fires-on-success-only',
                where(w, regs[0] if regs else None),
                'the completion callback is a success callback of the poller deferred',
                f'{w.qname}: ' + '; '.join(problems) + ': a poller that raised (its condition never held) fires update_trigger()',
            )
            for d in dones:
                rep.analysed(d)
                fl = _Done(prog, d, ev)
                out = fl.run(d.node, ('held', '?'))
                r3.instance()
                trig = [(c, st) for c, st in fl.fires if call_name(c) == 'update_trigger']
                other = [(c, st) for c, st in fl.fires if call_name(c) != 'update_trigger']
                badt = [st for c, st in trig if st[1] != 'yes']
                r3.check(
                    bool(trig) and not badt and not other,
                    f'{d.qname}:fire-under-own-wait',
                    where(d),
                    f'update_trigger() reached only after waiting_on_{ev}() was true',
                    f'{d.qname}: update_trigger() reachable in wait states {sorted({s[1] for s in badt})} (other triggers fired: {[call_name(c) for c, _ in other]}); it must be guarded by waiting_on_{ev}()',
                )
                r4.instance()
                exits = out.normal | out.ret
                held = [st for st in exits if st[0] != 'free']
                r4.check(
                    bool(exits) and not held,
                    f'{d.qname}:slot-released-on-all-paths',
                    where(d),
                    f'self.{ev}_thread is None at every exit ({len(exits)} abstract exit states)',
                    f'{d.qname} can return with self.{ev}_thread still set (exit states {sorted(held)}): a waiter cancelled by a stronger submission keeps the slot for ever',
                )
                r4.instance()
                late = [st for c, st in trig if st[0] != 'free']
                r4.check(
                    not late,
                    f'{d.qname}:slot-released-before-trigger',
                    where(d),
                    'slot released before update_trigger() (which may raise) is called',
                    f'{d.qname} fires update_trigger() while still holding the slot: if the trigger raises the slot is never released',
                )
            # acquisition guarded by `is None`
            r4.instance()

            class Acq(Flow):
                def __init__(s):
                    super().__init__()
                    s.sites = []

                def on_test(s, e, st):
                    t = norm(e)
                    if t == f'self.{ev}_thread is None':
                        return ('none',), ('set',)
                    if t == f'self.{ev}_thread is not None' or t == f'self.{ev}_thread':
                        return ('set',), ('none',)
                    return (st,), (st,)

                def on_stmt(s, node, st):
                    if isinstance(node, ast.Assign) and any(norm(t) == f'self.{ev}_thread' for t in node.targets) and not (isinstance(node.value, ast.Constant) and node.value.value is None):
                        s.sites.append((node, st))
                        return ('set',)
                    return (st,)

            a = Acq()
            a.run(w.node, '?')
            r4.check(
                bool(a.sites) and all(st == 'none' for _n, st in a.sites),
                f'{w.qname}:slot-acquired-when-free',
                where(w),
                'poller started only when the slot is None',
                f'{w.qname} starts a poller in slot states {sorted({st for _n, st in a.sites})}: a second poller for the same condition would be started (or none at all)',
            )


def rule5(ctx, rep):
    prog = ctx.prog
    with rep.rule(
        'R-C12-5',
        'exactly once per cycle: the updating -> loading edge (and nothing else) runs reset, which cancels all waits and forgets the priority; every submission reaches the priority merge',
        floor=4,
        breaks='a stale priority / armed wait survives the reload and fires a second update',
    ) as r:
        edges = edges_of(prog)
        e = [x for x in edges if x.get('source') == 'updating' and x.get('dest') == 'loading']
        r.instance()
        r.check(
            len(e) == 1 and e[0].get('before') == 'reset',
            'state.dot:updating->loading:before',
            f'pl/state.dot:{e[0].line if e else 0}',
            'before=reset',
            f'the updating -> loading edge has before={e[0].get("before") if e else None}, expected reset',
        )
        # reset is reached only from the constructor and that edge (added after seeded change C12-4: the submit front end
        # called fsm.reset() before gitting, so a second submission forgot the priority of the one already waiting)
        r.instance()
        callers = sorted({e.src.qname for e in ctx.cg.callers(FSM + '.reset')} - {FSM + '.__init__'})
        callers = [c for c in callers if c in prog.funcs]
        r.check(
            not callers,
            f'{FSM}.reset:only-on-reload-edge',
            where(prog.func(callers[0])) if callers else where(prog.func(FSM + '.reset')),
            'FSM.reset is called only by FSM.__init__ and the updating -> loading edge',
            f'FSM.reset is also called from {callers}: the priority and armed wait of a submission that is still waiting are forgotten outside a reload',
        )
        # the documented fallback for an unknown priority text is reachable: Priority(<text>) raises ValueError
        s_ = prog.nfunc(FSM + '.set_submit_info')
        rep.analysed(s_)
        r.instance()
        conv = [c for c in s_.calls() if prog.resolve_in(c.func, s_) == PRI]
        if not conv:
            raise AnalysisError('FSM.set_submit_info no longer converts its argument with Priority(...)')
        okc = True
        for c in conv:
            trys = [t for t in s_.own_nodes() if isinstance(t, ast.Try) and any(x is c for b in t.body for x in ast.walk(b))]
            caught = False
            for t in trys:
                for h in t.handlers:
                    names = [] if h.type is None else [norm(x) for x in (h.type.elts if isinstance(h.type, ast.Tuple) else [h.type])]
                    if h.type is None or any(n.split('.')[-1] in ('ValueError', 'Exception', 'BaseException') for n in names):
                        caught = True
            okc = okc and caught
        r.check(
            okc,
            f'{FSM}.set_submit_info:unknown-priority-falls-back',
            where(s_, conv[0]),
            'Priority(<text>) is inside a try whose handler catches ValueError (bare / Exception / ValueError)',
            'an unknown priority text makes Priority(<text>) raise ValueError past set_submit_info: the accepted submission never reaches the crossroads',
        )
        f = prog.nfunc(FSM + '.reset')
        rep.analysed(f)
        r.instance()
        ops = _event_ops(f, prog)
        pri = [s for s in f.own_nodes() if isinstance(s, ast.Assign) and any(norm(t) == 'self.priority' for t in s.targets)]
        okp = len(pri) == 1 and isinstance(pri[0].value, ast.Constant) and pri[0].value.value is None
        r.check(
            sorted(ops) == sorted((x, 'set') for x in POLLER) and okp,
            f'{f.qname}:cancels-and-forgets',
            where(f),
            'sets the three wait events and priority = None',
            f'reset performs {ops} and priority reset ok={okp}; expected all three events set and priority None',
        )


class _Gate(Tracked):
    def __init__(self, prog, f):
        super().__init__()
        self.prog = prog
        self.f = f
        self.sites = []

    def t_test(self, e, st):
        if isinstance(e, ast.Call) and self.prog.resolve_in(e.func, self.f) == FSM + '.is_pipeline_active':
            return ('active',), ('inactive',)
        return (st,), (st,)

    def t_call(self, call, st):
        if call_name(call) == 'gitting_trigger':
            self.sites.append((call, st))
        return (st,)


def rule6(ctx, rep):
    prog = ctx.prog
    with rep.rule(
        'R-C12-6',
        'a submission is refused unless the pipeline is active: gitting_trigger() in both submit.Process.step_1 is dominated by is_pipeline_active()',
        floor=2,
        breaks='a changeset is accepted while the pipeline is loading/archiving and the trigger raises or corrupts the cycle',
    ) as r:
        for q in ('dawgie.fe.api.submit.Process.step_1', 'dawgie.fe.submit.Process.step_1'):
            f = prog.nfunc(q)
            rep.analysed(f)
            r.instance()
            g = _Gate(prog, f)
            g.run(f.node, '?')
            r.check(
                bool(g.sites) and all(st == 'active' for _c, st in g.sites),
                f'{q}:gitting-under-activity-test',
                where(f),
                'gitting_trigger() reached only after is_pipeline_active() was true',
                f'{q}: gitting_trigger() reachable in states {sorted({st for _c, st in g.sites})} (must be dominated by a true is_pipeline_active())',
            )


def rule7(ctx, rep):
    """two clauses about how a submission enters (added after seeded changes C12-8 and C12-9)"""
    prog, cg = ctx.prog, ctx.cg
    with rep.rule(
        'R-C12-7',
        'one submission at a time: the "submission in progress" latch of the submit end points is released only by the running Process (through the callback it was handed), never by the request handler itself; and a priority text is converted by exact value lookup (the Priority enumeration defines no _missing_ / __new__ hook)',
        floor=3,
        breaks='a second submission gets in while the first one holds the gitting state and its refusal pushes the machine out of gitting (the first changeset is accepted but never reloads); or a blank / abbreviated priority text silently becomes NOW and the reload fires while work is executing',
    ) as r:
        for mod in ('dawgie.fe.api.submit', 'dawgie.fe.submit'):
            clear = prog.funcs.get(f'{mod}.Defer.clear')
            if clear is None:
                raise AnalysisError(f'{mod}.Defer.clear (the latch release) not found')
            r.instance()
            direct = sorted({e.src.qname for e in cg.callers(clear.qname) if e.kind == 'direct'})
            r.check(
                not direct,
                f'{mod}.Defer.clear:released-by-the-process-only',
                where(prog.func(direct[0])) if direct else where(clear),
                'Defer.clear is only handed on as a callback',
                f'{mod}.Defer.clear is called directly by {direct}: the latch drops while the submission it protects is still running',
            )
        r.instance()
        pc = prog.cls(PRI)
        hooks = sorted(n for n in pc.methods if n in ('_missing_', '__new__', '_generate_next_value_', '__call__', '__class_getitem__'))
        r.check(
            not hooks,
            f'{PRI}:exact-value-lookup',
            where(pc.methods[hooks[0]]) if hooks else f'{pc.module.relpath}:{pc.node.lineno}',
            'Priority(<text>) is the plain Enum value lookup',
            f'{PRI} defines {hooks}: Priority(<text>) no longer raises ValueError for texts that are not a value, so the documented fallback to TODO in FSM.set_submit_info is bypassed',
        )


def check(ctx):
    rep = Report(
        PID,
        ctx.tier,
        ctx.prog,
        'Decides the wiring of the submit/priority mechanism: exhaustive finite-domain evaluation of Priority.max against the documented lattice; '
        'per-member abstract run of submit_crossroads (exhaustive, under the activity test); each waiter starts its own poller whose loop condition '
        'reads its own condition source and its own wait event, arms its own event and cancels the weaker ones; done() fires update_trigger only under '
        'its own waiting test; slot typestate (acquire under None, release on every path and before the trigger); reset on the updating->loading edge; '
        'submission gate. The instant-of-firing condition over live farm/schedule state is not decided (pollers read live state).',
        assumptions=['threading.Event semantics', 'deferToThread callbacks run in the reactor thread'],
    )
    rep.not_decided = ['the instant-of-firing condition over real farm/schedule state', 'races between the 5 s dispatch tick and the 0.2 s pollers', 'errback path of the poller deferred (the poll functions have no raising calls)']
    rule1(ctx, rep)
    rule2(ctx, rep)
    rule34(ctx, rep)
    rule5(ctx, rep)
    rule6(ctx, rep)
    rule7(ctx, rep)
    return rep


VARIANTS = [
    V('max prefers DOING over CREW', 'B', 'tools/submit.py', 'Priority.max', 'if a == Priority.CREW and result != Priority.NOW:', 'if a == Priority.CREW and result != Priority.NOW and result != Priority.DOING:', 'R-C12-1'),
    V('max lets TODO overwrite', 'B', 'tools/submit.py', 'Priority.max', 'if a == Priority.NOW:', 'if a == Priority.NOW or a == Priority.TODO:', 'R-C12-1'),
    V('set_submit_info overwrites priority', 'B', 'pl/state.py', 'FSM.set_submit_info', 'self.priority = dawgie.tools.submit.Priority.max(\n            self.priority, priority\n        )', 'self.priority = priority', 'R-C12-1'),
    V('CREW branch waits for doing', 'B', 'pl/state.py', 'FSM.submit_crossroads', 'self.wait_for_crew()', 'self.wait_for_doing()', 'R-C12-2'),
    V('TODO branch missing', 'B', 'pl/state.py', 'FSM.submit_crossroads', 'elif self.priority == dawgie.tools.submit.Priority.TODO:\n                self.wait_for_todo()', 'elif False:\n                self.wait_for_todo()', 'R-C12-2'),
    V('crossroads ignores activity', 'B', 'pl/state.py', 'FSM.submit_crossroads', 'if not self.is_pipeline_active():', 'if False:', 'R-C12-2'),
    V('wait_for_crew does not cancel doing wait', 'B', 'pl/state.py', 'FSM.wait_for_crew', 'self.wait_on_doing.set()', 'pass', 'R-C12-2'),
    V('crew poller reads the queue', 'B', 'pl/state.py', 'FSM.is_crew_done', 'dawgie.pl.farm._busy and', 'dawgie.pl.schedule.que and', 'R-C12-2'),
    V('todo poller ignores cancellation', 'B', 'pl/state.py', 'FSM.is_todo_done', 'while dawgie.pl.schedule.que and self.waiting_on_todo():', 'while dawgie.pl.schedule.que:', 'R-C12-2'),
    V('done fires without the waiting test', 'B', 'pl/state.py', 'FSM.wait_for_doing', 'if self.waiting_on_doing():\n                self.update_trigger()', 'if True:\n                self.update_trigger()', 'R-C12-3'),
    V('done tests the wrong wait', 'B', 'pl/state.py', 'FSM.wait_for_todo', 'if self.waiting_on_todo():', 'if self.waiting_on_crew():', 'R-C12-3'),
    V('slot reset back under the if', 'B', 'pl/state.py', 'FSM.wait_for_crew', 'self.crew_thread = None\n            if self.waiting_on_crew():\n                self.update_trigger()', 'if self.waiting_on_crew():\n                self.update_trigger()\n                self.crew_thread = None', 'R-C12-4'),
    V('slot reset after the trigger', 'B', 'pl/state.py', 'FSM.wait_for_todo', 'self.todo_thread = None\n            if self.waiting_on_todo():\n                self.update_trigger()\n                pass', 'if self.waiting_on_todo():\n                self.update_trigger()\n            self.todo_thread = None', 'R-C12-4'),
    V('poller started regardless of slot', 'B', 'pl/state.py', 'FSM.wait_for_doing', 'if self.doing_thread is None:', 'if True:', 'R-C12-4'),
    V('reset dropped from refresh edge', 'B', 'pl/state.dot', None, 'before=reset,', '', 'R-C12-5'),
    V('reset keeps priority', 'B', 'pl/state.py', 'FSM.reset', 'self.priority = None', 'pass', 'R-C12-5'),
    V('step_1 without activity test', 'B', 'fe/api/submit.py', 'Process.step_1', 'if not dawgie.context.fsm.is_pipeline_active():', 'if False:', 'R-C12-6'),
    V('todo poller watches a snapshot of the queue', 'B', 'pl/state.py', 'FSM.is_todo_done', 'while dawgie.pl.schedule.que and self.waiting_on_todo():', 'que = dawgie.pl.schedule.que\n        while que and self.waiting_on_todo():', 'R-C12-2'),
    V('crew poller snapshot of a call', 'B', 'pl/state.py', 'FSM.is_crew_done', 'while', 'snapshot = len(dawgie.pl.farm._busy)\n        while snapshot and', 'R-C12-2'),
    V('fallback handler narrowed to KeyError', 'B', 'pl/state.py', 'FSM.set_submit_info', 'except:', 'except KeyError:', 'R-C12-5'),
    V('fallback handler narrowed to ValueError', 'N', 'pl/state.py', 'FSM.set_submit_info', 'except:', 'except ValueError:', None),
    V('front end resets before gitting', 'B', 'fe/api/submit.py', 'Process.step_1', 'dawgie.context.fsm.gitting_trigger()', 'dawgie.context.fsm.reset()\n        dawgie.context.fsm.gitting_trigger()', 'R-C12-5'),
    V('done registered for failures too', 'B', 'pl/state.py', 'FSM.wait_for_doing', 'self.doing_thread.addCallbacks(\n                done,', 'self.doing_thread.addBoth(done)\n            self.doing_thread.addCallbacks(\n                print,', 'R-C12-3'),
    V('latch released by the request handler', 'B', 'fe/api/submit.py', 'Defer.__call__', 'process.step_0()', 'process.step_0()\n                self.clear()', 'R-C12-7'),
    V('forgiving priority lookup', 'B', 'tools/submit.py', 'Priority.max', '@staticmethod\n    def max(*largs):', '@classmethod\n    def _missing_(cls, value):\n        return None\n\n    @staticmethod\n    def max(*largs):', 'R-C12-7'),
    V('crossroads with inverted first test', 'N', 'pl/state.py', 'FSM.submit_crossroads', 'if self.priority is None:\n                pass\n            elif', 'if', None),
    V('done with early return', 'N', 'pl/state.py', 'FSM.wait_for_crew', 'if self.waiting_on_crew():\n                self.update_trigger()\n                pass', 'if not self.waiting_on_crew():\n                return\n            self.update_trigger()', None),
]
