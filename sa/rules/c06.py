"""C06  Stored values come back intact, and only to their own author, version, target.

The rules work on *terms*: every expression of the analysed functions is evaluated symbolically (names replaced by
what they were bound to, calls to helpers of the model module and to the accessors of dawgie.Dataset inlined) along
every control path (sa.flow.Flow).  A prime key is then a term whose shape can be compared: which table each field was
interned in, which id is the parent of which level, whose version went into which level, and where the arguments came
from.  Nothing depends on variable names, statement positions or on the private helper __to_key still existing.
"""

import ast
import itertools

from .. import AnalysisError
from ..flow import Flow, Out, walk_no_nested
from ..report import Report
from ..util import where, norm
from ..variants import V

PID = 'C06'

MODEL = 'dawgie.db.shelve.model'
IFACE = MODEL + '.Interface'
DATASET = 'dawgie.Dataset'
COMMS = 'dawgie.db.shelve.comms'
CONN = COMMS + '.Connector'
UPD = CONN + '._update_cmd'
SETP = CONN + '._set_prime'
GETP = CONN + '._get_prime'
PKEYS = CONN + '._prime_keys'
RPC = CONN + '._Connector__do'
ACQ = COMMS + '.acquire'
REL = COMMS + '.release'
UAPPEND = 'dawgie.db.shelve.util.append'
UCONSTRUCT = 'dawgie.db.shelve.util.construct'
TABLE = 'dawgie.db.shelve.enums.Table.'

FIELDS = ('run', 'target', 'task', 'algorithm', 'state vector', 'value')
TABLES = (None, 'target', 'task', 'alg', 'state', 'value')  # table of each key field (prime table layout)

SELF = ('param', 'self')
LOCK = ('lock', 'own')


def C(v):
    return ('const', type(v).__name__, v)


CNONE = C(None)

# methods that change their receiver (value-like locals are re-bound, identity-like receivers get a store event)
MUTATORS = {
    'sort', 'reverse', 'append', 'extend', 'insert', 'remove', 'pop', 'clear', 'update', 'add', 'discard',
    'setdefault', 'popitem', '__setitem__', '__delitem__',
}
# names of the logging API: calls on a logging.Logger do not raise in practice (accepted between acquire and try)
LOG_METHODS = {'debug', 'info', 'warning', 'warn', 'error', 'critical', 'exception', 'log'}
WRAPPERS = {'external:list', 'external:tuple', 'external:set', 'external:frozenset'}


class _NU(Exception):
    """expression outside the subset the concrete mini evaluator understands"""


# ---------------------------------------------------------------------------
# term helpers


def subterms(t):
    stack = [t]
    while stack:
        x = stack.pop()
        if isinstance(x, tuple):
            yield x
            stack.extend(x)


def contains(t, sub):
    return any(x == sub for x in subterms(t))


def subst(t, mapping):
    if t in mapping:
        return mapping[t]
    if isinstance(t, tuple):
        return tuple(subst(x, mapping) for x in t)
    return t


def show(t, depth=0):
    """compact rendering of a term for messages"""
    if not isinstance(t, tuple) or not t:
        return repr(t)
    k = t[0]
    if k == 'const':
        return repr(t[2])
    if k in ('param', 'given'):
        return t[1]
    if k == 'glob':
        return t[1].replace('external:', '').replace('dawgie.db.shelve.enums.', '')
    if k == 'unk':
        return t[2]
    if k == 'lock':
        return '<lock>'
    if depth > 4:
        return '...'
    if k == 'attr':
        return f'{show(t[1], depth + 1)}.{t[2].split("__")[-1] if t[2].startswith("_") and "__" in t[2] else t[2]}'
    if k == 'call':
        f = t[1][1].rsplit('.', 1)[-1] if t[1][0] == 'func' else show(t[1], depth + 1)
        if t[1][0] == 'func' and t[2] is not None:
            f = show(t[2], depth + 1) + '.' + f
        return f + '(' + ', '.join(show(a[1], depth + 1) for a in t[3]) + ')'
    if k == 'sub':
        return f'{show(t[1], depth + 1)}[{show(t[2], depth + 1)}]'
    if k == 'slice':
        return ':'.join('' if x is None else show(x, depth + 1) for x in t[1:])
    if k in ('tuple', 'list'):
        return ('(%s)' if k == 'tuple' else '[%s]') % ', '.join(show(x, depth + 1) for x in t[1])
    if k == 'elem':
        return f'<each of {show(t[1], depth + 1)}>'
    if k == 'binop':
        return f'{show(t[2], depth + 1)} {t[1]} {show(t[3], depth + 1)}'
    if k == 'sorted':
        return f'sorted({show(t[1], depth + 1)})'
    if k in ('max', 'min'):
        return f'{k}({show(t[1], depth + 1)})'
    if k in ('lambda', 'comp', 'expr'):
        return t[1] if k != 'expr' else t[2]
    return k


def is_call_to(t, q):
    return isinstance(t, tuple) and len(t) == 4 and t[0] == 'call' and t[1] == ('func', q)


def args_of(t):
    return dict(t[3])


def strip_wrappers(t):
    """list(x) / set(x) / tuple(x) / frozenset(x) / sorted x -> x"""
    while True:
        if t[0] == 'call' and t[1][0] == 'glob' and t[1][1] in WRAPPERS and len(t[3]) == 1:
            t = t[3][0][1]
        elif t[0] == 'sorted':
            t = t[1]
        elif t[0] == 'mut' and t[1] == 'reverse':
            t = t[2]
        else:
            return t


def is_primekeys(t):
    return is_call_to(strip_wrappers(t), PKEYS)


def cand_base(t):
    """the filter(...) / comprehension term a candidate collection is derived from, else None"""
    b = strip_wrappers(t)
    if b[0] == 'call' and b[1] == ('glob', 'external:filter') and len(b[3]) == 2:
        return b
    if b[0] == 'comp':
        return b
    return None


# ---------------------------------------------------------------------------
# concrete mini evaluator for pure predicates / sort keys over tuples of small integers (truth tables)

_PEV_FUNCS = {'all': all, 'any': any, 'len': len, 'tuple': tuple, 'list': list, 'range': range, 'zip': zip, 'bool': bool, 'int': int, 'enumerate': enumerate, 'abs': abs}


def _pev(n, env):
    if isinstance(n, ast.Constant):
        return n.value
    if isinstance(n, ast.Name):
        if n.id in env:
            return env[n.id]
        raise _NU(f'name {n.id} is neither the candidate nor the reference key')
    if isinstance(n, (ast.Tuple, ast.List)):
        if any(isinstance(x, ast.Starred) for x in n.elts):
            raise _NU('starred element')
        vals = [_pev(x, env) for x in n.elts]
        return tuple(vals) if isinstance(n, ast.Tuple) else vals
    if isinstance(n, ast.Subscript):
        v = _pev(n.value, env)
        if not isinstance(v, (tuple, list)):
            raise _NU('subscript of a non-sequence')
        try:
            if isinstance(n.slice, ast.Slice):
                lo = None if n.slice.lower is None else _pev(n.slice.lower, env)
                hi = None if n.slice.upper is None else _pev(n.slice.upper, env)
                stp = None if n.slice.step is None else _pev(n.slice.step, env)
                return v[lo:hi:stp]
            i = _pev(n.slice, env)
            if not isinstance(i, int):
                raise _NU('non-integer index')
            return v[i]
        except (IndexError, TypeError, ValueError) as e:
            raise _NU(f'subscript fails: {e}') from e
    if isinstance(n, ast.UnaryOp):
        v = _pev(n.operand, env)
        if isinstance(n.op, ast.Not):
            return not v
        if isinstance(n.op, ast.USub) and isinstance(v, int):
            return -v
        raise _NU('unary operator')
    if isinstance(n, ast.BoolOp):
        r = None
        for x in n.values:
            r = _pev(x, env)
            if isinstance(n.op, ast.And) and not r:
                return r
            if isinstance(n.op, ast.Or) and r:
                return r
        return r
    if isinstance(n, ast.IfExp):
        return _pev(n.body, env) if _pev(n.test, env) else _pev(n.orelse, env)
    if isinstance(n, ast.Compare):
        left = _pev(n.left, env)
        for op, c in zip(n.ops, n.comparators):
            right = _pev(c, env)
            try:
                if isinstance(op, ast.Eq):
                    ok = left == right
                elif isinstance(op, ast.NotEq):
                    ok = left != right
                elif isinstance(op, ast.Lt):
                    ok = left < right
                elif isinstance(op, ast.LtE):
                    ok = left <= right
                elif isinstance(op, ast.Gt):
                    ok = left > right
                elif isinstance(op, ast.GtE):
                    ok = left >= right
                elif isinstance(op, ast.Is):
                    ok = left is right
                elif isinstance(op, ast.IsNot):
                    ok = left is not right
                elif isinstance(op, ast.In):
                    ok = left in right
                elif isinstance(op, ast.NotIn):
                    ok = left not in right
                else:
                    raise _NU('comparison operator')
            except TypeError as e:
                raise _NU(f'comparison fails: {e}') from e
            if not ok:
                return False
            left = right
        return True
    if isinstance(n, ast.BinOp):
        a, b = _pev(n.left, env), _pev(n.right, env)
        try:
            if isinstance(n.op, ast.Add):
                return a + b
            if isinstance(n.op, ast.Sub):
                return a - b
            if isinstance(n.op, ast.Mult):
                return a * b
        except TypeError as e:
            raise _NU(f'arithmetic fails: {e}') from e
        raise _NU('binary operator')
    if isinstance(n, ast.Call) and isinstance(n.func, ast.Name) and n.func.id in _PEV_FUNCS and not n.keywords and n.func.id not in env:
        args = [_pev(a, env) for a in n.args]
        try:
            r = _PEV_FUNCS[n.func.id](*args)
        except (TypeError, ValueError) as e:
            raise _NU(f'{n.func.id}() fails: {e}') from e
        return list(r) if n.func.id in ('zip', 'enumerate', 'range') else r
    if isinstance(n, (ast.ListComp, ast.GeneratorExp, ast.SetComp)):
        out = []

        def gen(i, env):
            if i == len(n.generators):
                out.append(_pev(n.elt, env))
                return
            g = n.generators[i]
            it = _pev(g.iter, env)
            if not isinstance(it, (list, tuple, range)):
                raise _NU('comprehension over a non-sequence')
            for v in it:
                e2 = dict(env)
                _pbind(g.target, v, e2)
                if all(_pev(c, e2) for c in g.ifs):
                    gen(i + 1, e2)

        gen(0, env)
        return out
    raise _NU(f'{type(n).__name__} expression')


def _pbind(t, v, env):
    if isinstance(t, ast.Name):
        env[t.id] = v
    elif isinstance(t, (ast.Tuple, ast.List)) and isinstance(v, (tuple, list)) and len(t.elts) == len(v):
        for a, b in zip(t.elts, v):
            _pbind(a, b, env)
    else:
        raise _NU('comprehension target')


# ---------------------------------------------------------------------------
# shared analysis context


class _An:
    def __init__(self, ctx):
        self.ctx = ctx
        self.prog = ctx.prog
        self.cg = ctx.cg
        self.summ = {}
        self.nodes = {}  # lambda / comprehension term -> (ast node, _Sym, state at creation)
        self.origin = {}  # call term -> (Func, ast.Call) where it was first built
        self.runs = {}
        self._reach = {}
        self._lockers = None
        self._loggers = {}

    def reaches(self, q, target):
        k = (q, target)
        if k not in self._reach:
            self._reach[k] = q == target or target in self.cg.reachable([q], kinds={'direct'})
        return self._reach[k]

    def lockers(self):
        """functions that take the database lock themselves (directly or through callees)"""
        if self._lockers is None:
            self._lockers = {q for q in self.prog.funcs if q != ACQ and self.reaches(q, ACQ)}
        return self._lockers

    def lockparams(self, f):
        """parameters of f that carry a lock handed in by the caller: released by f, or re-bound to acquire()"""
        out = set()
        ps = set(f.params())
        for n in f.own_nodes():
            if isinstance(n, ast.Call):
                sym = self.prog.callee(n, f)
                if sym == REL:
                    out |= {a.id for a in n.args if isinstance(a, ast.Name) and a.id in ps}
            elif isinstance(n, ast.Assign) and isinstance(n.value, ast.Call) and self.prog.callee(n.value, f) == ACQ:
                out |= {t.id for t in n.targets if isinstance(t, ast.Name) and t.id in ps}
        return out

    def is_logger(self, expr, f):
        """expr denotes a logging.Logger: module global / self attribute bound to getLogger(...) / getChild(...)"""
        k = (norm(expr), f.module.name, f.cls.qname if f.cls else None)
        if k in self._loggers:
            return self._loggers[k]
        vals = []
        if isinstance(expr, ast.Name):
            vals = f.module.globals.get(expr.id, [])
        elif isinstance(expr, ast.Attribute) and isinstance(expr.value, ast.Name) and f.cls is not None and f.params()[:1] == [expr.value.id]:
            seen, todo = set(), [f.cls.qname]
            while todo:
                cq = todo.pop()
                if cq in seen or cq not in self.prog.classes:
                    continue
                seen.add(cq)
                c = self.prog.classes[cq]
                todo.extend(c.bases)
                for m in c.methods.values():
                    for n in m.own_nodes():
                        if isinstance(n, ast.Assign):
                            for t in n.targets:
                                if isinstance(t, ast.Attribute) and t.attr == expr.attr and isinstance(t.value, ast.Name) and t.value.id == m.params()[0]:
                                    vals.append(n.value)
        elif isinstance(expr, ast.Attribute):
            sym = self.prog.resolve_in(expr, f) or ''
            mod, _, name = sym.rpartition('.')
            if mod in self.prog.modules:
                vals = self.prog.modules[mod].globals.get(name, [])
        ok = bool(vals) and all(
            isinstance(v, ast.Call) and isinstance(v.func, ast.Attribute) and v.func.attr in ('getLogger', 'getChild') for v in vals
        )
        self._loggers[k] = ok
        return ok

    def inlineable(self, g):
        return (g.module.name == MODEL or (g.cls is not None and g.cls.qname == DATASET)) and g.qname not in self.lockers()

    def summary(self, g, recv, A, depth, stack):
        """the single term every normal return of g yields for these arguments, else None"""
        k = (g.qname, recv, A)
        if k in self.summ:
            return self.summ[k]
        self.summ[k] = None
        if not any(isinstance(n, ast.Return) and n.value is not None for n in g.own_nodes()):
            return None
        env = dict(A)
        ps = g.params()
        if recv is not None and ps:
            env[ps[0]] = recv
        sub = _Sym(self, g, depth, stack + (g.qname,))
        try:
            out = sub.run(g.node, {frozenset(env.items())})
        except AnalysisError:
            return None
        rets = set(sub.returns)
        if out.normal:
            rets.add(CNONE)
        if len(rets) == 1:
            self.summ[k] = next(iter(rets))
        return self.summ[k]

    def run(self, f):
        """path analysis of a top-level function over every combination of None / given for its None-default parameters"""
        if f.qname in self.runs:
            return self.runs[f.qname]
        ps = f.params()
        a = f.node.args
        pos = a.posonlyargs + a.args
        dflt = dict(zip([x.arg for x in pos[len(pos) - len(a.defaults):]], a.defaults))
        dflt.update({x.arg: d for x, d in zip(a.kwonlyargs, a.kw_defaults) if d is not None})
        base, splits = {}, []
        for i, p in enumerate(ps):
            if i == 0 and f.cls is not None and not f.is_staticmethod():
                base[p] = SELF
            elif p in dflt and isinstance(dflt[p], ast.Constant) and dflt[p].value is None:
                splits.append(p)
            else:
                base[p] = ('param', p)
        lockps = self.lockparams(f)
        inits = set()
        for combo in itertools.product((False, True), repeat=len(splits)):
            env = dict(base)
            lock = 'borrowed' if any(p in lockps for p in base if base[p] != SELF) else 'free'
            for p, given in zip(splits, combo):
                env[p] = ('given', p) if given else CNONE
                if given and p in lockps:
                    lock = 'borrowed'
            env['#lock'] = lock
            inits.add(frozenset(env.items()))
        sym = _Sym(self, f, 0, (f.qname,))
        sym.top = True
        sym.out = sym.run(f.node, inits)
        self.runs[f.qname] = sym
        return sym
