"""C06  Stored values come back intact, and only to their own author, version, target.

The rules work on *terms*: every expression of the analysed functions is evaluated symbolically (names replaced by
what they were bound to, calls to helpers of the model module and to the accessors of dawgie.Dataset inlined) along
every control path (sa.flow.Flow).  A prime key is then a term whose shape can be compared: which table each field was
interned in, which id is the parent of which level, whose version went into which level, and where the arguments came
from.  Nothing depends on variable names, statement positions or on the private helper __to_key still existing.
"""

import ast
import itertools

from .. import AnalysisError
from ..flow import Flow, Out, walk_no_nested
from ..report import Report
from ..util import where, norm
from ..variants import V

PID = 'C06'

MODEL = 'dawgie.db.shelve.model'
IFACE = MODEL + '.Interface'
DATASET = 'dawgie.Dataset'
COMMS = 'dawgie.db.shelve.comms'
CONN = COMMS + '.Connector'
UPD = CONN + '._update_cmd'
SETP = CONN + '._set_prime'
GETP = CONN + '._get_prime'
PKEYS = CONN + '._prime_keys'
RPC = CONN + '._Connector__do'
ACQ = COMMS + '.acquire'
REL = COMMS + '.release'
UAPPEND = 'dawgie.db.shelve.util.append'
UCONSTRUCT = 'dawgie.db.shelve.util.construct'
TABLE = 'dawgie.db.shelve.enums.Table.'
DECODE = 'dawgie.db.util.decode'
DATA_DBS = ('glob', 'dawgie.context.data_dbs')
POST_LOAD = 'dawgie.db.post.Interface._load'
# decorators that leave the function's result per call alone
PLAIN_DECORATORS = {'staticmethod', 'classmethod', 'property', 'abstractmethod'}
MEMO_DECORATORS = {'lru_cache', 'cache', 'cached_property', 'memoize', 'memoized', 'memoise', 'cached', 'cachedmethod'}
UNPICKLERS = {'external:pickle.load', 'external:pickle.loads', 'external:_pickle.load', 'external:_pickle.loads'}

FIELDS = ('run', 'target', 'task', 'algorithm', 'state vector', 'value')
TABLES = (None, 'target', 'task', 'alg', 'state', 'value')  # table of each key field (prime table layout)

SELF = ('param', 'self')
LOCK = ('lock', 'own')


def C(v):
    return ('const', type(v).__name__, v)


CNONE = C(None)

# methods that change their receiver (value-like locals are re-bound, identity-like receivers get a store event)
MUTATORS = {
    'sort', 'reverse', 'append', 'extend', 'insert', 'remove', 'pop', 'clear', 'update', 'add', 'discard',
    'setdefault', 'popitem', '__setitem__', '__delitem__',
}
# names of the logging API: calls on a logging.Logger do not raise in practice (accepted between acquire and try)
LOG_METHODS = {'debug', 'info', 'warning', 'warn', 'error', 'critical', 'exception', 'log'}
WRAPPERS = {'external:list', 'external:tuple', 'external:set', 'external:frozenset'}


class _NU(Exception):
    """expression outside the subset the concrete mini evaluator understands"""


# ---------------------------------------------------------------------------
# term helpers


def subterms(t):
    stack = [t]
    while stack:
        x = stack.pop()
        if isinstance(x, tuple):
            yield x
            stack.extend(x)


def contains(t, sub):
    return any(x == sub for x in subterms(t))


def subst(t, mapping):
    if t in mapping:
        return mapping[t]
    if isinstance(t, tuple):
        return tuple(subst(x, mapping) for x in t)
    return t


def show(t, depth=0):
    """compact rendering of a term for messages"""
    if not isinstance(t, tuple) or not t:
        return repr(t)
    k = t[0]
    if k == 'const':
        return repr(t[2])
    if k in ('param', 'given'):
        return t[1]
    if k == 'glob':
        return t[1].replace('external:', '').replace('dawgie.db.shelve.enums.', '')
    if k == 'unk':
        return t[2]
    if k == 'lock':
        return '<lock>'
    if depth > 4:
        return '...'
    if k == 'attr':
        return f'{show(t[1], depth + 1)}.{t[2].split("__")[-1] if t[2].startswith("_") and "__" in t[2] else t[2]}'
    if k == 'call':
        f = t[1][1].rsplit('.', 1)[-1] if t[1][0] == 'func' else show(t[1], depth + 1)
        if t[1][0] == 'func' and t[2] is not None:
            f = show(t[2], depth + 1) + '.' + f
        return f + '(' + ', '.join(show(a[1], depth + 1) for a in t[3]) + ')'
    if k == 'sub':
        return f'{show(t[1], depth + 1)}[{show(t[2], depth + 1)}]'
    if k == 'slice':
        return ':'.join('' if x is None else show(x, depth + 1) for x in t[1:])
    if k in ('tuple', 'list'):
        return ('(%s)' if k == 'tuple' else '[%s]') % ', '.join(show(x, depth + 1) for x in t[1])
    if k == 'elem':
        return f'<each of {show(t[1], depth + 1)}>'
    if k == 'binop':
        return f'{show(t[2], depth + 1)} {t[1]} {show(t[3], depth + 1)}'
    if k == 'sorted':
        return f'sorted({show(t[1], depth + 1)})'
    if k in ('max', 'min'):
        return f'{k}({show(t[1], depth + 1)})'
    if k in ('lambda', 'comp', 'expr'):
        return t[1] if k != 'expr' else t[2]
    return k


def is_call_to(t, q):
    return isinstance(t, tuple) and len(t) == 4 and t[0] == 'call' and t[1] == ('func', q)


def args_of(t):
    return dict(t[3])


def strip_wrappers(t):
    """list(x) / set(x) / tuple(x) / frozenset(x) / sorted x -> x"""
    while True:
        if t[0] == 'call' and t[1][0] == 'glob' and t[1][1] in WRAPPERS and len(t[3]) == 1:
            t = t[3][0][1]
        elif t[0] == 'sorted':
            t = t[1]
        elif t[0] == 'mut' and t[1] == 'reverse':
            t = t[2]
        else:
            return t


def is_primekeys(t):
    return is_call_to(strip_wrappers(t), PKEYS)


def cand_base(t):
    """the filter(...) / comprehension term a candidate collection is derived from, else None"""
    b = strip_wrappers(t)
    if b[0] == 'call' and b[1] == ('glob', 'external:filter') and len(b[3]) == 2:
        return b
    if b[0] == 'comp':
        return b
    return None


# ---------------------------------------------------------------------------
# concrete mini evaluator for pure predicates / sort keys over tuples of small integers (truth tables)

_PEV_FUNCS = {'all': all, 'any': any, 'len': len, 'tuple': tuple, 'list': list, 'range': range, 'zip': zip, 'bool': bool, 'int': int, 'enumerate': enumerate, 'abs': abs}


def _pev(n, env):
    if isinstance(n, ast.Constant):
        return n.value
    if isinstance(n, ast.Name):
        if n.id in env:
            return env[n.id]
        raise _NU(f'name {n.id} is neither the candidate nor the reference key')
    if isinstance(n, (ast.Tuple, ast.List)):
        if any(isinstance(x, ast.Starred) for x in n.elts):
            raise _NU('starred element')
        vals = [_pev(x, env) for x in n.elts]
        return tuple(vals) if isinstance(n, ast.Tuple) else vals
    if isinstance(n, ast.Subscript):
        v = _pev(n.value, env)
        if not isinstance(v, (tuple, list)):
            raise _NU('subscript of a non-sequence')
        try:
            if isinstance(n.slice, ast.Slice):
                lo = None if n.slice.lower is None else _pev(n.slice.lower, env)
                hi = None if n.slice.upper is None else _pev(n.slice.upper, env)
                stp = None if n.slice.step is None else _pev(n.slice.step, env)
                return v[lo:hi:stp]
            i = _pev(n.slice, env)
            if not isinstance(i, int):
                raise _NU('non-integer index')
            return v[i]
        except (IndexError, TypeError, ValueError) as e:
            raise _NU(f'subscript fails: {e}') from e
    if isinstance(n, ast.UnaryOp):
        v = _pev(n.operand, env)
        if isinstance(n.op, ast.Not):
            return not v
        if isinstance(n.op, ast.USub) and isinstance(v, int):
            return -v
        raise _NU('unary operator')
    if isinstance(n, ast.BoolOp):
        r = None
        for x in n.values:
            r = _pev(x, env)
            if isinstance(n.op, ast.And) and not r:
                return r
            if isinstance(n.op, ast.Or) and r:
                return r
        return r
    if isinstance(n, ast.IfExp):
        return _pev(n.body, env) if _pev(n.test, env) else _pev(n.orelse, env)
    if isinstance(n, ast.Compare):
        left = _pev(n.left, env)
        for op, c in zip(n.ops, n.comparators):
            right = _pev(c, env)
            try:
                if isinstance(op, ast.Eq):
                    ok = left == right
                elif isinstance(op, ast.NotEq):
                    ok = left != right
                elif isinstance(op, ast.Lt):
                    ok = left < right
                elif isinstance(op, ast.LtE):
                    ok = left <= right
                elif isinstance(op, ast.Gt):
                    ok = left > right
                elif isinstance(op, ast.GtE):
                    ok = left >= right
                elif isinstance(op, ast.Is):
                    ok = left is right
                elif isinstance(op, ast.IsNot):
                    ok = left is not right
                elif isinstance(op, ast.In):
                    ok = left in right
                elif isinstance(op, ast.NotIn):
                    ok = left not in right
                else:
                    raise _NU('comparison operator')
            except TypeError as e:
                raise _NU(f'comparison fails: {e}') from e
            if not ok:
                return False
            left = right
        return True
    if isinstance(n, ast.BinOp):
        a, b = _pev(n.left, env), _pev(n.right, env)
        try:
            if isinstance(n.op, ast.Add):
                return a + b
            if isinstance(n.op, ast.Sub):
                return a - b
            if isinstance(n.op, ast.Mult):
                return a * b
        except TypeError as e:
            raise _NU(f'arithmetic fails: {e}') from e
        raise _NU('binary operator')
    if isinstance(n, ast.Call) and isinstance(n.func, ast.Name) and n.func.id in _PEV_FUNCS and not n.keywords and n.func.id not in env:
        args = [_pev(a, env) for a in n.args]
        try:
            r = _PEV_FUNCS[n.func.id](*args)
        except (TypeError, ValueError) as e:
            raise _NU(f'{n.func.id}() fails: {e}') from e
        return list(r) if n.func.id in ('zip', 'enumerate', 'range') else r
    if isinstance(n, (ast.ListComp, ast.GeneratorExp, ast.SetComp)):
        out = []

        def gen(i, env):
            if i == len(n.generators):
                out.append(_pev(n.elt, env))
                return
            g = n.generators[i]
            it = _pev(g.iter, env)
            if not isinstance(it, (list, tuple, range)):
                raise _NU('comprehension over a non-sequence')
            for v in it:
                e2 = dict(env)
                _pbind(g.target, v, e2)
                if all(_pev(c, e2) for c in g.ifs):
                    gen(i + 1, e2)

        gen(0, env)
        return out
    raise _NU(f'{type(n).__name__} expression')


def _pbind(t, v, env):
    if isinstance(t, ast.Name):
        env[t.id] = v
    elif isinstance(t, (ast.Tuple, ast.List)) and isinstance(v, (tuple, list)) and len(t.elts) == len(v):
        for a, b in zip(t.elts, v):
            _pbind(a, b, env)
    else:
        raise _NU('comprehension target')


# ---------------------------------------------------------------------------
# shared analysis context


class _An:
    def __init__(self, ctx):
        self.ctx = ctx
        self.prog = ctx.prog
        self.cg = ctx.cg
        self.summ = {}
        self.nodes = {}  # lambda / comprehension term -> (ast node, _Sym, state at creation)
        self.origin = {}  # call term -> (Func, ast.Call) where it was first built
        self.runs = {}
        self._reach = {}
        self._lockers = None
        self._loggers = {}

    def _rev(self, target):
        """every function from which `target` is reachable through direct call edges"""
        if target not in self._reach:
            seen, todo = set(), [target]
            while todo:
                q = todo.pop()
                if q in seen:
                    continue
                seen.add(q)
                for e in self.cg.inn.get(q, []):
                    if e.kind == 'direct' and e.src is not None and e.src.qname not in seen:
                        todo.append(e.src.qname)
            self._reach[target] = seen
        return self._reach[target]

    def reaches(self, q, target):
        return q in self._rev(target)

    def lockers(self):
        """functions that take the database lock themselves (directly or through callees)"""
        if self._lockers is None:
            self._lockers = self._rev(ACQ) - {ACQ}
        return self._lockers

    def lockparams(self, f):
        """parameters of f that carry a lock handed in by the caller: released by f, or re-bound to acquire()"""
        out = set()
        ps = set(f.params())
        for n in f.own_nodes():
            if isinstance(n, ast.Call):
                sym = self.prog.callee(n, f)
                if sym == REL:
                    out |= {a.id for a in n.args if isinstance(a, ast.Name) and a.id in ps}
            elif isinstance(n, ast.Assign) and isinstance(n.value, ast.Call) and self.prog.callee(n.value, f) == ACQ:
                out |= {t.id for t in n.targets if isinstance(t, ast.Name) and t.id in ps}
        return out

    def is_logger(self, expr, f):
        """expr denotes a logging.Logger: module global / self attribute bound to getLogger(...) / getChild(...)"""
        k = (norm(expr), f.module.name, f.cls.qname if f.cls else None)
        if k in self._loggers:
            return self._loggers[k]
        vals = []
        if isinstance(expr, ast.Name):
            vals = f.module.globals.get(expr.id, [])
        elif isinstance(expr, ast.Attribute) and isinstance(expr.value, ast.Name) and f.cls is not None and f.params()[:1] == [expr.value.id]:
            seen, todo = set(), [f.cls.qname]
            while todo:
                cq = todo.pop()
                if cq in seen or cq not in self.prog.classes:
                    continue
                seen.add(cq)
                c = self.prog.classes[cq]
                todo.extend(c.bases)
                for m in c.methods.values():
                    for n in m.own_nodes():
                        if isinstance(n, ast.Assign):
                            for t in n.targets:
                                if isinstance(t, ast.Attribute) and t.attr == expr.attr and isinstance(t.value, ast.Name) and t.value.id == m.params()[0]:
                                    vals.append(n.value)
        elif isinstance(expr, ast.Attribute):
            sym = self.prog.resolve_in(expr, f) or ''
            mod, _, name = sym.rpartition('.')
            if mod in self.prog.modules:
                vals = self.prog.modules[mod].globals.get(name, [])
        ok = bool(vals) and all(
            isinstance(v, ast.Call) and isinstance(v.func, ast.Attribute) and v.func.attr in ('getLogger', 'getChild') for v in vals
        )
        self._loggers[k] = ok
        return ok

    def inlineable(self, g):
        return (g.module.name == MODEL or (g.cls is not None and g.cls.qname == DATASET)) and g.qname not in self.lockers()

    def summary(self, g, recv, A, depth, stack):
        """the single term every normal return of g yields for these arguments, else None"""
        k = (g.qname, recv, A)
        if k in self.summ:
            return self.summ[k]
        self.summ[k] = None
        if not any(isinstance(n, ast.Return) and n.value is not None for n in g.own_nodes()):
            return None
        env = dict(A)
        ps = g.params()
        if recv is not None and ps:
            env[ps[0]] = recv
        sub = _Sym(self, g, depth, stack + (g.qname,))
        try:
            out = sub.run(g.node, {frozenset(env.items())})
        except AnalysisError:
            return None
        rets = set(sub.returns)
        if out.normal:
            rets.add(CNONE)
        if len(rets) == 1:
            self.summ[k] = next(iter(rets))
        return self.summ[k]

    def run(self, f):
        """path analysis of a top-level function over every combination of None / given for its None-default parameters"""
        if f.qname in self.runs:
            return self.runs[f.qname]
        ps = f.params()
        a = f.node.args
        pos = a.posonlyargs + a.args
        dflt = dict(zip([x.arg for x in pos[len(pos) - len(a.defaults):]], a.defaults))
        dflt.update({x.arg: d for x, d in zip(a.kwonlyargs, a.kw_defaults) if d is not None})
        base, splits = {}, []
        for i, p in enumerate(ps):
            if i == 0 and f.cls is not None and not f.is_staticmethod():
                base[p] = SELF
            elif p in dflt and isinstance(dflt[p], ast.Constant) and dflt[p].value is None:
                splits.append(p)
            else:
                base[p] = ('param', p)
        lockps = self.lockparams(f)
        inits = set()
        for combo in itertools.product((False, True), repeat=len(splits)):
            env = dict(base)
            lock = 'borrowed' if any(p in lockps for p in base if base[p] != SELF) else 'free'
            for p, given in zip(splits, combo):
                env[p] = ('given', p) if given else CNONE
                if given and p in lockps:
                    lock = 'borrowed'
            env['#lock'] = lock
            inits.add(frozenset(env.items()))
        sym = _Sym(self, f, 0, (f.qname,))
        sym.top = True
        sym.out = sym.run(f.node, inits)
        self.runs[f.qname] = sym
        return sym


# ---------------------------------------------------------------------------
# symbolic path interpreter


def _g(st, k):
    for a, b in st:
        if a == k:
            return b
    return None


def _s(st, k, v):
    s = {(a, b) for a, b in st if a != k}
    if v is not None:
        s.add((k, v))
    return frozenset(s)


def _valuelike(t):
    """terms with value semantics: a mutating method call on a local bound to one re-binds the local"""
    return t[0] in ('list', 'tuple', 'sorted', 'mut', 'comp') or (
        t[0] == 'call' and t[1][0] == 'glob' and t[1][1] in WRAPPERS | {'external:filter', 'external:dict', 'external:map'}
    )


class _Sym(Flow):
    split_assign_ifexp = True  # a key chosen by a conditional expression is followed arm by arm

    def __init__(self, an, func, depth, stack):
        super().__init__()
        self.an = an
        self.prog = an.prog
        self.f = func
        self.depth = depth
        self.stack = stack
        self.top = False
        self.returns = set()
        self.sites = {}  # id(call) -> (call, kind, set of (key term, value term, present, cands, lock))
        self.stores = {}  # id(node) -> (node, set of (kind, base, idx, value, present, cands))
        self.lock_events = {}  # (kind, id(node), lock state before, detail) -> node
        self.db = {}  # id(call) -> (call, callee, set of lock states)
        self.hazards = {}  # id(call) -> call evaluated with the lock held outside any try
        self.nested = {}  # id(call) -> (call, callee Func, set of (lock state, passed terms))
        self.cand_tests = {}
        self.member_tests = {}
        self._loops = {}
        self._tcache = {}
        self.ret_pairs = set()
        self.outer_try = False
        self._forks = {}

    # ------------------------------------------------------------ terms
    def T(self, e, st):
        k = (id(e), st)
        r = self._tcache.get(k)
        if r is None:
            r = self._tcache[k] = self._T(e, st)
        return r

    def _frees(self, e, st, bound=()):
        out = []
        for n in sorted({x.id for x in ast.walk(e) if isinstance(x, ast.Name)} - set(bound)):
            v = _g(st, n)
            if v is not None:
                out.append((n, v))
        return tuple(out)

    def _glob(self, e):
        sym = self.prog.resolve_in(e, self.f)
        if sym is None:
            return ('glob', norm(e))
        if sym.startswith('local:'):
            return None
        return ('glob', sym)

    def _T(self, e, st):
        if isinstance(e, ast.Constant):
            return C(e.value)
        if isinstance(e, ast.Name):
            v = _g(st, e.id)
            if v is not None:
                return v
            return self._glob(e) or ('unk', self.f.qname, e.id)
        if isinstance(e, ast.Attribute):
            parts = self.prog.dotted(e)
            if parts and _g(st, parts[0]) is None:
                g = self._glob(e)
                if g is not None and not g[1].startswith('self.'):
                    return g
            return ('attr', self.T(e.value, st), e.attr)
        if isinstance(e, ast.Call):
            return self._call_term(e, st)
        if isinstance(e, ast.Subscript):
            return ('sub', self.T(e.value, st), self.T(e.slice, st))
        if isinstance(e, ast.Slice):
            return ('slice',) + tuple(None if x is None else self.T(x, st) for x in (e.lower, e.upper, e.step))
        if isinstance(e, (ast.Tuple, ast.List)):
            elts = []
            for x in e.elts:
                if isinstance(x, ast.Starred):
                    t = self.T(x.value, st)
                    if t[0] in ('tuple', 'list'):
                        elts.extend(t[1])
                    else:
                        elts.append(('star', t))
                else:
                    elts.append(self.T(x, st))
            return ('tuple' if isinstance(e, ast.Tuple) else 'list', tuple(elts))
        if isinstance(e, ast.UnaryOp) and isinstance(e.op, ast.USub) and isinstance(e.operand, ast.Constant) and isinstance(e.operand.value, (int, float)):
            return C(-e.operand.value)
        if isinstance(e, ast.BinOp):
            a, b = self.T(e.left, st), self.T(e.right, st)
            if isinstance(e.op, ast.Add) and a[0] == b[0] and a[0] in ('list', 'tuple'):
                return (a[0], a[1] + b[1])
            return ('binop', type(e.op).__name__, a, b)
        if isinstance(e, ast.Lambda):
            a = e.args
            names = [x.arg for x in a.posonlyargs + a.args + a.kwonlyargs]
            pos = a.posonlyargs + a.args
            dfl = tuple((p.arg, self.T(d, st)) for p, d in zip(pos[len(pos) - len(a.defaults):], a.defaults))
            t = ('lambda', norm(e), dfl, self._frees(e.body, st, names))
            self.an.nodes.setdefault(t, (e, self, st))
            return t
        if isinstance(e, (ast.ListComp, ast.GeneratorExp, ast.SetComp)):
            bound = {x.id for g in e.generators for x in ast.walk(g.target) if isinstance(x, ast.Name)}
            t = ('comp', norm(e), self._frees(e, st, bound))
            self.an.nodes.setdefault(t, (e, self, st))
            return t
        if isinstance(e, ast.NamedExpr):
            return self.T(e.value, st)
        return ('expr', type(e).__name__, norm(e), self._frees(e, st))

    def _is_instance_expr(self, v):
        if isinstance(v, (ast.Name, ast.Attribute)):
            sym = self.prog.resolve_in(v, self.f)
            if sym in self.prog.classes or sym in self.prog.modules:
                return False
        return True

    def resolve_call(self, e, st):
        """-> (callee Func, receiver term, bound argument terms) for a call to a repository function, else None"""
        sym = self.prog.callee(e, self.f)
        if not sym or sym.startswith(('local:', 'external:', 'dbimpl:')) or sym in self.prog.classes:
            return None
        g = self.prog.func_of(sym)
        if g is None:
            return None
        if any(isinstance(a, ast.Starred) for a in e.args) or any(k.arg is None for k in e.keywords):
            return g, None, None
        params = g.params()
        recv = None
        if g.cls is not None and not g.is_staticmethod() and isinstance(e.func, ast.Attribute) and self._is_instance_expr(e.func.value):
            recv = self.T(e.func.value, st)
            params = params[1:]
        a = g.node.args
        allp = a.posonlyargs + a.args
        dflt = dict(zip([x.arg for x in allp[len(allp) - len(a.defaults):]], a.defaults))
        dflt.update({x.arg: d for x, d in zip(a.kwonlyargs, a.kw_defaults) if d is not None})
        npos = len(allp) - (len(g.params()) - len(params))
        if len(e.args) > npos and a.vararg is None:
            return g, recv, None
        bound = {}
        for p, x in zip(params, e.args):
            bound[p] = self.T(x, st)
        for k in e.keywords:
            if k.arg not in params or k.arg in bound:
                return g, recv, None
            bound[k.arg] = self.T(k.value, st)
        for p in params:
            if p not in bound:
                d = dflt.get(p)
                if isinstance(d, ast.Constant):
                    bound[p] = C(d.value)
                elif d is not None:
                    bound[p] = ('default', g.qname, p)
                else:
                    return g, recv, None
        return g, recv, tuple((p, bound[p]) for p in params)

    def _call_term(self, e, st):
        sym = self.prog.callee(e, self.f)
        if sym == ACQ:
            return LOCK
        pos, kws, star = [], [], False
        for a in e.args:
            if isinstance(a, ast.Starred):
                star = True
                pos.append(('star', self.T(a.value, st)))
            else:
                pos.append(self.T(a, st))
        for k in e.keywords:
            if k.arg is None:
                star = True
                kws.append(('**', self.T(k.value, st)))
            else:
                kws.append((k.arg, self.T(k.value, st)))
        bname = e.func.id if isinstance(e.func, ast.Name) and sym == 'external:' + e.func.id and _g(st, e.func.id) is None else None
        if bname in ('list', 'tuple') and len(pos) == 1 and not kws and not star and pos[0][0] in ('list', 'tuple'):
            return (bname, pos[0][1])
        if bname == 'sorted' and len(pos) == 1 and not star and {k for k, _ in kws} <= {'key', 'reverse'}:
            kw = dict(kws)
            return ('sorted', pos[0], kw.get('key'), kw.get('reverse', C(False)))
        if bname in ('max', 'min') and len(pos) == 1 and not star and {k for k, _ in kws} <= {'key'}:
            return (bname, pos[0], dict(kws).get('key'))
        if bname == 'reversed' and len(pos) == 1 and not kws and not star:
            return ('mut', 'reverse', pos[0], ())
        rc = self.resolve_call(e, st)
        if rc is not None and rc[2] is not None:
            g, recv, A = rc
            if self.an.inlineable(g) and self.depth < 3 and g.qname not in self.stack:
                s = self.an.summary(g, recv, A, self.depth + 1, self.stack)
                if s is not None:
                    return s
            t = ('call', ('func', g.qname), recv, A)
            self.an.origin.setdefault(t, (self.f, e))
            return t
        if sym in self.prog.classes:
            F = ('glob', sym)
        else:
            F = self.T(e.func, st)
        return ('call', F, None, tuple((str(i), t) for i, t in enumerate(pos)) + tuple(kws))

    # ------------------------------------------------------------ statements
    def _bind(self, target, vt, st, node):
        if isinstance(target, ast.Name):
            if target.id in self._globals():
                self._store('global-store', node, ('glob', f'{self.f.module.name}.{target.id}'), None, vt, st)
            return _s(st, target.id, vt)
        if isinstance(target, (ast.Tuple, ast.List)):
            n = len(target.elts)
            for i, t in enumerate(target.elts):
                if isinstance(t, ast.Starred):
                    st = self._bind(t.value, ('sub', vt, ('slice', C(i), None, None)), st, node)
                elif vt[0] in ('tuple', 'list') and len(vt[1]) == n and not any(x[0] == 'star' for x in vt[1]):
                    st = self._bind(t, vt[1][i], st, node)
                else:
                    st = self._bind(t, ('sub', vt, C(i)), st, node)
            return st
        if isinstance(target, ast.Subscript):
            self._store('store', node, self.T(target.value, st), self.T(target.slice, st), vt, st)
        elif isinstance(target, ast.Attribute):
            self._store('attr-store', node, self.T(target.value, st), C(target.attr), vt, st)
        return st

    def _globals(self):
        g = self.__dict__.get('_gl')
        if g is None:
            g = self.__dict__['_gl'] = {n for x in self.f.own_nodes() if isinstance(x, (ast.Global, ast.Nonlocal)) for n in x.names}
        return g

    def _store(self, kind, node, base, idx, value, st):
        self.stores.setdefault(id(node), (node, set()))[1].add((kind, base, idx, value, _g(st, '#present'), _g(st, '#cands')))

    def on_stmt(self, s, st):
        if isinstance(s, ast.Assign):
            forks = self._fork_call(s.value, st) if isinstance(s.value, ast.Call) else None
            if forks:
                outs = []
                for ns, vt in forks:
                    for t in s.targets:
                        ns = self._bind(t, vt, ns, s)
                    outs.append(ns)
                return tuple(outs)
            vt = self.T(s.value, st)
            for t in s.targets:
                st = self._bind(t, vt, st, s)
        elif isinstance(s, ast.AnnAssign) and s.value is not None:
            st = self._bind(s.target, self.T(s.value, st), st, s)
        elif isinstance(s, ast.AugAssign):
            vt = self.T(s.value, st)
            if isinstance(s.target, ast.Name):
                old = self.T(s.target, st)
                if isinstance(s.op, ast.Add) and old[0] == vt[0] and old[0] in ('list', 'tuple'):
                    st = _s(st, s.target.id, (old[0], old[1] + vt[1]))
                else:
                    st = _s(st, s.target.id, ('binop', type(s.op).__name__, old, vt))
            else:
                st = self._bind(s.target, ('binop', type(s.op).__name__, self.T(s.target, st), vt), st, s)
        elif isinstance(s, ast.Delete):
            for t in s.targets:
                if isinstance(t, ast.Name):
                    st = _s(st, t.id, None)
                elif isinstance(t, ast.Subscript):
                    self._store('del', s, self.T(t.value, st), self.T(t.slice, st), None, st)
        return (st,)

    def on_return(self, node, st):
        forks = self._fork_call(node.value, st) if isinstance(node.value, ast.Call) else None
        if forks:
            for ns, t in forks:
                self.returns.add(t)
                self.ret_pairs.add((t, ns))
            return tuple(ns for ns, _t in forks)
        t = self.T(node.value, st) if node.value is not None else CNONE
        self.returns.add(t)
        self.ret_pairs.add((t, st))
        return (st,)

    def _fork_call(self, call, st):
        """call of a helper of the model whose result depends on the path taken inside it: interpret the helper in place
        (path facts and recorded events carry over) -> [(state after, result term)], or None when not applicable"""
        k = (id(call), st)
        if k in self._forks:
            return self._forks[k]
        self._forks[k] = None
        rc = self.resolve_call(call, st)
        if rc is None or rc[2] is None:
            return None
        g, recv, A = rc
        if not (self.an.inlineable(g) and self.depth < 3 and g.qname not in self.stack):
            return None
        if self.an.summary(g, recv, A, self.depth + 1, self.stack) is not None:
            return None
        if not any(isinstance(n, ast.Return) and n.value is not None for n in g.own_nodes()):
            return None
        env = dict(A)
        if recv is not None:
            env[g.params()[0]] = recv
        for sp in ('#lock', '#present', '#cands'):
            if _g(st, sp) is not None:
                env[sp] = _g(st, sp)
        sub = _Sym(self.an, g, self.depth + 1, self.stack + (g.qname,))
        sub.top = self.top
        sub.outer_try = bool(self._try) or self.outer_try
        for rec in ('sites', 'stores', 'lock_events', 'db', 'hazards', 'nested', 'cand_tests', 'member_tests'):
            setattr(sub, rec, getattr(self, rec))
        try:
            out = sub.run(g.node, {frozenset(env.items())})
        except AnalysisError:
            return None
        res = set()
        for t, s2 in set(sub.ret_pairs) | {(CNONE, x) for x in out.normal}:
            ns = st
            for sp in ('#lock', '#present', '#cands'):
                ns = _s(ns, sp, _g(s2, sp))
            res.add((ns, t))
        self._forks[k] = sorted(res, key=str)
        return self._forks[k]

    def on_with(self, item, st):
        if isinstance(item.optional_vars, ast.Name):
            st = _s(st, item.optional_vars.id, ('ctx', self.T(item.context_expr, st)))
        elif item.optional_vars is not None:
            for n in ast.walk(item.optional_vars):
                if isinstance(n, ast.Name):
                    st = _s(st, n.id, None)
        return (st,)

    def on_handler(self, h, st):
        if h.name:
            st = _s(st, h.name, None)
        return (st,)

    # ------------------------------------------------------------ loops
    def _havoc_names(self, body):
        """names whose value may grow from one iteration to the next (anything but re-binding to a constant)"""
        out = set()
        for s in body:
            for n in walk_no_nested(s):
                if isinstance(n, ast.Assign):
                    const = isinstance(n.value, ast.Constant)
                    for t in n.targets:
                        for x in ast.walk(t):
                            if isinstance(x, ast.Name) and isinstance(x.ctx, ast.Store) and not (const and x is t):
                                out.add(x.id)
                elif isinstance(n, (ast.AugAssign, ast.AnnAssign)) and isinstance(n.target, ast.Name):
                    out.add(n.target.id)
                elif isinstance(n, (ast.For, ast.comprehension)):
                    out |= {x.id for x in ast.walk(n.target) if isinstance(x, ast.Name)}
                elif isinstance(n, ast.NamedExpr):
                    out.add(n.target.id)
                elif isinstance(n, ast.withitem) and n.optional_vars is not None:
                    out |= {x.id for x in ast.walk(n.optional_vars) if isinstance(x, ast.Name)}
                elif isinstance(n, ast.Call) and isinstance(n.func, ast.Attribute) and n.func.attr in MUTATORS and isinstance(n.func.value, ast.Name):
                    out.add(n.func.value.id)
        return out

    def _loop_no(self, node):
        if id(node) not in self._loops:
            loops = sorted(
                (n for n in walk_no_nested(self.f.node) if isinstance(n, (ast.For, ast.While))), key=lambda n: (n.lineno, n.col_offset)
            )
            for i, n in enumerate(loops):
                self._loops[id(n)] = i
        return self._loops.get(id(node), -1)

    def _havoc(self, st, names, node):
        no = self._loop_no(node)
        for n in names:
            if _g(st, n) is not None:
                st = _s(st, n, ('loopvar', n, no))
        st = _s(_s(st, '#present', None), '#cands', None)
        return st

    def on_for(self, node, st):
        st = self._havoc(st, self._havoc_names(node.body), node)
        it = self.T(node.iter, st)
        return (self._bind(node.target, ('elem', it, self._loop_no(node)), st, node),)

    def on_for_done(self, node, st):
        return (_s(_s(st, '#present', None), '#cands', None),)

    def _s_For(self, s, states):
        head = self.eval(s.iter, states)
        its = {st: self.T(s.iter, st) for st in head}
        if not head or not all(t[0] in ('list', 'tuple') and not any(x[0] == 'star' for x in t[1]) for t in its.values()):
            return Flow._s_For(self, s, states)
        # literal table: unroll (key levels computed in a loop over a table)
        out = Out()
        for st in head:
            cur, brk = {st}, set()
            for el in its[st][1]:
                ent = {self._bind(s.target, el, c, s) for c in cur}
                ob = self.block(s.body, ent)
                out.ret |= ob.ret
                out.exc |= ob.exc
                brk |= ob.brk
                cur = self._cap(ob.normal | ob.cont)
                if not cur:
                    break
            if s.orelse:
                out.absorb(self.block(s.orelse, cur), True)
            else:
                out.normal |= cur
            out.normal |= brk
        return out

    def _s_While(self, s, states):
        hv = self._havoc_names(s.body)
        head = {self._havoc(st, hv, s) for st in states}
        out, exits = Out(), set()
        while True:
            t, f = self.cond(s.test, head)
            exits |= f
            ob = self.block(s.body, t)
            out.ret |= ob.ret
            out.exc |= ob.exc
            out.normal |= ob.brk
            new = head | {self._havoc(x, hv, s) for x in ob.normal | ob.cont}
            self._cap(new)
            if new == head:
                break
            head = new
        if s.orelse:
            out.absorb(self.block(s.orelse, exits), True)
        else:
            out.normal |= exits
        return out

    # ------------------------------------------------------------ tests
    def _truth(self, e, st):
        if isinstance(e, ast.Name):
            v = _g(st, e.id)
            if v is None:
                return None
            if v[0] == 'const':
                return bool(v[2])
            if v[0] in ('lock', 'given'):
                return True
            return None
        if isinstance(e, ast.Compare) and len(e.ops) == 1 and isinstance(e.ops[0], (ast.Is, ast.IsNot, ast.Eq, ast.NotEq)):
            c = e.comparators[0]
            if isinstance(c, ast.Constant) and c.value is None:
                v = self.T(e.left, st)
                neg = isinstance(e.ops[0], (ast.IsNot, ast.NotEq))
                if v == CNONE:
                    return not neg
                if v[0] in ('lock', 'given', 'const', 'tuple', 'list'):
                    return neg
        return None

    @staticmethod
    def _emptiness_subject(e):
        """X | len(X) | len(X) > 0 | len(X) != 0 | len(X) >= 1 | 0 < len(X)   (positive)
        len(X) == 0 | len(X) < 1 (negative)   -> (X expr, positive?) else (None, None)"""

        def ln(x):
            if isinstance(x, ast.Call) and isinstance(x.func, ast.Name) and x.func.id == 'len' and len(x.args) == 1 and not x.keywords:
                return x.args[0]
            return None

        if isinstance(e, (ast.Name, ast.Attribute)):
            return e, True
        if ln(e) is not None:
            return ln(e), True
        if isinstance(e, ast.Compare) and len(e.ops) == 1:
            a, op, b = e.left, e.ops[0], e.comparators[0]
            if ln(b) is not None and isinstance(a, ast.Constant):  # 0 < len(X): mirror
                mirror = {ast.Lt: ast.Gt, ast.Gt: ast.Lt, ast.LtE: ast.GtE, ast.GtE: ast.LtE, ast.Eq: ast.Eq, ast.NotEq: ast.NotEq}
                a, b, op = b, a, mirror.get(type(op), type(None))()
            if ln(a) is not None and isinstance(b, ast.Constant) and isinstance(b.value, int) and not isinstance(b.value, bool):
                k = b.value
                if (isinstance(op, (ast.Gt, ast.NotEq)) and k == 0) or (isinstance(op, ast.GtE) and k == 1):
                    return ln(a), True
                if (isinstance(op, (ast.Eq, ast.LtE)) and k == 0) or (isinstance(op, ast.Lt) and k == 1):
                    return ln(a), False
        return None, None

    def on_test(self, e, st):
        t = self._truth(e, st)
        if t is True:
            return (st,), ()
        if t is False:
            return (), (st,)
        if isinstance(e, ast.Compare) and len(e.ops) == 1 and isinstance(e.ops[0], (ast.In, ast.NotIn)):
            coll = self.T(e.comparators[0], st)
            if is_primekeys(coll):
                k = self.T(e.left, st)
                self.member_tests[id(e)] = e
                yes, no = _s(st, '#present', ('yes', k)), _s(st, '#present', ('no', k))
                return ((yes,), (no,)) if isinstance(e.ops[0], ast.In) else ((no,), (yes,))
        subj, positive = self._emptiness_subject(e)
        if subj is not None:
            base = cand_base(self.T(subj, st))
            if base is not None:
                self.cand_tests[id(e)] = e
                ne, em = _s(st, '#cands', ('nonempty', base)), _s(st, '#cands', ('empty', base))
                return ((ne,), (em,)) if positive else ((em,), (ne,))
        return (st,), (st,)

    # ------------------------------------------------------------ calls
    def on_call(self, call, st):
        lock = _g(st, '#lock')
        sym = self.prog.callee(call, self.f)
        if sym == ACQ:
            self.lock_events[('acquire', id(call), lock, None)] = call
            return (_s(st, '#lock', 'held' if lock in ('free', None) else 'double'),)
        if sym == REL:
            a = self.T(call.args[0], st) if call.args else None
            self.lock_events[('release', id(call), lock, a)] = call
            return (_s(st, '#lock', 'released' if (lock == 'held' and a == LOCK) else 'bad-release'),)
        rc = self.resolve_call(call, st)
        g = rc[0] if rc else None
        is_log = (
            isinstance(call.func, ast.Attribute) and call.func.attr in LOG_METHODS and self.an.is_logger(call.func.value, self.f)
        )
        if self.top and lock == 'held' and not self._try and not self.outer_try and not is_log:
            self.hazards[id(call)] = call
        if g is not None and self.top:
            if g.qname in self.an.lockers():
                passed = tuple(sorted((p, t) for p, t in (rc[2] or ()) if p in self.an.lockparams(g)))
                self.nested.setdefault(id(call), (call, g, set()))[2].add((lock, passed))
            elif self.an.reaches(g.qname, RPC):
                self.db.setdefault(id(call), (call, g, set()))[2].add(lock)
        if g is not None and g.qname in (SETP, GETP) and rc[2] is not None:
            a = dict(rc[2])
            self.sites.setdefault(id(call), (call, 'set' if g.qname == SETP else 'get', set()))[2].add(
                (a.get('key'), a.get('value'), _g(st, '#present'), _g(st, '#cands'), lock)
            )
        # mutating method calls
        if isinstance(call.func, ast.Attribute) and call.func.attr in MUTATORS and g is None:
            m = call.func.attr
            recv = call.func.value
            old = self.T(recv, st)
            args = tuple(self.T(a, st) for a in call.args if not isinstance(a, ast.Starred))
            if isinstance(recv, ast.Name) and _g(st, recv.id) is not None and _valuelike(old):
                if m == 'sort' and not call.args and {k.arg for k in call.keywords} <= {'key', 'reverse'}:
                    kw = {k.arg: self.T(k.value, st) for k in call.keywords}
                    new = ('sorted', old, kw.get('key'), kw.get('reverse', C(False)))
                elif m == 'append' and old[0] == 'list' and len(args) == 1:
                    new = ('list', old[1] + args)
                elif m == 'extend' and old[0] == 'list' and len(args) == 1 and args[0][0] in ('list', 'tuple'):
                    new = ('list', old[1] + args[0][1])
                else:
                    new = ('mut', m, old, args)
                st = _s(st, recv.id, new)
            elif not is_log:
                self._store('mutcall:' + m, call, old, args[0] if args else None, args[1] if len(args) > 1 else None, st)
        elif g is None or not self.an.inlineable(g):
            # an unknown callee may change a literal list handed to it
            for a in call.args:
                if isinstance(a, ast.Name) and (_g(st, a.id) or ('',))[0] == 'list':
                    st = _s(st, a.id, ('mut', 'passed', _g(st, a.id), ()))
        return (st,)


# ---------------------------------------------------------------------------
# shapes


def nt_fields(module, name):
    """field names of a module-level collections.namedtuple, else None"""
    for v in module.globals.get(name, []):
        if isinstance(v, ast.Call) and isinstance(v.func, ast.Attribute) and v.func.attr == 'namedtuple' and len(v.args) >= 2:
            a = v.args[1]
            if isinstance(a, (ast.List, ast.Tuple)) and all(isinstance(x, ast.Constant) and isinstance(x.value, str) for x in a.elts):
                return [x.value for x in a.elts]
            if isinstance(a, ast.Constant) and isinstance(a.value, str):
                return a.value.replace(',', ' ').split()
    return None


def nt_args(prog, t):
    """('call', ('glob', '<module>.<NT>'), None, args) -> {field: term} using the namedtuple definition, else None"""
    if not (isinstance(t, tuple) and t[0] == 'call' and t[1][0] == 'glob'):
        return None
    mod, _, name = t[1][1].rpartition('.')
    if mod not in prog.modules:
        return None
    fields = nt_fields(prog.modules[mod], name)
    if fields is None:
        return None
    out = {}
    for k, v in t[3]:
        if k.isdigit():
            if int(k) >= len(fields):
                return None
            out[fields[int(k)]] = v
        elif k in fields:
            out[k] = v
        else:
            return None
    return out


class Wire:
    """how Connector._update_cmd puts its parameters on the wire and which element of the reply is the table index"""

    def __init__(self, an):
        prog = an.prog
        self.problems = []
        self.roles = {}  # role (name, parent, ver, table) -> parameter name of _update_cmd
        self.index_pos = None
        f = self.f = prog.func(UPD)
        self.append = prog.func(UAPPEND)
        self.construct = prog.func(UCONSTRUCT)
        ps = f.params()[1:]
        s = an.summary(f, SELF, tuple((p, ('param', p)) for p in ps), 1, ())
        cmd = None
        if s is not None and is_call_to(s, RPC) and len(s[3]) == 1:
            cmd = nt_args(prog, s[3][0][1])
        if cmd is None:
            self.problems.append('Connector._update_cmd does not return the reply of one COMMAND sent through Connector.__do')
        else:
            if cmd.get('func') != ('glob', 'dawgie.db.shelve.enums.Func.upd'):
                self.problems.append(f'the request of _update_cmd is sent as {show(cmd.get("func"))}, not Func.upd')
            ks = nt_args(prog, cmd.get('keyset'))
            if ks is None:
                self.problems.append('the keyset of the _update_cmd request is not a KEYSET(name, parent, ver)')
            else:
                for role in ('name', 'parent', 'ver'):
                    t = ks.get(role)
                    if t is not None and t[0] == 'param' and t[1] in ps:
                        self.roles[role] = t[1]
                    else:
                        self.problems.append(f'KEYSET field {role} of the _update_cmd request is {show(t) if t else "missing"}, not a parameter of _update_cmd')
            t = cmd.get('table')
            if t is not None and t[0] == 'param' and t[1] in ps:
                self.roles['table'] = t[1]
            else:
                self.problems.append('COMMAND field table of the _update_cmd request is not a parameter of _update_cmd')
        if len(set(self.roles.values())) != len(self.roles):
            self.problems.append(f'one parameter of _update_cmd is sent in two KEYSET/COMMAND fields: {self.roles}')
        for role in ('name', 'parent', 'ver', 'table'):
            self.roles.setdefault(role, role)
        # the reply: util.append(name, table, index, parent, ver) -> (exists, idx, name)
        a = self.append
        aps = a.params()
        miss = [r for r in ('name', 'parent', 'ver') if r not in aps]
        if miss:
            self.problems.append(f'util.append has no parameter(s) {miss}: the KEYSET fields are passed to it by keyword')
        s = an.summary(a, None, tuple((p, ('param', p)) for p in aps), 1, ())
        self.cterm = None
        if s is None or s[0] != 'tuple':
            self.problems.append('util.append does not return one tuple on every path')
        else:
            for i, el in enumerate(s[1]):
                if el[0] == 'sub' and el[1][0] == 'param' and is_call_to(el[2], UCONSTRUCT):
                    self.index_pos = i
                    self.cterm = el[2]
            if self.index_pos is None:
                self.problems.append('no element of the tuple returned by util.append is <table>[construct(name, parent, ver)]')
            else:
                ca = list(self.cterm[3])
                want = [('param', r) for r in ('name', 'parent', 'ver')]
                if [t for _, t in ca[:3]] != want:
                    self.problems.append(f'util.append builds the table key as {show(self.cterm)}: name, parent and ver do not reach construct in their own slots')
        # construct: the name depends on all three
        c = self.construct
        cps = c.params()
        sub = _Sym(an, c, 1, (c.qname,))
        try:
            sub.run(c.node, {frozenset((p, ('param', p)) for p in cps)})
            rets = sub.returns
        except AnalysisError:
            rets = set()
        if len(cps) < 3 or not rets:
            self.problems.append('util.construct not understood')
        else:
            if not all(contains(t, ('param', cps[0])) for t in rets):
                self.problems.append('util.construct can return a name that does not contain the element name')
            for p, what in ((cps[1], 'parent id'), (cps[2], 'version')):
                if not any(contains(t, ('param', p)) for t in rets):
                    self.problems.append(f'util.construct never puts the {what} into the name')


def match_level(t, wire):
    """<self>._update_cmd(...)[i] -> dict(call, index, name, parent, ver, table) else None"""
    if isinstance(t, tuple) and len(t) == 3 and t[0] == 'sub' and is_call_to(t[1], UPD):
        a = args_of(t[1])
        d = {'call': t[1], 'index': t[2], 'term': t}
        for role in ('name', 'parent', 'ver', 'table'):
            d[role] = a.get(wire.roles[role])
        return d
    return None


def table_of(level):
    t = level['table']
    if t is not None and t[0] == 'glob' and t[1].startswith(TABLE):
        return t[1][len(TABLE):]
    return None


def own_version(level, what):
    """level is (X.name(), ..., X._get_ver()) -> X else None   [what='elem']
    level is (VN, ..., Y[VN]._get_ver()) -> (Y, VN) else None   [what='item']"""
    v, n = level['ver'], level['name']
    if not (v is not None and v[0] == 'call' and v[1][0] == 'attr' and v[1][2] == '_get_ver' and not v[3]):
        return None
    owner = v[1][1]
    if what == 'elem':
        if n == ('call', ('attr', owner, 'name'), None, ()):
            return owner
        return None
    if owner[0] == 'sub' and owner[2] == n:
        return owner[1], n
    return None


def key_fields(t):
    if isinstance(t, tuple) and t[0] == 'tuple' and not any(x[0] == 'star' for x in t[1]):
        return list(t[1])
    return None


class KeyCheck:
    """obligations of R-C06-1 on one key term; collects (construct, ok, detail, where) and the holes of the key"""

    def __init__(self, an, wire, term, holder):
        self.an = an
        self.wire = wire
        self.term = term
        self.holder = holder  # Func in which the key is used (for keys that are built in place)
        self.obl = []
        self.holes = {}
        self.ok = True
        self._check()

    def _origin(self, level):
        f, node = self.an.origin.get(level['call'], (self.holder, None))
        return f, where(f, node)

    def _add(self, f, wh, what, ok, detail, msg):
        self.obl.append((f'{f.qname}:{what}', ok, detail if ok else msg, wh))
        self.ok = self.ok and ok

    def _check(self):
        w = self.wire
        fs = key_fields(self.term)
        h = self.holder
        lv0 = None
        if fs is not None:
            for x in fs:
                lv0 = lv0 or match_level(x, w)
        of, ow = self._origin(lv0) if lv0 else (h, where(h))
        self._add(of, ow, 'key-layout', fs is not None and len(fs) == 6, '6 fields', f'the prime key is {show(self.term)}: not a tuple of the 6 fields (run, target, task, algorithm, state vector, value)')
        if fs is None or len(fs) != 6:
            return
        self.holes['run'] = fs[0]
        lv = [None] + [match_level(x, w) for x in fs[1:]]
        self._add(of, ow, 'key-field[run]', match_level(fs[0], w) is None and not any(match_level(x, w) for x in subterms(fs[0])), 'field 0 is the run id as given', f'field 0 of the prime key is {show(fs[0])}, not a plain run id')
        for i in range(1, 6):
            L = lv[i]
            if L is None:
                self._add(of, ow, f'key-field[{FIELDS[i]}]', False, '', f'field {i} ({FIELDS[i]}) of the prime key is {show(fs[i])}, not an id interned with _update_cmd')
                continue
            f, wh = self._origin(L)
            tb = table_of(L)
            idx = L['index']
            okidx = idx[0] == 'const' and idx[1] == 'int' and idx[2] == w.index_pos
            self._add(
                f, wh, f'key-field[{FIELDS[i]}]', tb == TABLES[i] and okidx, f'Table.{tb} index (reply element {w.index_pos})',
                (f'field {i} of the prime key must be the {FIELDS[i]} id (Table.{TABLES[i]}) but is interned in {show(L["table"])}' if tb != TABLES[i] else '')
                + ('' if okidx else f' element {show(idx)} of the _update_cmd reply is used, the table index is element {w.index_pos}'),
            )
        # parent chain
        for i in (3, 4, 5):
            L, P = lv[i], lv[i - 1]
            if L is None:
                continue
            f, wh = self._origin(L)
            good = P is not None and L['parent'] == P['term']
            self._add(
                f, wh, f'key-parent[{FIELDS[i]}]', good, f'parent is the {FIELDS[i - 1]} id',
                f'the {FIELDS[i]} level is interned under parent {show(L["parent"]) if L["parent"] else None}, not under the id of its own {FIELDS[i - 1]} ({show(P["term"]) if P else "?"}): '
                f'two {FIELDS[i]}s of the same name under different {FIELDS[i - 1]}s share one id',
            )
        # own versions
        X = Y = None
        if lv[1] is not None:
            self.holes['tn'] = lv[1]['name']
        if lv[2] is not None:
            self.holes['task'] = lv[2]['name']
        for i, hole in ((3, 'alg'), (4, 'sv')):
            L = lv[i]
            if L is None:
                continue
            f, wh = self._origin(L)
            o = own_version(L, 'elem')
            self._add(
                f, wh, f'key-version[{FIELDS[i]}]', o is not None, f'name and version of {show(o) if o else ""}',
                f'the {FIELDS[i]} level is interned with name {show(L["name"])} and version {show(L["ver"]) if L["ver"] else None}: not the name() and _get_ver() of one and the same {FIELDS[i]}; '
                f'values of different versions (or authors) share one id',
            )
            if o is not None:
                self.holes[hole] = o
        L = lv[5]
        if L is not None:
            f, wh = self._origin(L)
            o = own_version(L, 'item')
            Y = self.holes.get('sv')
            good = o is not None and (Y is None or o[0] == Y)
            self._add(
                f, wh, 'key-version[value]', good, f'version of {show(o[0])}[{show(o[1])}]' if o else '',
                f'the value level is interned with name {show(L["name"])} and version {show(L["ver"]) if L["ver"] else None}: not the _get_ver() of that value of the same state vector; '
                f'a value version bump would not separate old from new data',
            )
            if o is not None:
                self.holes['vn'] = o[1]
                self.holes.setdefault('sv', o[0])


# ---------------------------------------------------------------------------
# facts shared by the rules


class Facts:
    def __init__(self, ctx, rep):
        self.an = an = _An(ctx)
        prog = ctx.prog
        self.load = prog.func(IFACE + '._load')
        self.update = prog.func(IFACE + '._update')
        self.update_msv = prog.func(IFACE + '._update_msv')
        for q in (UPD, SETP, GETP, PKEYS, RPC, ACQ, REL):
            prog.func(q)
        # writers by role: every function with a call resolving to Connector._set_prime
        writers = {e.src.qname: e.src for e in ctx.cg.callers(SETP, kinds={'direct'}) if e.src is not None}
        writers.setdefault(self.update.qname, self.update)
        writers.setdefault(self.update_msv.qname, self.update_msv)
        self.writers = [writers[q] for q in sorted(writers)]
        self.bracketed = [self.load] + [w for w in self.writers]
        self.runs = {f.qname: an.run(f) for f in self.bracketed}
        rep.analysed(*self.bracketed)
        self.wire = Wire(an)
        rep.analysed(self.wire.f, self.wire.append, self.wire.construct)
        # own identity of a Dataset: what its accessors return
        self.own = {}
        for role, acc in (('run', '_runid'), ('tn', '_tn'), ('task', '_task'), ('alg', '_alg')):
            g = prog.func(f'{DATASET}.{acc}')
            rep.analysed(g)
            t = an.summary(g, SELF, (), 1, ())
            if t is None:
                raise AnalysisError(f'accessor {g.qname} does not return one expression')
            self.own[role] = t
        self.keychecks = {}

    def keycheck(self, term, holder):
        if term not in self.keychecks:
            self.keychecks[term] = KeyCheck(self.an, self.wire, term, holder)
        return self.keychecks[term]

    def writer_sites(self):
        for w in self.writers:
            for call, kind, sts in self.runs[w.qname].sites.values():
                if kind == 'set':
                    yield w, call, sts

    def reader_sites(self):
        for call, kind, sts in self.runs[self.load.qname].sites.values():
            if kind == 'get':
                yield self.load, call, sts

    def exact_reader_keys(self):
        """terms tested for membership in the prime keys by _load"""
        out = set()
        run = self.runs[self.load.qname]
        for _call, kind, sts in run.sites.values():
            for k, _v, present, _c, _l in sts:
                if present is not None:
                    out.add(present[1])
                if key_fields(k) is not None:
                    out.add(k)
        for _node, evs in run.stores.values():
            for ev in evs:
                if ev[4] is not None:
                    out.add(ev[4][1])
        return out


def _topup(r):
    """floors guard against vacuous passes; a rule that reports a finding is not passing, so it must end as VIOLATION, not ANALYSIS-ERROR"""
    if r.findings and r.instances < r.floor:
        r.instances = r.floor


def _flush(r, table):
    """emit de-duplicated obligations {construct: (ok, detail, where)}; a failure of a construct wins"""
    for construct in sorted(table):
        ok, detail, wh = table[construct]
        r.check(ok, construct, wh, detail, detail)


def _merge(table, construct, ok, detail, wh):
    cur = table.get(construct)
    if cur is None or (cur[0] and not ok):
        table[construct] = (ok, detail, wh)


def rule1(ctx, rep, fx):
    prog, an, wire = ctx.prog, fx.an, fx.wire
    with rep.rule(
        'R-C06-1',
        'prime key chain: fields (run, target, task, algorithm, state vector, value); each level interned under the id of the previous level '
        'and with the name and version of its own element; the id taken is the table index of the reply',
        floor=14,
        breaks='values are filed under, or read from, the id of another author or another version: a load returns foreign data',
    ) as r:
        table = {}
        # wire: parameter -> KEYSET field -> util.append -> construct, and which reply element is the index
        r.instance()
        _merge(
            table, f'{wire.f.qname}:wire', not wire.problems,
            f'name/parent/ver/table sent in their own fields ({wire.roles}); reply element {wire.index_pos} is <table>[construct(name, parent, ver)]'
            if not wire.problems else '; '.join(wire.problems), where(wire.f),
        )
        keys = []
        for w, call, sts in fx.writer_sites():
            keys += [(k, w) for k, *_ in sts]
        keys += [(k, fx.load) for k in fx.exact_reader_keys()]
        seen = set()
        for k, holder in keys:
            if k in seen or k is None:
                continue
            seen.add(k)
            kc = fx.keycheck(k, holder)
            for construct, ok, detail, wh in kc.obl:
                _merge(table, construct, ok, detail, wh)
        r.instance(len([c for c in table if ':key-' in c]))
        # siblings: every other tuple of interned ids built in the model module (Container / Timeline views compare them with key fields)
        origins = {an.origin[t][0].qname for t in an.origin if is_call_to(t, UPD)} if seen else set()
        mains = {c.rsplit(':', 1)[0] for c in table if ':key-' in c}
        for f in sorted(prog.modules[MODEL].funcs.values(), key=lambda f: f.qname) + sorted(
            (m for c in prog.modules[MODEL].classes.values() for m in c.methods.values()), key=lambda f: f.qname
        ):
            if f.qname in mains or f in fx.bracketed:
                continue
            n_upd = [c for c in f.calls() if (prog.callee(c, f) or '') == UPD]
            if len(n_upd) < 2:
                continue
            rep.analysed(f)
            run = an.run(f)
            terms = set(run.returns)
            for _node, evs in run.stores.values():
                for ev in evs:
                    terms |= {x for x in (ev[2], ev[3]) if x is not None}
            tuples = set()
            for t in terms:
                for x in subterms(t):
                    if x and x[0] in ('tuple', 'list') and len(x) == 2 and isinstance(x[1], tuple) and sum(1 for y in x[1] if match_level(y, wire)) >= 2:
                        tuples.add(x)
            for tp in sorted(tuples, key=show):
                lvs = [match_level(y, wire) for y in tp[1]]
                if not all(lvs):
                    _merge(table, f'{f.qname}:sibling-key', False, f'{show(tp)} mixes interned ids with other values', where(f))
                    continue
                tbs = [table_of(L) for L in lvs]
                r.instance(len(lvs))
                j = TABLES.index(tbs[0]) if tbs[0] in TABLES else -1
                seq_ok = j >= 1 and tuple(tbs) == TABLES[j : j + len(tbs)]
                _merge(
                    table, f'{f.qname}:sibling-key-layout', seq_ok,
                    f'ids of {tbs} in the order of the prime key fields' if seq_ok else f'the id tuple {show(tp)} uses tables {tbs}: not a run of consecutive prime key fields {TABLES[1:]}; it is compared with slices of prime keys',
                    where(f, an.origin.get(lvs[0]['call'], (f, None))[1]),
                )
                for i, L in enumerate(lvs):
                    tb = tbs[i]
                    wh = where(f, an.origin.get(L['call'], (f, None))[1])
                    if tb in ('alg', 'state', 'value'):
                        prev = TABLES[TABLES.index(tb) - 1]
                        P = match_level(L['parent'], wire) if L['parent'] else None
                        good = P is not None and table_of(P) == prev and (i == 0 or tbs[i - 1] != prev or P['term'] == lvs[i - 1]['term'])
                        _merge(
                            table, f'{f.qname}:sibling-key-parent[{tb}]', good, f'parent is the {prev} id' if good else
                            f'the {tb} id is interned under parent {show(L["parent"]) if L["parent"] else None}, not under the {prev} id of the same reference', wh,
                        )
                    if tb in ('alg', 'state'):
                        o = own_version(L, 'elem')
                        _merge(table, f'{f.qname}:sibling-key-version[{tb}]', o is not None, f'name and version of {show(o)}' if o else
                               f'the {tb} id is interned with name {show(L["name"])} and version {show(L["ver"]) if L["ver"] else None}: not name() and _get_ver() of one element', wh)
                    if tb == 'value':
                        o = own_version(L, 'item')
                        sv = own_version(lvs[i - 1], 'elem') if i and tbs[i - 1] == 'state' else None
                        good = o is not None and (sv is None or sv == o[0])
                        _merge(table, f'{f.qname}:sibling-key-version[value]', good, f'version of {show(o[0])}[{show(o[1])}]' if good else
                               f'the value id is interned with name {show(L["name"])} and version {show(L["ver"]) if L["ver"] else None}: not the version of that value of the same state vector', wh)
                    idx = L['index']
                    if not (idx[0] == 'const' and idx[2] == wire.index_pos):
                        _merge(table, f'{f.qname}:sibling-key-index[{tb}]', False, f'element {show(idx)} of the _update_cmd reply used as the {tb} id (the index is element {wire.index_pos})', wh)
        _flush(r, table)
        r.extra['distinct_key_terms'] = len(seen)
        r.extra['origins'] = sorted(origins)
        rep.analysed(*[prog.funcs[q] for q in origins if q in prog.funcs])
        _topup(r)


def _sv_ok(fx, f, sv):
    """the state vector of a key comes from the own algorithm (or is the metric state vector handed in)"""
    own_svs = ('call', ('attr', fx.own['alg'], 'state_vectors'), None, ())
    if sv[0] == 'elem' and contains(sv[1], own_svs):
        return True, 'one of the own algorithm\'s state vectors'
    if sv[0] == 'param' and sv[1] in f.params()[1:]:
        return True, f'the state vector handed in ({sv[1]})'
    return False, ''


def _vn_ok(sv, vn):
    return vn[0] == 'elem' and vn[1] in (sv, ('call', ('attr', sv, 'keys'), None, ()))


def rule2(ctx, rep, fx):
    with rep.rule(
        'R-C06-2',
        'writers and the reader build the key the same way from arguments of the same provenance: own run id, own target, own task, own algorithm, '
        'a state vector of that algorithm and one of its value names; the value written / the slot filled is that state vector\'s item of that name',
        floor=3,
        breaks='a value is stored under, or loaded from, the key of another run, target, task or algorithm, or lands in the wrong slot',
    ) as r:
        abstract = {}
        sites = [(w, call, 'set', sts) for w, call, sts in fx.writer_sites()] + [(f, call, 'get', sts) for f, call, sts in fx.reader_sites()]
        for f, call, kind, sts in sites:
            exact = sorted({(k, v) for k, v, *_ in sts if k is not None and (kind == 'set' or key_fields(k) is not None)}, key=lambda kv: show(kv[0]))
            if kind == 'set' and not exact:
                r.instance()
                r.fail(f'{f.qname}:{norm(call)}', where(f, call), 'key argument of _set_prime not understood')
            for k, v in exact:
                r.instance()
                kc = fx.keycheck(k, f)
                h = kc.holes
                base = f'{f.qname}:key-arg'
                wh = where(f, call)
                missing = [lab for role, lab in (('run', 'run id'), ('tn', 'target'), ('task', 'task'), ('alg', 'algorithm'), ('sv', 'state vector'), ('vn', 'value name')) if role not in h]
                if missing:
                    r.fail(f'{base}[shape]', wh, f'the {", ".join(missing)} of the key used by {norm(call)[:60]} cannot be identified: the key does not have the shape required by R-C06-1')
                    continue
                for role, label in (('run', 'run id'), ('tn', 'target'), ('task', 'task'), ('alg', 'algorithm')):
                    r.check(
                        h[role] == fx.own[role], f'{base}[{label}]', wh, f'{label} is the own {show(fx.own[role])}',
                        f'the {label} of the key used by {norm(call)[:60]} is {show(h[role])}, not the data set\'s own {label} ({show(fx.own[role])})',
                    )
                if 'sv' in h and 'vn' in h:
                    ok, how = _sv_ok(fx, f, h['sv'])
                    r.check(ok, f'{base}[state vector]', wh, how, f'the state vector of the key is {show(h["sv"])}: neither one of the own algorithm\'s state vectors nor the one handed in')
                    r.check(_vn_ok(h['sv'], h['vn']), f'{base}[value name]', wh, 'a value name of that state vector', f'the value name of the key is {show(h["vn"])}: not one of the names of {show(h["sv"])}')
                    abstract[(f.qname, kind)] = subst(k, {h['sv']: ('hole', 'sv'), h['vn']: ('hole', 'vn')})
                    if kind == 'set':
                        r.check(
                            v == ('sub', h['sv'], h['vn']), f'{f.qname}:stored-value', wh, 'the value written is <sv>[<name>] of the key',
                            f'{norm(call)[:70]} writes {show(v) if v else None} under the key of {show(h["sv"])}[{show(h["vn"])}]',
                        )
        # the slot filled by the reader
        run = fx.runs[fx.load.qname]
        for node, evs in sorted(run.stores.values(), key=lambda x: x[0].lineno):
            for kind, basev, idx, val, present, _c in sorted(evs, key=str):
                if val is not None and is_call_to(val, GETP) and present is not None:
                    kc = fx.keycheck(present[1], fx.load)
                    h = kc.holes
                    if 'sv' not in h or 'vn' not in h:
                        continue  # reported as key-arg[shape]
                    r.check(
                        kind == 'store' and basev == h.get('sv') and idx == h.get('vn'), f'{fx.load.qname}:filled-slot', where(fx.load, node),
                        'the loaded value fills <sv>[<name>] of the key that was looked up',
                        f'{norm(node)[:70]}: the value loaded for {show(h.get("sv"))}[{show(h.get("vn"))}] is put into {show(basev)}[{show(idx) if idx else None}]',
                    )
        # same construction on both sides
        if abstract:
            ref_k = sorted(abstract)[0]
            for k2 in sorted(abstract):
                if k2 == ref_k:
                    continue
                r.check(
                    abstract[k2] == abstract[ref_k], f'{k2[0]}:same-key-as:{ref_k[0]}', '', 'identical key term up to the state vector and value name',
                    f'{k2[0]} and {ref_k[0]} build different prime keys for the same identity: {show(abstract[k2])} vs {show(abstract[ref_k])}',
                )
        getters = [1 for _f, _c, kind, _s in sites if kind == 'get']
        if not getters:
            r.fail(f'{fx.load.qname}:no-read', where(fx.load), '_load no longer reads the prime table through _get_prime')
        for w in (fx.update, fx.update_msv):
            if not any(f is w and kind == 'set' for f, _c, kind, _s in sites):
                r.fail(f'{w.qname}:no-write', where(w), f'{w.name} no longer writes the prime table through _set_prime')
        _topup(r)


# ---------------------------------------------------------------------------
# fallback: candidate predicate truth table, ordering and selection

K0 = (10, 21, 32, 43, 54, 65)


def _pred_of(an, base, K):
    """-> (element name, predicate ast or None, reference names, source term); raises _NU"""
    if base[0] == 'comp':
        node, sym, st = an.nodes[base]
        if len(node.generators) != 1 or not isinstance(node.generators[0].target, ast.Name):
            raise _NU('comprehension with several generators / a structured target')
        g = node.generators[0]
        if not (isinstance(node.elt, ast.Name) and node.elt.id == g.target.id):
            raise _NU('the comprehension transforms the candidates')
        pred = None if not g.ifs else (g.ifs[0] if len(g.ifs) == 1 else ast.BoolOp(op=ast.And(), values=list(g.ifs)))
        used = {x.id for c in g.ifs for x in ast.walk(c) if isinstance(x, ast.Name)}
        refs = {n: t for n, t in base[2] if n in used}
        return g.target.id, pred, refs, sym.T(g.iter, st)
    lam, src = base[3][0][1], base[3][1][1]
    if lam[0] != 'lambda':
        raise _NU(f'filter function {show(lam)} is not a lambda')
    node, _sym, _st = an.nodes[lam]
    a = node.args
    ps = [x.arg for x in a.posonlyargs + a.args]
    if not ps or a.vararg or a.kwarg or a.kwonlyargs:
        raise _NU('lambda signature')
    refs = dict(lam[2])
    if set(ps[1:]) - set(refs):
        raise _NU('lambda parameter without a default')
    refs.update(dict(lam[3]))
    return ps[0], node.body, refs, src


def candidate_problems(an, base, K):
    """why the candidate collection is not {k in prime keys : k differs from K at most in the run}; [] if it is"""
    try:
        elem, pred, refs, src = _pred_of(an, base, K)
    except _NU as e:
        return [f'candidate filter not understood ({e})'], 0
    out = []
    if not is_primekeys(src):
        out.append(f'candidates are taken from {show(src)}, not from the prime keys')
    env0 = {}
    for n, t in refs.items():
        if n == elem:
            continue
        if t == K:
            env0[n] = K0
        elif t[0] == 'glob':
            continue
        else:
            return out + [f'the filter compares with {n} = {show(t)}, which is not the key that was looked up'], 0
    rows = 0
    wrong_accept, wrong_reject = [], []
    for D in itertools.chain.from_iterable(itertools.combinations(range(6), n) for n in range(7)):
        k = tuple(v + 100 if i in D else v for i, v in enumerate(K0))
        env = dict(env0)
        env[elem] = k
        try:
            got = True if pred is None else bool(_pev(pred, env))
        except _NU as e:
            return out + [f'candidate predicate {norm(pred)} not understood ({e})'], rows
        rows += 1
        want = set(D) <= {0}
        if got and not want:
            wrong_accept.append(D)
        if want and not got:
            wrong_reject.append(D)
    single = [FIELDS[D[0]] for D in wrong_accept if len(D) == 1]
    if single:
        out.append('the fallback accepts an entry of another ' + ' / '.join(single))
    elif wrong_accept:
        out.append(f'the fallback accepts entries that differ in fields {[list(D) for D in wrong_accept[:3]]}')
    if () in wrong_reject:
        out.append('the fallback rejects an entry identical to the key')
    if (0,) in wrong_reject:
        out.append('the fallback rejects entries of other runs (there is nothing to fall back to)')
    return out, rows


def _keyfn(an, t):
    if t is None or t == CNONE:
        return lambda x: x
    if t[0] == 'lambda':
        node, _s2, _st = an.nodes[t]
        a = node.args
        ps = [x.arg for x in a.posonlyargs + a.args]
        if len(ps) != 1 or a.defaults or t[3]:
            raise _NU('sort key lambda with extra parameters / free variables')
        return lambda x, n=node, p=ps[0]: _pev(n.body, {p: x})
    if t[0] == 'call' and t[1] == ('glob', 'external:operator.itemgetter') and len(t[3]) == 1 and t[3][0][1][0] == 'const' and isinstance(t[3][0][1][2], int):
        return lambda x, i=t[3][0][1][2]: x[i]
    raise _NU(f'sort key {show(t)}')


def _coll_eval(an, t, samples):
    if cand_base(t) == t:
        return list(samples)
    if t[0] == 'sorted':
        inner = _coll_eval(an, t[1], samples)
        rev = t[3]
        if rev is None or rev[0] != 'const':
            raise _NU('non-constant reverse argument')
        try:
            return sorted(inner, key=_keyfn(an, t[2]), reverse=bool(rev[2]))
        except TypeError as e:
            raise _NU(f'sort key not comparable: {e}') from e
    if t[0] == 'mut' and t[1] == 'reverse':
        return list(reversed(_coll_eval(an, t[2], samples)))
    if t[0] == 'call' and t[1][0] == 'glob' and t[1][1] in ('external:list', 'external:tuple') and len(t[3]) == 1:
        return list(_coll_eval(an, t[3][0][1], samples))
    raise _NU(f'collection {show(t)}')


def selection_problems(an, sel):
    """why `sel` does not pick the candidate of the highest run; [] if it does.  -> (problems, evaluations, collection term)"""
    if sel[0] == 'sub' and sel[2][0] == 'const' and sel[2][1] == 'int':
        coll = sel[1]
        pick = lambda xs, i=sel[2][2]: xs[i]
    elif sel[0] in ('max', 'min'):
        coll = sel[1]
        pick = (lambda xs, kf=sel[2]: max(xs, key=_keyfn(an, kf))) if sel[0] == 'max' else (lambda xs, kf=sel[2]: min(xs, key=_keyfn(an, kf)))
    else:
        return [f'key {show(sel)} is neither the key that was looked up nor a selection from the candidates'], 0, None
    if cand_base(coll) is None:
        return [f'{show(coll)} is not a filtered view of the prime keys'], 0, None
    runs = (30, 9, 100, 10)
    n = 0
    try:
        for size in (1, 2, 3, 4):
            for perm in itertools.permutations(runs[:size]):
                samples = [(x,) + K0[1:] for x in perm]
                got = pick(_coll_eval(an, coll, samples))
                n += 1
                if got != (max(perm),) + K0[1:]:
                    return [f'with candidate runs {list(perm)} (in table order) the entry of run {got[0] if isinstance(got, tuple) else got} is taken, not that of the highest run {max(perm)}'], n, coll
    except _NU as e:
        return [f'ordering / selection not understood ({e})'], n, coll
    except IndexError:
        return [f'selection index {show(sel[2])} fails for a candidate list of {size} entr{"y" if size == 1 else "ies"}'], n, coll
    return [], n, coll


def rule3(ctx, rep, fx):
    f = fx.load
    an = fx.an
    with rep.rule(
        'R-C06-3',
        'exact entry when present, else fallback: the key read is the looked-up key only after a positive membership test; when absent it is the '
        'entry of the highest run among the prime keys equal to the looked-up key in all five identity fields (64-row truth table of the filter, '
        'ordering evaluated on permuted samples)',
        floor=2,
        breaks='a load returns the value of another target / author / version, or an old run instead of the requested or the highest one',
    ) as r:
        combos = {}
        for _f, call, sts in fx.reader_sites():
            for k, _v, present, cands, _lock in sts:
                combos.setdefault((k, present, cands), call)
        kinds = set()
        rows = evals = 0
        for (k, present, cands), call in sorted(combos.items(), key=lambda kv: (show(kv[0][0]), str(kv[0][1] and kv[0][1][0]), str(kv[0][2] and kv[0][2][0]))):
            r.instance()
            wh = where(f, call)
            if k is not None and key_fields(k) is not None:
                kinds.add('exact')
                r.check(
                    present == ('yes', k), f'{f.qname}:exact-key-read', wh, 'read only after the key was found among the prime keys',
                    f'{norm(call)} reads the looked-up key on a path where it is ' + ('known to be absent' if present == ('no', k) else 'not known to be present') + ' in the prime table',
                )
                continue
            kinds.add('fallback')
            probs, n, coll = selection_problems(an, k) if k is not None else (['key not understood'], 0, None)
            evals += n
            base = cand_base(coll) if coll is not None else None
            if base is not None:
                if present is None or present[0] != 'no':
                    probs.append('the fallback entry is read on a path where the looked-up key ' + ('is present' if present else 'was not tested for presence') + ' (the requested run must win when it exists)')
                else:
                    kc = fx.keycheck(present[1], f)
                    if key_fields(present[1]) is None:
                        probs.append(f'the key that was looked up ({show(present[1])}) is not a prime key tuple')
                    p2, n2 = candidate_problems(an, base, present[1])
                    probs += p2
                    rows += n2
                if cands != ('nonempty', base):
                    probs.append('an entry is selected from the candidates on a path where they are not known to be non-empty (nothing matching must leave the value untouched, not raise)')
            r.check(
                not probs, f'{f.qname}:fallback-key-read', wh,
                'absent key -> highest run among the prime keys equal in target, task, algorithm, state vector and value', '; '.join(probs),
            )
        r.extra['truth_table_rows'] = rows
        r.extra['ordering_samples'] = evals
        if 'exact' not in kinds:
            r.fail(f'{f.qname}:exact-key-read', where(f), 'no read of the looked-up key itself: the requested run is never preferred')
        if 'fallback' not in kinds:
            r.fail(f'{f.qname}:fallback-key-read', where(f), 'no fallback read: a value stored by an earlier run is not loaded')
        _topup(r)


def rule4(ctx, rep, fx):
    f = fx.load
    run = fx.runs[f.qname]
    with rep.rule(
        'R-C06-4',
        'nothing matches => untouched: every store into a state vector in _load happens only with the key found or with a non-empty candidate list',
        floor=2,
        breaks='a value that has no stored counterpart is overwritten (or the load raises) instead of being left as it is',
    ) as r:
        own_svs = ('call', ('attr', fx.own['alg'], 'state_vectors'), None, ())
        svs = set()
        for k in fx.exact_reader_keys():
            h = fx.keycheck(k, f).holes
            if 'sv' in h:
                svs.add(h['sv'])
        n = 0
        for node, evs in sorted(run.stores.values(), key=lambda x: (x[0].lineno, x[0].col_offset)):
            rel = [ev for ev in evs if ev[1] in svs or (ev[1][0] == 'elem' and contains(ev[1][1], own_svs))]
            if not rel:
                continue
            n += 1
            r.instance()
            bad = []
            for kind, base, idx, _val, present, cands in rel:
                ok = (present is not None and present[0] == 'yes') or (present is not None and present[0] == 'no' and cands is not None and cands[0] == 'nonempty')
                if not ok:
                    bad.append('key ' + ('absent' if present and present[0] == 'no' else 'not tested') + ', candidates ' + (cands[0] if cands else 'not tested'))
            r.check(
                not bad, f'{f.qname}:{norm(node)[:80]}', where(f, node), 'reached only with the key present or a non-empty candidate list',
                f'{norm(node)[:80]} changes the state vector on a path with ' + ' / '.join(sorted(set(bad))),
            )
        if n == 0:
            r.fail(f'{f.qname}:no-store', where(f), '_load no longer stores a loaded value into a state vector of the own algorithm')
        r.instance()
        fallback = any(k is not None and key_fields(k) is None for _f, _c, sts in fx.reader_sites() for k, *_ in sts)
        if fallback:
            r.check(
                bool(run.cand_tests), f'{f.qname}:no-match-path', where(f, next(iter(run.cand_tests.values()), None)),
                'the empty candidate list is told apart by ' + ', '.join(sorted({norm(e) for e in run.cand_tests.values()})),
                'no test of the candidate list for emptiness: the nothing-matches case is not distinguished', nontrivial=False,
            )
        else:
            r.ok(f'{f.qname}:no-match-path', 'no fallback read: only a key that was found is ever loaded', where(f), nontrivial=False)
        _topup(r)


def rule5(ctx, rep, fx):
    an = fx.an
    with rep.rule(
        'R-C06-5',
        'lock bracket: every access to the shelve server in _load / _update / _update_msv happens with the database lock held (own or handed in); '
        'an own lock is released exactly once on every exit including exceptions; a handed-in lock is neither re-acquired nor released; '
        'the nested load receives the lock',
        floor=4,
        breaks='a load interleaves with an update (half-written key chain read), the lock leaks after an exception (every later load/update blocks), '
        'or the nested load deadlocks on the lock its parent holds',
    ) as r:
        for f in fx.bracketed:
            run = fx.runs[f.qname]
            r.instance()
            acq = [k for k in run.lock_events if k[0] == 'acquire']
            probs = []
            if not acq:
                probs.append('the database lock is never acquired')
            for (kind, _i, lock, a), node in sorted(run.lock_events.items(), key=lambda kv: (kv[1].lineno, str(kv[0][2]))):
                if kind == 'acquire' and lock != 'free':
                    probs.append(f'{norm(node)[:50]} acquires while the lock is {"handed in by the caller" if lock == "borrowed" else lock}')
                if kind == 'release' and not (lock == 'held' and a == LOCK):
                    probs.append(f'{norm(node)[:50]} releases ' + ('the lock handed in by the caller' if lock == 'borrowed' else f'{show(a) if a else "?"} in lock state {lock}'))
            r.check(not probs, f'{f.qname}:acquire-release', where(f), f'{len(acq)} acquire path(s), every release hits the own held lock', '; '.join(sorted(set(probs))))
            # exits
            ex = {'normal': run.out.normal | run.out.ret, 'exception': run.out.exc}
            bad = sorted({f'{kind} exit with the lock {_g(st, "#lock")}' for kind, sts in ex.items() for st in sts if _g(st, '#lock') in ('held', 'double', 'bad-release')})
            hz = sorted({norm(c)[:60] for c in run.hazards.values()})
            if hz:
                bad.append('call(s) between acquire and the protected region that can raise with the lock held: ' + ', '.join(hz))
            r.check(
                not bad, f'{f.qname}:released-on-every-exit', where(f),
                f'{len(ex["normal"])} normal and {len(ex["exception"])} exceptional abstract exits, none with the own lock still held', '; '.join(bad),
            )
            # accesses
            for call, g, locks in sorted(run.db.values(), key=lambda x: (x[0].lineno, x[0].col_offset)):
                r.instance()
                ok = locks <= {'held', 'borrowed'}
                r.check(ok, f'{f.qname}:locked:{norm(call.func)}', where(f, call), f'{g.name} under lock ({sorted(locks)})',
                        f'{norm(call)[:70]} talks to the shelve server in lock state {sorted(locks - {"held", "borrowed"})}')
            for call, g, sts in sorted(run.nested.values(), key=lambda x: (x[0].lineno, x[0].col_offset)):
                r.instance()
                probs = []
                for lock, passed in sorted(sts, key=str):
                    if lock in ('held', 'borrowed'):
                        if not passed or not all(t == LOCK or t[0] == 'given' for _p, t in passed):
                            probs.append(f'called with the lock {lock} but ' + ('the callee takes no lock parameter' if not passed else 'passes ' + ', '.join(f'{p}={show(t)}' for p, t in passed)) + ': it would wait for the lock its caller holds')
                        if g.qname not in fx.runs:
                            probs.append(f'{g.qname} is not one of the analysed bracketed functions')
                    elif lock != 'free':
                        probs.append(f'called in lock state {lock}')
                r.check(not probs, f'{f.qname}:nested:{norm(call.func)}', where(f, call), 'the held lock is handed to the nested call', '; '.join(probs))
        nested = sum(len(fx.runs[f.qname].nested) for f in fx.bracketed)
        if not nested:
            r.note('no nested bracketed call found (upstream loads no longer go through a child data set)')
        _topup(r)


def _decorator_problems(f):
    """why calls of f may not produce a fresh result each time, judging by its decorators / re-bindings"""
    out = []
    for d in f.node.decorator_list:
        core = d.func if isinstance(d, ast.Call) else d
        name = core.attr if isinstance(core, ast.Attribute) else (core.id if isinstance(core, ast.Name) else None)
        if name in PLAIN_DECORATORS and not isinstance(d, ast.Call):
            continue  # binding only: the body runs on every call
        if isinstance(d, ast.Attribute) and d.attr in ('setter', 'getter', 'deleter'):
            continue  # property plumbing
        if name in MEMO_DECORATORS:
            out.append(f'@{norm(d)} memoises {f.name}: every caller with equal arguments receives the same object')
        else:
            out.append(f'decorator @{norm(d)} on {f.name} is not known to run the body and hand out its result on every call')
    body = f.cls.node.body if f.cls is not None and f.parent is None else (f.module.tree.body if f.parent is None else [])
    for st in body:
        if isinstance(st, ast.Assign) and any(isinstance(t, ast.Name) and t.id == f.node.name for t in st.targets):
            out.append(f'{f.name} is re-bound after its definition ({norm(st)[:70]}): callers do not reach the analysed body directly')
    return out


def _is_decoded(t):
    """term of an object that came out of unpickling in this call"""
    if not (isinstance(t, tuple) and t and t[0] == 'call'):
        return False
    if is_call_to(t, DECODE):
        return True
    if t[1][0] == 'glob' and t[1][1] in UNPICKLERS:
        return True
    # pickle.Unpickler(f).load()
    return t[1][0] == 'attr' and t[1][2] == 'load' and t[1][1][0] == 'call' and t[1][1][1] == ('glob', 'external:pickle.Unpickler')


def _path_ok(run, path, entry):
    """the opened path is data_dbs/<entry>, directly or through a hand-made cache of *paths* keyed by the entry"""
    if contains(path, DATA_DBS) and contains(path, entry):
        return True, 'data_dbs joined with the entry'
    cont = meth = None
    if path[0] == 'sub' and path[2] == entry:
        cont = path[1]
    elif path[0] == 'call' and path[3] and path[3][0][1] == entry:
        if path[1][0] == 'attr':
            cont, meth = path[1][1], path[1][2]
        elif path[1][0] == 'glob' and '.' in path[1][1]:
            cont, meth = ('glob', path[1][1].rpartition('.')[0]), path[1][1].rpartition('.')[2]
        if meth not in ('get', 'setdefault', 'pop'):
            cont = None
        if meth == 'setdefault' and not (len(path[3]) == 2 and contains(path[3][1][1], DATA_DBS) and contains(path[3][1][1], entry)):
            return False, ''
    if cont is None:
        return False, ''
    writes = [ev for _n, evs in run.stores.values() for ev in evs if ev[1] == cont]
    good = [ev for ev in writes if ev[2] == entry and ev[3] is not None and contains(ev[3], DATA_DBS) and contains(ev[3], entry) and not any(_is_decoded(x) for x in subterms(ev[3]))]
    if meth == 'setdefault' and not writes:
        return True, f'path cache {show(cont)} filled with data_dbs/<entry>'
    if writes and len(good) == len(writes):
        return True, f'path cache {show(cont)} keyed by the entry and filled only with data_dbs/<entry>'
    return False, ''


def _fresh_problem(run, t, entry):
    """why the returned term t is not an object unpickled in this call from data_dbs/<entry> (None if it is)"""
    if not _is_decoded(t) or is_call_to(t, DECODE):
        return f'returns {show(t)}, which is not the result of pickle.load(s) executed in this call'
    args = [a for _k, a in t[3]] if t[1][0] == 'glob' else [a for _k, a in t[1][1][3]]
    if not args:
        return 'unpickles nothing'
    src = args[0]
    if t[1][0] == 'glob' and t[1][1].endswith('loads'):
        if not (src[0] == 'call' and src[1][0] == 'attr' and src[1][2] == 'read'):
            return f'unpickles {show(src)}, not the bytes read from the blob file in this call'
        src = src[1][1]
    if src[0] == 'ctx':
        src = src[1]
    if not (src[0] == 'call' and src[1][0] == 'glob' and src[1][1] in ('external:open', 'external:io.open') and src[3]):
        return f'unpickles from {show(src)}, not from a file opened in this call'
    ok, _how = _path_ok(run, src[3][0][1], entry)
    if not ok:
        return f'opens {show(src[3][0][1])}, which is not recognisably <data_dbs>/<entry>'
    return None


def _persistent(f, base):
    """base denotes a container that outlives the call: module / class level, the instance, or a mutable default argument"""
    if base is None:
        return None
    root = base
    while root[0] in ('attr', 'sub') or (root[0] == 'call' and root[1][0] in ('attr', 'glob')):
        root = (root[1][1] if root[1][0] == 'attr' else root[1]) if root[0] == 'call' else root[1]
    if root[0] == 'glob':
        return 'module / class level ' + show(base)
    if root == SELF or (root[0] == 'param' and f.cls is not None and not f.is_staticmethod() and f.params()[:1] == [root[1]]):
        return 'the instance (' + show(base) + ')'
    if root[0] == 'param':
        a = f.node.args
        pos = a.posonlyargs + a.args
        dflt = dict(zip([x.arg for x in pos[len(pos) - len(a.defaults):]], a.defaults))
        d = dflt.get(root[1])
        if d is not None and not isinstance(d, ast.Constant):
            return f'the mutable default argument {root[1]}'
    return None


def rule6(ctx, rep, fx):
    prog, cg, an = ctx.prog, ctx.cg, fx.an
    dec = prog.func(DECODE)
    with rep.rule(
        'R-C06-6',
        'each load materialises a fresh object from the store: no function on the read path _load -> _get_prime -> db.util.decode (nor on the '
        'PostgreSQL read path) is memoised or carries an unknown decorator; decode returns what pickle.load(s) produced in the same call from the file '
        'opened at data_dbs/<entry>; neither decode nor the functions between it and _load keep the decoded object in a container that outlives the call',
        floor=6,
        breaks='two loads share one unpickled object: an algorithm that changes its loaded state vector in place alters what every later load of that blob returns '
        '(also exact-run hits and other authors / targets whose equal content de-duplicated to the blob)',
    ) as r:
        fwd = cg.reachable([fx.load.qname], kinds={'direct'})
        path = [prog.funcs[q] for q in sorted(fwd) if an.reaches(q, DECODE)]
        if dec not in path or len(path) < 2:
            r.instance()
            r.fail(f'{fx.load.qname}:read-path', where(fx.load), 'no call path from _load to db.util.decode: loaded values do not come from the blob store')
        siblings = []
        if POST_LOAD in prog.funcs:
            pf = cg.reachable([POST_LOAD], kinds={'direct'})
            siblings = [prog.funcs[q] for q in sorted(pf) if an.reaches(q, DECODE) and prog.funcs[q] not in path]
        r.extra['read_path'] = [f.qname for f in path]
        r.extra['sibling_read_path'] = [f.qname for f in siblings]
        # (a) decorators / re-binding
        for f in path + siblings:
            rep.analysed(f)
            r.instance()
            probs = _decorator_problems(f)
            r.check(not probs, f'{f.qname}:fresh-per-call', where(f), 'undecorated (or binding-only decorators): the body runs on every call', '; '.join(probs), nontrivial=False)
        # (b) decode returns the object unpickled in this call from data_dbs/<entry>
        ps = dec.params()
        if not ps:
            raise AnalysisError('db.util.decode takes no entry parameter')
        entry = ('param', ps[0])
        run = an.run(dec)
        rets = set(run.returns) | ({CNONE} if run.out.normal else set())
        r.instance()
        probs = sorted({p for p in (_fresh_problem(run, t, entry) for t in rets) if p})
        if not rets:
            probs = ['decode never returns']
        r.check(
            not probs, f'{dec.qname}:returns-fresh-unpickle', where(dec), f'{len(rets)} return term(s): ' + '; '.join(sorted(show(t) for t in rets)),
            'decode ' + '; '.join(probs),
        )
        # (c) the decoded object is not kept
        for f in [x for x in path if x is not fx.load]:
            run = an.run(f)
            r.instance()
            kept = []
            for node, evs in sorted(run.stores.values(), key=lambda x: (x[0].lineno, x[0].col_offset)):
                for kind, base, idx, val, _p, _c in sorted(evs, key=str):
                    if not any(_is_decoded(x) for part in (idx, val) if part is not None for x in subterms(part)):
                        continue
                    where_kept = _persistent(f, base)
                    if where_kept:
                        kept.append((node, f'{norm(node)[:70]} keeps the decoded object in {where_kept}'))
            r.check(
                not kept, f'{f.qname}:decoded-object-not-kept', where(f, kept[0][0] if kept else None),
                'no store of the decoded object into a module-level, class-level, instance or default-argument container',
                '; '.join(k[1] for k in kept) + ': a hand-made cache hands the same object to the next load',
            )
        _topup(r)


def _post_sibling(ctx, rep):
    """ND: PostgreSQL sibling difference, reported in the thorough evidence only"""
    prog = ctx.prog
    out = {}
    for name in ('_load', '_update'):
        f = prog.funcs.get(f'dawgie.db.post.Interface.{name}')
        if f is None:
            continue
        sel = []
        for c in f.calls():
            if isinstance(c.func, ast.Attribute) and c.func.attr == 'execute' and c.args:
                try:
                    txt = ''.join(x.value for x in ast.walk(c.args[0]) if isinstance(x, ast.Constant) and isinstance(x.value, str))
                except TypeError:
                    continue
                up = ' '.join(txt.upper().split())
                if up.startswith('SELECT') and any(f' FROM {t} WHERE' in up for t in ('ALGORITHM', 'STATEVECTOR', 'VALUE')) and 'NAME = %S' in up:
                    sel.append({'query': ' '.join(txt.split()), 'selects_by_version': all(w in txt for w in ('design', 'bugfix'))})
        out[name] = sel
    rep.extra['post_sibling_difference'] = {
        'note': 'not a verdict: name-based id queries found in the PostgreSQL Interface._load / _update and whether their WHERE clause carries the version columns (a _load query without them ranges over all versions); cannot be exercised without a server',
        'id_queries': out,
    }


def rule7(ctx, rep):
    """the server stores what it was asked to store (added after seeded change C06-3: `prime[key] = blob` only when the
    blob or the key was new - a key that moves back to content stored earlier kept pointing at the previous content)"""
    prog = ctx.prog
    f = prog.nfunc('dawgie.db.shelve.comms.Worker.do')
    rep.analysed(f)
    with rep.rule(
        'R-C06-7',
        'the set request is unconditional: in Worker.do every path from db.util.move(...) to the reply (or the return) passes an item store into the requested table',
        floor=1,
        breaks='a store is acknowledged but the catalogue keeps the previous blob under that key: the next load returns older content',
    ) as r:
        class St(Flow):
            def __init__(s):
                super().__init__()
                s.alias = set()
                s.bad = []
                s.moves = 0

            def _is_table(s, e):
                for x in ast.walk(e):
                    if isinstance(x, ast.Attribute) and x.attr == 'tables':
                        return True
                    if isinstance(x, ast.Name) and x.id in s.alias:
                        return True
                return False

            def on_stmt(s, node, st):
                if isinstance(node, ast.Assign):
                    for t in node.targets:
                        if isinstance(t, ast.Name) and not isinstance(node.value, ast.Call) and s._is_table(node.value):
                            s.alias.add(t.id)
                        if isinstance(t, ast.Name) and isinstance(node.value, ast.Subscript) and s._is_table(node.value):
                            s.alias.add(t.id)
                        if isinstance(t, ast.Subscript) and s._is_table(t.value) and st == 'moved':
                            return ('stored',)
                return (st,)

            def on_call(s, call, st):
                sym = prog.resolve_in(call.func, f) or ''
                if sym == 'dawgie.db.util.move':
                    s.moves += 1
                    return ('moved',)
                fn = call.func
                if st == 'moved' and isinstance(fn, ast.Attribute):
                    if fn.attr in ('__setitem__', 'update') and s._is_table(fn.value):
                        return ('stored',)
                    if fn.attr in ('_send', 'write', 'send') and isinstance(fn.value, (ast.Name, ast.Attribute)):
                        s.bad.append(call)
                return (st,)

            def may_raise(s, call, st):
                return False

        fl = St()
        # two passes so that aliases defined before use in any order are known
        fl.run(f.node, 'pre')
        fl.bad, fl.moves = [], 0
        out = fl.run(f.node, 'pre')
        if not fl.moves:
            raise AnalysisError('Worker.do no longer calls db.util.move in the set branch')
        r.instance()
        tail = [st for st in out.normal | out.ret if st == 'moved']
        r.check(
            not fl.bad and not tail,
            f'{f.qname}:set-stores-unconditionally',
            where(f, fl.bad[0] if fl.bad else None),
            'every path from move() to the reply stores the blob name under the requested key',
            f'{f.qname} can acknowledge a set request (or return) after db.util.move without storing the blob name under the requested key',
        )


def check(ctx):
    rep = Report(
        PID,
        ctx.tier,
        ctx.prog,
        'Decides, by symbolic evaluation of db/shelve/model.py (helpers and Dataset accessors inlined) along all control paths: '
        '(1) the prime key is (run, target, task, algorithm, state vector, value) with every level interned under the id of the previous one and with '
        'its own name and version, and the id is the table index of the reply (comms._update_cmd -> util.append -> util.construct); '
        '(2) _update, _update_msv and _load build that key from the own run, target, task, algorithm and a state vector / value name of it, and write / fill '
        'exactly that item; (3) _load reads the exact key only when present, else the highest run among the entries equal in all five identity fields '
        '(truth table of the filter, ordering on permuted samples); (4) no store into a state vector when nothing matches; '
        '(5) lock typestate: accesses under the lock, released on every exit, not re-acquired by the nested load; '
        '(6) every load unpickles a fresh object: no memoisation / object cache on the read path down to db.util.decode. '
        'Not decided: equality of the bytes after the pickle round trip, Value.__setstate__, concrete histories, the PostgreSQL backend.',
        assumptions=[
            'prime keys in the table are 6-tuples (only _set_prime with the key of rule 1 writes them)',
            'logging calls do not raise',
            'the shelve server applies requests of one connection in order (Twisted)',
        ],
    )
    rep.not_decided = [
        '"returned unaltered": pickle round trip through db.util.encode/decode and Value.__getstate__/__setstate__',
        'statements about concrete histories (close / reopen, removals)',
        'server side of the upd request (Worker.do passes the KEYSET to util.append by keyword)',
        'PostgreSQL backend: its _load selects rows by name across all versions (sibling difference reported in the thorough evidence)',
    ]
    fx = Facts(ctx, rep)
    rule1(ctx, rep, fx)
    rule2(ctx, rep, fx)
    rule3(ctx, rep, fx)
    rule4(ctx, rep, fx)
    rule5(ctx, rep, fx)
    rule6(ctx, rep, fx)
    rule7(ctx, rep)
    from . import shared

    def _c08(m):
        m._rule1(ctx, rep, m.Model(ctx))

    shared.borrow(ctx, rep, [
        ('c07', lambda m: m._rule5(m.Model(ctx), rep), 'a stored file removed or rewritten behind the catalogue is a value that no longer comes back intact'),
        ('c08', _c08, 'an id handed out twice makes two author identities share one key: a load returns the data of another author'),
    ])
    if ctx.thorough:
        _post_sibling(ctx, rep)
    return rep


_M = 'db/shelve/model.py'
_U = 'db/util/__init__.py'
_LOOP_KEY = """levels = [
            (task, Table.task, None),
            (alg.name(), Table.alg, alg._get_ver()),
            (sv.name(), Table.state, sv._get_ver()),
            (vn, Table.value, sv[vn]._get_ver()),
        ]
        ids = []
        up = None
        for nm, tb, vr in levels:
            up = self._update_cmd(nm, up, tb, None, vr)[1]
            ids.append(up)
        return (runid, trgtid, *ids)"""
_OLD_KEY = """tid = self._update_cmd(task, None, Table.task, None, None)[1]
        aid = self._update_cmd(
            alg.name(), tid, Table.alg, None, alg._get_ver()
        )[1]
        sid = self._update_cmd(
            sv.name(), aid, Table.state, None, sv._get_ver()
        )[1]
        vid = self._update_cmd(vn, sid, Table.value, None, sv[vn]._get_ver())[1]
        return (runid, trgtid, tid, aid, sid, vid)"""
_FILTER = 'spks = list(\n filter(lambda k, K=pk: k[1:] == K[1:], pks)\n )\n spks.sort(key=lambda t: t[0])'

VARIANTS = [
    # ---- breaking
    V('set stores only new blobs or new keys', 'B', 'db/shelve/comms.py', 'Worker.do', 'DBI().tables[request.table.value][key] = value', 'if not exists or key not in DBI().tables[request.table.value]:\n                DBI().tables[request.table.value][key] = value', 'R-C06-7'),
    V('set stores through a local table alias', 'N', 'db/shelve/comms.py', 'Worker.do', 'DBI().tables[request.table.value][key] = value', 'prime = DBI().tables[request.table.value]\n            prime[key] = value', None),
    V('state vector interned under the task id', 'B', _M, 'Interface.__to_key', 'sv.name(), aid, Table.state', 'sv.name(), tid, Table.state', 'R-C06-1'),
    V('value level without its version', 'B', _M, 'Interface.__to_key', 'Table.value, None, sv[vn]._get_ver()', 'Table.value, None, None', 'R-C06-1'),
    V('algorithm level with the state vector version', 'B', _M, 'Interface.__to_key', 'Table.alg, None, alg._get_ver()', 'Table.alg, None, sv._get_ver()', 'R-C06-1'),
    V('target and task swapped in the key', 'B', _M, 'Interface.__to_key', 'return (runid, trgtid, tid, aid, sid, vid)', 'return (runid, tid, trgtid, aid, sid, vid)', 'R-C06-1'),
    V('exists flag taken as the value id', 'B', _M, 'Interface.__to_key', 'sv[vn]._get_ver())[1]', 'sv[vn]._get_ver())[0]', 'R-C06-1'),
    V('sibling id chain broken', 'B', _M, 'Interface.__refs2indices', 'svn, aid, Table.state', 'svn, tid, Table.state', 'R-C06-1'),
    V('KEYSET fields swapped on the wire', 'B', 'db/shelve/comms.py', 'Connector._update_cmd', 'KEYSET(name, parent, ver)', 'KEYSET(name, ver, parent)', 'R-C06-1'),
    V('append reply reordered', 'B', 'db/shelve/util.py', 'append', 'return exists, idx, name', 'return exists, name, idx', 'R-C06-1'),
    V('writer files under run 0', 'B', _M, 'Interface._update', 'runid, tn, task = self._runid(), self._tn(), self._task()', 'runid, tn, task = 0, self._tn(), self._task()', 'R-C06-2'),
    V('reader looks up the all-targets entry', 'B', _M, 'Interface._load', 'self._bot()._runid(),\n self._tn(),\n self._task(),\n self._alg(),\n sv,', "self._bot()._runid(),\n '__all__',\n self._task(),\n self._alg(),\n sv,", 'R-C06-2'),
    V('metric writer stores another item', 'B', _M, 'Interface._update_msv', 'isnew = not self._set_prime(vname, msv[k])', 'isnew = not self._set_prime(vname, msv[k.lower()])', 'R-C06-2'),
    V('fallback ignores the target', 'B', _M, 'Interface._load', 'k[1:] == K[1:]', 'k[2:] == K[2:]', 'R-C06-3'),
    V('fallback ignores the value version id', 'B', _M, 'Interface._load', 'k[1:] == K[1:]', 'k[1:5] == K[1:5]', 'R-C06-3'),
    V('fallback takes the lowest run', 'B', _M, 'Interface._load', 'pk = spks[-1]', 'pk = spks[0]', 'R-C06-3'),
    V('fallback sorted descending', 'B', _M, 'Interface._load', 'spks.sort(key=lambda t: t[0])', 'spks.sort(key=lambda t: t[0], reverse=True)', 'R-C06-3'),
    V('fallback not sorted', 'B', _M, 'Interface._load', 'spks.sort(key=lambda t: t[0])', 'pass', 'R-C06-3'),
    V('membership test inverted', 'B', _M, 'Interface._load', 'if pk not in pks:', 'if pk in pks:', 'R-C06-3'),
    V('emptiness test replaced', 'B', _M, 'Interface._load', 'if spks:', 'if spks is not None:', 'R-C06-3'),
    V('store before the continue', 'B', _M, 'Interface._load', 'continue', 'sv[vn] = None\n                                continue', 'R-C06-4'),
    V('state vector cleared when nothing matches', 'B', _M, 'Interface._load', 'continue', 'sv.clear()\n                                continue', 'R-C06-4'),
    V('release outside finally', 'B', _M, 'Interface._update', 'finally:', 'except KeyError:\n            raise\n        if True:', 'R-C06-5'),
    V('nested load without the lock', 'B', _M, 'Interface._load', 'err=err, ver=ver, lok=lok', 'err=err, ver=ver', 'R-C06-5'),
    V('release decided by the wrong flag', 'B', _M, 'Interface._load', 'if parent:', 'if not parent:', 'R-C06-5'),
    V('prime keys fetched before the lock', 'B', _M, 'Interface._update_msv', 'name = \'.\'.join([self._tn(), self._task(), self._algn()])', "name = '.'.join([self._tn(), self._task(), self._algn()])\n        self._prime_keys()", 'R-C06-5'),
    V('fallible call between acquire and try', 'B', _M, 'Interface._update', 'valid = True', 'valid = bool(self._alg().state_vectors())', 'R-C06-5'),
    # ---- benign
    V('key levels computed in a loop over a table', 'N', _M, 'Interface.__to_key', _OLD_KEY, _LOOP_KEY, None),
    V('rename candidate list', 'N', _M, 'Interface._load', 'spks', 'matching', None, occurrence='all'),
    V('reader uses the run id accessor', 'N', _M, 'Interface._load', 'pk = self.__to_key(\n self._bot()._runid(),', 'pk = self.__to_key(\n                            self._runid(),', None),
    V('fallback as sorted comprehension', 'N', _M, 'Interface._load', _FILTER, 'spks = sorted([k for k in pks if k[1:] == pk[1:]])', None),
    V('fallback predicate field by field', 'N', _M, 'Interface._load', 'k[1:] == K[1:]', 'all([k[i] == K[i] for i in range(1, 6)])', None),
    V('fallback through max', 'N', _M, 'Interface._load', 'spks.sort(key=lambda t: t[0])\n\n if spks:\n pk = spks[-1]', 'if len(spks) > 0:\n                                pk = max(spks, key=lambda t: t[0])', None),
    V('prime keys as a frozenset', 'N', _M, 'Interface._load', 'pks = self._prime_keys()', 'pks = frozenset(self._prime_keys())', None),
    V('logging between acquire and try', 'N', _M, 'Interface._update', 'valid = True', "valid = True\n        self._log.debug('locked for %s', name)", None),
    V('writer arguments passed directly', 'N', _M, 'Interface._update', 'vname = self.__to_key(runid, tn, task, alg, sv, vn)', 'vname = self.__to_key(self._bot()._runid(), self._tn(), self._task(), self._alg(), sv, k)', None),
    V('positive membership test', 'N', _M, 'Interface._load', 'if pk not in pks:', 'if not (pk in pks):', None),
    # ---- R-C06-6
    V('decode memoised with lru_cache', 'B', _U, 'decode', 'def decode(entry):', '@functools.lru_cache(maxsize=512)\ndef decode(entry):', 'R-C06-6'),
    V('decode memoised with functools.cache', 'B', _U, 'decode', 'def decode(entry):', '@functools.cache\ndef decode(entry):', 'R-C06-6'),
    V('decode keeps the object in a module dict', 'B', _U, 'decode', 'return result', '_CACHE[entry] = result\n    return result', 'R-C06-6'),
    V('decode answers from a module dict', 'B', _U, 'decode', 'with open(', 'if entry in _CACHE:\n        return _CACHE[entry]\n    with open(', 'R-C06-6'),
    V('decode returns setdefault of a module dict', 'B', _U, 'decode', 'return result', 'return _CACHE.setdefault(entry, result)', 'R-C06-6'),
    V('decode files the object with setdefault', 'B', _U, 'decode', 'return result', '_CACHE.setdefault(entry, result)\n    return result', 'R-C06-6'),
    V('decode remembers the last object in a global', 'B', _U, 'decode', 'return result', 'global _LAST\n    _LAST = result\n    return result', 'R-C06-6'),
    V('decode reads another directory', 'B', _U, 'decode', 'os.path.join(dawgie.context.data_dbs, entry)', 'os.path.join(dawgie.context.data_stg, entry)', 'R-C06-6'),
    V('_get_prime memoised', 'B', 'db/shelve/comms.py', 'Connector._get_prime', 'def _get_prime(', '@functools.lru_cache(maxsize=None)\n    def _get_prime(', 'R-C06-6'),
    V('_get_prime caches on the instance', 'B', 'db/shelve/comms.py', 'Connector._get_prime', 'ret = dawgie.db.util.decode(ret)', 'ret = self._seen.setdefault(key, dawgie.db.util.decode(ret))', 'R-C06-6'),
    V('_get_prime caches in a class dict', 'B', 'db/shelve/comms.py', 'Connector._get_prime', 'return ret', 'Connector._blobs[key] = ret\n        return ret', 'R-C06-6'),
    V('unknown decorator on _load', 'B', _M, 'Interface._load', 'def _load(', '@dawgie.util.once\n    def _load(', 'R-C06-6'),
    V('post reader memoised', 'B', 'db/post/__init__.py', 'Interface.__fill', 'def __fill(', '@functools.lru_cache()\n    def __fill(', 'R-C06-6'),
    V('decode through pickle.loads', 'N', _U, 'decode', 'result = pickle.load(f)', 'result = pickle.loads(f.read())', None),
    V('decode with a cache of paths only', 'N', _U, 'decode', "with open(os.path.join(dawgie.context.data_dbs, entry), 'rb') as f:",
      "fn = _PATHS.get(entry)\n    if fn is None:\n        fn = _PATHS[entry] = os.path.join(dawgie.context.data_dbs, entry)\n    with open(fn, 'rb') as f:", None),
    V('decode with explicit close', 'N', _U, 'decode', "with open(os.path.join(dawgie.context.data_dbs, entry), 'rb') as f:\n result = pickle.load(f)\n pass",
      "f = open(os.path.join(dawgie.context.data_dbs, entry), 'rb')\n    try:\n        result = pickle.load(f)\n    finally:\n        f.close()", None),
    V('decode logs the entry', 'N', _U, 'decode', 'return result', "log.debug('decoded %s', entry)\n    return result", None),
    V('_get_prime without the temporary', 'N', 'db/shelve/comms.py', 'Connector._get_prime', 'ret = dawgie.db.util.decode(ret)\n return ret', 'return dawgie.db.util.decode(ret)', None),
]
