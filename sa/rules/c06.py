"""C06  Stored values come back intact, and only to their own author, version, target.

The rules work on *terms*: every expression of the analysed functions is evaluated symbolically (names replaced by
what they were bound to, calls to helpers of the model module and to the accessors of dawgie.Dataset inlined) along
every control path (sa.flow.Flow).  A prime key is then a term whose shape can be compared: which table each field was
interned in, which id is the parent of which level, whose version went into which level, and where the arguments came
from.  Nothing depends on variable names, statement positions or on the private helper __to_key still existing.
"""

import ast
import itertools

from .. import AnalysisError
from ..flow import Flow, Out, walk_no_nested
from ..report import Report
from ..util import where, norm
from ..variants import V

PID = 'C06'

MODEL = 'dawgie.db.shelve.model'
IFACE = MODEL + '.Interface'
DATASET = 'dawgie.Dataset'
COMMS = 'dawgie.db.shelve.comms'
CONN = COMMS + '.Connector'
UPD = CONN + '._update_cmd'
SETP = CONN + '._set_prime'
GETP = CONN + '._get_prime'
PKEYS = CONN + '._prime_keys'
RPC = CONN + '._Connector__do'
ACQ = COMMS + '.acquire'
REL = COMMS + '.release'
UAPPEND = 'dawgie.db.shelve.util.append'
UCONSTRUCT = 'dawgie.db.shelve.util.construct'
TABLE = 'dawgie.db.shelve.enums.Table.'

FIELDS = ('run', 'target', 'task', 'algorithm', 'state vector', 'value')
TABLES = (None, 'target', 'task', 'alg', 'state', 'value')  # table of each key field (prime table layout)

SELF = ('param', 'self')
LOCK = ('lock', 'own')


def C(v):
    return ('const', type(v).__name__, v)


CNONE = C(None)

# methods that change their receiver (value-like locals are re-bound, identity-like receivers get a store event)
MUTATORS = {
    'sort', 'reverse', 'append', 'extend', 'insert', 'remove', 'pop', 'clear', 'update', 'add', 'discard',
    'setdefault', 'popitem', '__setitem__', '__delitem__',
}
# names of the logging API: calls on a logging.Logger do not raise in practice (accepted between acquire and try)
LOG_METHODS = {'debug', 'info', 'warning', 'warn', 'error', 'critical', 'exception', 'log'}
WRAPPERS = {'external:list', 'external:tuple', 'external:set', 'external:frozenset'}


class _NU(Exception):
    """expression outside the subset the concrete mini evaluator understands"""


# ---------------------------------------------------------------------------
# term helpers


def subterms(t):
    stack = [t]
    while stack:
        x = stack.pop()
        if isinstance(x, tuple):
            yield x
            stack.extend(x)


def contains(t, sub):
    return any(x == sub for x in subterms(t))


def subst(t, mapping):
    if t in mapping:
        return mapping[t]
    if isinstance(t, tuple):
        return tuple(subst(x, mapping) for x in t)
    return t


def show(t, depth=0):
    """compact rendering of a term for messages"""
    if not isinstance(t, tuple) or not t:
        return repr(t)
    k = t[0]
    if k == 'const':
        return repr(t[2])
    if k in ('param', 'given'):
        return t[1]
    if k == 'glob':
        return t[1].replace('external:', '').replace('dawgie.db.shelve.enums.', '')
    if k == 'unk':
        return t[2]
    if k == 'lock':
        return '<lock>'
    if depth > 4:
        return '...'
    if k == 'attr':
        return f'{show(t[1], depth + 1)}.{t[2].split("__")[-1] if t[2].startswith("_") and "__" in t[2] else t[2]}'
    if k == 'call':
        f = t[1][1].rsplit('.', 1)[-1] if t[1][0] == 'func' else show(t[1], depth + 1)
        if t[1][0] == 'func' and t[2] is not None:
            f = show(t[2], depth + 1) + '.' + f
        return f + '(' + ', '.join(show(a[1], depth + 1) for a in t[3]) + ')'
    if k == 'sub':
        return f'{show(t[1], depth + 1)}[{show(t[2], depth + 1)}]'
    if k == 'slice':
        return ':'.join('' if x is None else show(x, depth + 1) for x in t[1:])
    if k in ('tuple', 'list'):
        return ('(%s)' if k == 'tuple' else '[%s]') % ', '.join(show(x, depth + 1) for x in t[1])
    if k == 'elem':
        return f'<each of {show(t[1], depth + 1)}>'
    if k == 'binop':
        return f'{show(t[2], depth + 1)} {t[1]} {show(t[3], depth + 1)}'
    if k == 'sorted':
        return f'sorted({show(t[1], depth + 1)})'
    if k in ('max', 'min'):
        return f'{k}({show(t[1], depth + 1)})'
    if k in ('lambda', 'comp', 'expr'):
        return t[1] if k != 'expr' else t[2]
    return k


def is_call_to(t, q):
    return isinstance(t, tuple) and len(t) == 4 and t[0] == 'call' and t[1] == ('func', q)


def args_of(t):
    return dict(t[3])


def strip_wrappers(t):
    """list(x) / set(x) / tuple(x) / frozenset(x) / sorted x -> x"""
    while True:
        if t[0] == 'call' and t[1][0] == 'glob' and t[1][1] in WRAPPERS and len(t[3]) == 1:
            t = t[3][0][1]
        elif t[0] == 'sorted':
            t = t[1]
        elif t[0] == 'mut' and t[1] == 'reverse':
            t = t[2]
        else:
            return t


def is_primekeys(t):
    return is_call_to(strip_wrappers(t), PKEYS)


def cand_base(t):
    """the filter(...) / comprehension term a candidate collection is derived from, else None"""
    b = strip_wrappers(t)
    if b[0] == 'call' and b[1] == ('glob', 'external:filter') and len(b[3]) == 2:
        return b
    if b[0] == 'comp':
        return b
    return None


# ---------------------------------------------------------------------------
# concrete mini evaluator for pure predicates / sort keys over tuples of small integers (truth tables)

_PEV_FUNCS = {'all': all, 'any': any, 'len': len, 'tuple': tuple, 'list': list, 'range': range, 'zip': zip, 'bool': bool, 'int': int, 'enumerate': enumerate, 'abs': abs}


def _pev(n, env):
    if isinstance(n, ast.Constant):
        return n.value
    if isinstance(n, ast.Name):
        if n.id in env:
            return env[n.id]
        raise _NU(f'name {n.id} is neither the candidate nor the reference key')
    if isinstance(n, (ast.Tuple, ast.List)):
        if any(isinstance(x, ast.Starred) for x in n.elts):
            raise _NU('starred element')
        vals = [_pev(x, env) for x in n.elts]
        return tuple(vals) if isinstance(n, ast.Tuple) else vals
    if isinstance(n, ast.Subscript):
        v = _pev(n.value, env)
        if not isinstance(v, (tuple, list)):
            raise _NU('subscript of a non-sequence')
        try:
            if isinstance(n.slice, ast.Slice):
                lo = None if n.slice.lower is None else _pev(n.slice.lower, env)
                hi = None if n.slice.upper is None else _pev(n.slice.upper, env)
                stp = None if n.slice.step is None else _pev(n.slice.step, env)
                return v[lo:hi:stp]
            i = _pev(n.slice, env)
            if not isinstance(i, int):
                raise _NU('non-integer index')
            return v[i]
        except (IndexError, TypeError, ValueError) as e:
            raise _NU(f'subscript fails: {e}') from e
    if isinstance(n, ast.UnaryOp):
        v = _pev(n.operand, env)
        if isinstance(n.op, ast.Not):
            return not v
        if isinstance(n.op, ast.USub) and isinstance(v, int):
            return -v
        raise _NU('unary operator')
    if isinstance(n, ast.BoolOp):
        r = None
        for x in n.values:
            r = _pev(x, env)
            if isinstance(n.op, ast.And) and not r:
                return r
            if isinstance(n.op, ast.Or) and r:
                return r
        return r
    if isinstance(n, ast.IfExp):
        return _pev(n.body, env) if _pev(n.test, env) else _pev(n.orelse, env)
    if isinstance(n, ast.Compare):
        left = _pev(n.left, env)
        for op, c in zip(n.ops, n.comparators):
            right = _pev(c, env)
            try:
                if isinstance(op, ast.Eq):
                    ok = left == right
                elif isinstance(op, ast.NotEq):
                    ok = left != right
                elif isinstance(op, ast.Lt):
                    ok = left < right
                elif isinstance(op, ast.LtE):
                    ok = left <= right
                elif isinstance(op, ast.Gt):
                    ok = left > right
                elif isinstance(op, ast.GtE):
                    ok = left >= right
                elif isinstance(op, ast.Is):
                    ok = left is right
                elif isinstance(op, ast.IsNot):
                    ok = left is not right
                elif isinstance(op, ast.In):
                    ok = left in right
                elif isinstance(op, ast.NotIn):
                    ok = left not in right
                else:
                    raise _NU('comparison operator')
            except TypeError as e:
                raise _NU(f'comparison fails: {e}') from e
            if not ok:
                return False
            left = right
        return True
    if isinstance(n, ast.BinOp):
        a, b = _pev(n.left, env), _pev(n.right, env)
        try:
            if isinstance(n.op, ast.Add):
                return a + b
            if isinstance(n.op, ast.Sub):
                return a - b
            if isinstance(n.op, ast.Mult):
                return a * b
        except TypeError as e:
            raise _NU(f'arithmetic fails: {e}') from e
        raise _NU('binary operator')
    if isinstance(n, ast.Call) and isinstance(n.func, ast.Name) and n.func.id in _PEV_FUNCS and not n.keywords and n.func.id not in env:
        args = [_pev(a, env) for a in n.args]
        try:
            r = _PEV_FUNCS[n.func.id](*args)
        except (TypeError, ValueError) as e:
            raise _NU(f'{n.func.id}() fails: {e}') from e
        return list(r) if n.func.id in ('zip', 'enumerate', 'range') else r
    if isinstance(n, (ast.ListComp, ast.GeneratorExp, ast.SetComp)):
        out = []

        def gen(i, env):
            if i == len(n.generators):
                out.append(_pev(n.elt, env))
                return
            g = n.generators[i]
            it = _pev(g.iter, env)
            if not isinstance(it, (list, tuple, range)):
                raise _NU('comprehension over a non-sequence')
            for v in it:
                e2 = dict(env)
                _pbind(g.target, v, e2)
                if all(_pev(c, e2) for c in g.ifs):
                    gen(i + 1, e2)

        gen(0, env)
        return out
    raise _NU(f'{type(n).__name__} expression')


def _pbind(t, v, env):
    if isinstance(t, ast.Name):
        env[t.id] = v
    elif isinstance(t, (ast.Tuple, ast.List)) and isinstance(v, (tuple, list)) and len(t.elts) == len(v):
        for a, b in zip(t.elts, v):
            _pbind(a, b, env)
    else:
        raise _NU('comprehension target')


# ---------------------------------------------------------------------------
# shared analysis context


class _An:
    def __init__(self, ctx):
        self.ctx = ctx
        self.prog = ctx.prog
        self.cg = ctx.cg
        self.summ = {}
        self.nodes = {}  # lambda / comprehension term -> (ast node, _Sym, state at creation)
        self.origin = {}  # call term -> (Func, ast.Call) where it was first built
        self.runs = {}
        self._reach = {}
        self._lockers = None
        self._loggers = {}

    def _rev(self, target):
        """every function from which `target` is reachable through direct call edges"""
        if target not in self._reach:
            seen, todo = set(), [target]
            while todo:
                q = todo.pop()
                if q in seen:
                    continue
                seen.add(q)
                for e in self.cg.inn.get(q, []):
                    if e.kind == 'direct' and e.src is not None and e.src.qname not in seen:
                        todo.append(e.src.qname)
            self._reach[target] = seen
        return self._reach[target]

    def reaches(self, q, target):
        return q in self._rev(target)

    def lockers(self):
        """functions that take the database lock themselves (directly or through callees)"""
        if self._lockers is None:
            self._lockers = self._rev(ACQ) - {ACQ}
        return self._lockers

    def lockparams(self, f):
        """parameters of f that carry a lock handed in by the caller: released by f, or re-bound to acquire()"""
        out = set()
        ps = set(f.params())
        for n in f.own_nodes():
            if isinstance(n, ast.Call):
                sym = self.prog.callee(n, f)
                if sym == REL:
                    out |= {a.id for a in n.args if isinstance(a, ast.Name) and a.id in ps}
            elif isinstance(n, ast.Assign) and isinstance(n.value, ast.Call) and self.prog.callee(n.value, f) == ACQ:
                out |= {t.id for t in n.targets if isinstance(t, ast.Name) and t.id in ps}
        return out

    def is_logger(self, expr, f):
        """expr denotes a logging.Logger: module global / self attribute bound to getLogger(...) / getChild(...)"""
        k = (norm(expr), f.module.name, f.cls.qname if f.cls else None)
        if k in self._loggers:
            return self._loggers[k]
        vals = []
        if isinstance(expr, ast.Name):
            vals = f.module.globals.get(expr.id, [])
        elif isinstance(expr, ast.Attribute) and isinstance(expr.value, ast.Name) and f.cls is not None and f.params()[:1] == [expr.value.id]:
            seen, todo = set(), [f.cls.qname]
            while todo:
                cq = todo.pop()
                if cq in seen or cq not in self.prog.classes:
                    continue
                seen.add(cq)
                c = self.prog.classes[cq]
                todo.extend(c.bases)
                for m in c.methods.values():
                    for n in m.own_nodes():
                        if isinstance(n, ast.Assign):
                            for t in n.targets:
                                if isinstance(t, ast.Attribute) and t.attr == expr.attr and isinstance(t.value, ast.Name) and t.value.id == m.params()[0]:
                                    vals.append(n.value)
        elif isinstance(expr, ast.Attribute):
            sym = self.prog.resolve_in(expr, f) or ''
            mod, _, name = sym.rpartition('.')
            if mod in self.prog.modules:
                vals = self.prog.modules[mod].globals.get(name, [])
        ok = bool(vals) and all(
            isinstance(v, ast.Call) and isinstance(v.func, ast.Attribute) and v.func.attr in ('getLogger', 'getChild') for v in vals
        )
        self._loggers[k] = ok
        return ok

    def inlineable(self, g):
        return (g.module.name == MODEL or (g.cls is not None and g.cls.qname == DATASET)) and g.qname not in self.lockers()

    def summary(self, g, recv, A, depth, stack):
        """the single term every normal return of g yields for these arguments, else None"""
        k = (g.qname, recv, A)
        if k in self.summ:
            return self.summ[k]
        self.summ[k] = None
        if not any(isinstance(n, ast.Return) and n.value is not None for n in g.own_nodes()):
            return None
        env = dict(A)
        ps = g.params()
        if recv is not None and ps:
            env[ps[0]] = recv
        sub = _Sym(self, g, depth, stack + (g.qname,))
        try:
            out = sub.run(g.node, {frozenset(env.items())})
        except AnalysisError:
            return None
        rets = set(sub.returns)
        if out.normal:
            rets.add(CNONE)
        if len(rets) == 1:
            self.summ[k] = next(iter(rets))
        return self.summ[k]

    def run(self, f):
        """path analysis of a top-level function over every combination of None / given for its None-default parameters"""
        if f.qname in self.runs:
            return self.runs[f.qname]
        ps = f.params()
        a = f.node.args
        pos = a.posonlyargs + a.args
        dflt = dict(zip([x.arg for x in pos[len(pos) - len(a.defaults):]], a.defaults))
        dflt.update({x.arg: d for x, d in zip(a.kwonlyargs, a.kw_defaults) if d is not None})
        base, splits = {}, []
        for i, p in enumerate(ps):
            if i == 0 and f.cls is not None and not f.is_staticmethod():
                base[p] = SELF
            elif p in dflt and isinstance(dflt[p], ast.Constant) and dflt[p].value is None:
                splits.append(p)
            else:
                base[p] = ('param', p)
        lockps = self.lockparams(f)
        inits = set()
        for combo in itertools.product((False, True), repeat=len(splits)):
            env = dict(base)
            lock = 'borrowed' if any(p in lockps for p in base if base[p] != SELF) else 'free'
            for p, given in zip(splits, combo):
                env[p] = ('given', p) if given else CNONE
                if given and p in lockps:
                    lock = 'borrowed'
            env['#lock'] = lock
            inits.add(frozenset(env.items()))
        sym = _Sym(self, f, 0, (f.qname,))
        sym.top = True
        sym.out = sym.run(f.node, inits)
        self.runs[f.qname] = sym
        return sym


# ---------------------------------------------------------------------------
# symbolic path interpreter


def _g(st, k):
    for a, b in st:
        if a == k:
            return b
    return None


def _s(st, k, v):
    s = {(a, b) for a, b in st if a != k}
    if v is not None:
        s.add((k, v))
    return frozenset(s)


def _valuelike(t):
    """terms with value semantics: a mutating method call on a local bound to one re-binds the local"""
    return t[0] in ('list', 'tuple', 'sorted', 'mut', 'comp') or (
        t[0] == 'call' and t[1][0] == 'glob' and t[1][1] in WRAPPERS | {'external:filter', 'external:dict', 'external:map'}
    )


class _Sym(Flow):
    def __init__(self, an, func, depth, stack):
        super().__init__()
        self.an = an
        self.prog = an.prog
        self.f = func
        self.depth = depth
        self.stack = stack
        self.top = False
        self.returns = set()
        self.sites = {}  # id(call) -> (call, kind, set of (key term, value term, present, cands, lock))
        self.stores = {}  # id(node) -> (node, set of (kind, base, idx, value, present, cands))
        self.lock_events = {}  # (kind, id(node), lock state before, detail) -> node
        self.db = {}  # id(call) -> (call, callee, set of lock states)
        self.hazards = {}  # id(call) -> call evaluated with the lock held outside any try
        self.nested = {}  # id(call) -> (call, callee Func, set of (lock state, passed terms))
        self.cand_tests = {}
        self.member_tests = {}
        self._loops = {}
        self._tcache = {}

    # ------------------------------------------------------------ terms
    def T(self, e, st):
        k = (id(e), st)
        r = self._tcache.get(k)
        if r is None:
            r = self._tcache[k] = self._T(e, st)
        return r

    def _frees(self, e, st, bound=()):
        out = []
        for n in sorted({x.id for x in ast.walk(e) if isinstance(x, ast.Name)} - set(bound)):
            v = _g(st, n)
            if v is not None:
                out.append((n, v))
        return tuple(out)

    def _glob(self, e):
        sym = self.prog.resolve_in(e, self.f)
        if sym is None:
            return ('glob', norm(e))
        if sym.startswith('local:'):
            return None
        return ('glob', sym)

    def _T(self, e, st):
        if isinstance(e, ast.Constant):
            return C(e.value)
        if isinstance(e, ast.Name):
            v = _g(st, e.id)
            if v is not None:
                return v
            return self._glob(e) or ('unk', self.f.qname, e.id)
        if isinstance(e, ast.Attribute):
            parts = self.prog.dotted(e)
            if parts and _g(st, parts[0]) is None:
                g = self._glob(e)
                if g is not None and not g[1].startswith('self.'):
                    return g
            return ('attr', self.T(e.value, st), e.attr)
        if isinstance(e, ast.Call):
            return self._call_term(e, st)
        if isinstance(e, ast.Subscript):
            return ('sub', self.T(e.value, st), self.T(e.slice, st))
        if isinstance(e, ast.Slice):
            return ('slice',) + tuple(None if x is None else self.T(x, st) for x in (e.lower, e.upper, e.step))
        if isinstance(e, (ast.Tuple, ast.List)):
            elts = []
            for x in e.elts:
                if isinstance(x, ast.Starred):
                    t = self.T(x.value, st)
                    if t[0] in ('tuple', 'list'):
                        elts.extend(t[1])
                    else:
                        elts.append(('star', t))
                else:
                    elts.append(self.T(x, st))
            return ('tuple' if isinstance(e, ast.Tuple) else 'list', tuple(elts))
        if isinstance(e, ast.UnaryOp) and isinstance(e.op, ast.USub) and isinstance(e.operand, ast.Constant) and isinstance(e.operand.value, (int, float)):
            return C(-e.operand.value)
        if isinstance(e, ast.BinOp):
            a, b = self.T(e.left, st), self.T(e.right, st)
            if isinstance(e.op, ast.Add) and a[0] == b[0] and a[0] in ('list', 'tuple'):
                return (a[0], a[1] + b[1])
            return ('binop', type(e.op).__name__, a, b)
        if isinstance(e, ast.Lambda):
            a = e.args
            names = [x.arg for x in a.posonlyargs + a.args + a.kwonlyargs]
            pos = a.posonlyargs + a.args
            dfl = tuple((p.arg, self.T(d, st)) for p, d in zip(pos[len(pos) - len(a.defaults):], a.defaults))
            t = ('lambda', norm(e), dfl, self._frees(e.body, st, names))
            self.an.nodes.setdefault(t, (e, self, st))
            return t
        if isinstance(e, (ast.ListComp, ast.GeneratorExp, ast.SetComp)):
            bound = {x.id for g in e.generators for x in ast.walk(g.target) if isinstance(x, ast.Name)}
            t = ('comp', norm(e), self._frees(e, st, bound))
            self.an.nodes.setdefault(t, (e, self, st))
            return t
        if isinstance(e, ast.NamedExpr):
            return self.T(e.value, st)
        return ('expr', type(e).__name__, norm(e), self._frees(e, st))

    def _is_instance_expr(self, v):
        if isinstance(v, (ast.Name, ast.Attribute)):
            sym = self.prog.resolve_in(v, self.f)
            if sym in self.prog.classes or sym in self.prog.modules:
                return False
        return True

    def resolve_call(self, e, st):
        """-> (callee Func, receiver term, bound argument terms) for a call to a repository function, else None"""
        sym = self.prog.callee(e, self.f)
        if not sym or sym.startswith(('local:', 'external:', 'dbimpl:')) or sym in self.prog.classes:
            return None
        g = self.prog.func_of(sym)
        if g is None:
            return None
        if any(isinstance(a, ast.Starred) for a in e.args) or any(k.arg is None for k in e.keywords):
            return g, None, None
        params = g.params()
        recv = None
        if g.cls is not None and not g.is_staticmethod() and isinstance(e.func, ast.Attribute) and self._is_instance_expr(e.func.value):
            recv = self.T(e.func.value, st)
            params = params[1:]
        a = g.node.args
        allp = a.posonlyargs + a.args
        dflt = dict(zip([x.arg for x in allp[len(allp) - len(a.defaults):]], a.defaults))
        dflt.update({x.arg: d for x, d in zip(a.kwonlyargs, a.kw_defaults) if d is not None})
        npos = len(allp) - (len(g.params()) - len(params))
        if len(e.args) > npos and a.vararg is None:
            return g, recv, None
        bound = {}
        for p, x in zip(params, e.args):
            bound[p] = self.T(x, st)
        for k in e.keywords:
            if k.arg not in params or k.arg in bound:
                return g, recv, None
            bound[k.arg] = self.T(k.value, st)
        for p in params:
            if p not in bound:
                d = dflt.get(p)
                if isinstance(d, ast.Constant):
                    bound[p] = C(d.value)
                elif d is not None:
                    bound[p] = ('default', g.qname, p)
                else:
                    return g, recv, None
        return g, recv, tuple((p, bound[p]) for p in params)

    def _call_term(self, e, st):
        sym = self.prog.callee(e, self.f)
        if sym == ACQ:
            return LOCK
        pos, kws, star = [], [], False
        for a in e.args:
            if isinstance(a, ast.Starred):
                star = True
                pos.append(('star', self.T(a.value, st)))
            else:
                pos.append(self.T(a, st))
        for k in e.keywords:
            if k.arg is None:
                star = True
                kws.append(('**', self.T(k.value, st)))
            else:
                kws.append((k.arg, self.T(k.value, st)))
        bname = e.func.id if isinstance(e.func, ast.Name) and sym == 'external:' + e.func.id and _g(st, e.func.id) is None else None
        if bname in ('list', 'tuple') and len(pos) == 1 and not kws and not star and pos[0][0] in ('list', 'tuple'):
            return (bname, pos[0][1])
        if bname == 'sorted' and len(pos) == 1 and not star and {k for k, _ in kws} <= {'key', 'reverse'}:
            kw = dict(kws)
            return ('sorted', pos[0], kw.get('key'), kw.get('reverse', C(False)))
        if bname in ('max', 'min') and len(pos) == 1 and not star and {k for k, _ in kws} <= {'key'}:
            return (bname, pos[0], dict(kws).get('key'))
        if bname == 'reversed' and len(pos) == 1 and not kws and not star:
            return ('mut', 'reverse', pos[0], ())
        rc = self.resolve_call(e, st)
        if rc is not None and rc[2] is not None:
            g, recv, A = rc
            if self.an.inlineable(g) and self.depth < 3 and g.qname not in self.stack:
                s = self.an.summary(g, recv, A, self.depth + 1, self.stack)
                if s is not None:
                    return s
            t = ('call', ('func', g.qname), recv, A)
            self.an.origin.setdefault(t, (self.f, e))
            return t
        if sym in self.prog.classes:
            F = ('glob', sym)
        else:
            F = self.T(e.func, st)
        return ('call', F, None, tuple((str(i), t) for i, t in enumerate(pos)) + tuple(kws))

    # ------------------------------------------------------------ statements
    def _bind(self, target, vt, st, node):
        if isinstance(target, ast.Name):
            return _s(st, target.id, vt)
        if isinstance(target, (ast.Tuple, ast.List)):
            n = len(target.elts)
            for i, t in enumerate(target.elts):
                if isinstance(t, ast.Starred):
                    st = self._bind(t.value, ('sub', vt, ('slice', C(i), None, None)), st, node)
                elif vt[0] in ('tuple', 'list') and len(vt[1]) == n and not any(x[0] == 'star' for x in vt[1]):
                    st = self._bind(t, vt[1][i], st, node)
                else:
                    st = self._bind(t, ('sub', vt, C(i)), st, node)
            return st
        if isinstance(target, ast.Subscript):
            self._store('store', node, self.T(target.value, st), self.T(target.slice, st), vt, st)
        elif isinstance(target, ast.Attribute):
            self._store('attr-store', node, self.T(target.value, st), C(target.attr), vt, st)
        return st

    def _store(self, kind, node, base, idx, value, st):
        self.stores.setdefault(id(node), (node, set()))[1].add((kind, base, idx, value, _g(st, '#present'), _g(st, '#cands')))

    def on_stmt(self, s, st):
        if isinstance(s, ast.Assign):
            vt = self.T(s.value, st)
            for t in s.targets:
                st = self._bind(t, vt, st, s)
        elif isinstance(s, ast.AnnAssign) and s.value is not None:
            st = self._bind(s.target, self.T(s.value, st), st, s)
        elif isinstance(s, ast.AugAssign):
            vt = self.T(s.value, st)
            if isinstance(s.target, ast.Name):
                old = self.T(s.target, st)
                if isinstance(s.op, ast.Add) and old[0] == vt[0] and old[0] in ('list', 'tuple'):
                    st = _s(st, s.target.id, (old[0], old[1] + vt[1]))
                else:
                    st = _s(st, s.target.id, ('binop', type(s.op).__name__, old, vt))
            else:
                st = self._bind(s.target, ('binop', type(s.op).__name__, self.T(s.target, st), vt), st, s)
        elif isinstance(s, ast.Delete):
            for t in s.targets:
                if isinstance(t, ast.Name):
                    st = _s(st, t.id, None)
                elif isinstance(t, ast.Subscript):
                    self._store('del', s, self.T(t.value, st), self.T(t.slice, st), None, st)
        return (st,)

    def on_return(self, node, st):
        self.returns.add(self.T(node.value, st) if node.value is not None else CNONE)
        return (st,)

    def on_with(self, item, st):
        if item.optional_vars is not None:
            for n in ast.walk(item.optional_vars):
                if isinstance(n, ast.Name):
                    st = _s(st, n.id, None)
        return (st,)

    def on_handler(self, h, st):
        if h.name:
            st = _s(st, h.name, None)
        return (st,)

    # ------------------------------------------------------------ loops
    def _havoc_names(self, body):
        """names whose value may grow from one iteration to the next (anything but re-binding to a constant)"""
        out = set()
        for s in body:
            for n in walk_no_nested(s):
                if isinstance(n, ast.Assign):
                    const = isinstance(n.value, ast.Constant)
                    for t in n.targets:
                        for x in ast.walk(t):
                            if isinstance(x, ast.Name) and isinstance(x.ctx, ast.Store) and not (const and x is t):
                                out.add(x.id)
                elif isinstance(n, (ast.AugAssign, ast.AnnAssign)) and isinstance(n.target, ast.Name):
                    out.add(n.target.id)
                elif isinstance(n, (ast.For, ast.comprehension)):
                    out |= {x.id for x in ast.walk(n.target) if isinstance(x, ast.Name)}
                elif isinstance(n, ast.NamedExpr):
                    out.add(n.target.id)
                elif isinstance(n, ast.withitem) and n.optional_vars is not None:
                    out |= {x.id for x in ast.walk(n.optional_vars) if isinstance(x, ast.Name)}
                elif isinstance(n, ast.Call) and isinstance(n.func, ast.Attribute) and n.func.attr in MUTATORS and isinstance(n.func.value, ast.Name):
                    out.add(n.func.value.id)
        return out

    def _loop_no(self, node):
        if id(node) not in self._loops:
            loops = sorted(
                (n for n in walk_no_nested(self.f.node) if isinstance(n, (ast.For, ast.While))), key=lambda n: (n.lineno, n.col_offset)
            )
            for i, n in enumerate(loops):
                self._loops[id(n)] = i
        return self._loops.get(id(node), -1)

    def _havoc(self, st, names, node):
        no = self._loop_no(node)
        for n in names:
            if _g(st, n) is not None:
                st = _s(st, n, ('loopvar', n, no))
        st = _s(_s(st, '#present', None), '#cands', None)
        return st

    def on_for(self, node, st):
        st = self._havoc(st, self._havoc_names(node.body), node)
        it = self.T(node.iter, st)
        return (self._bind(node.target, ('elem', it, self._loop_no(node)), st, node),)

    def on_for_done(self, node, st):
        return (_s(_s(st, '#present', None), '#cands', None),)

    def _s_For(self, s, states):
        head = self.eval(s.iter, states)
        its = {st: self.T(s.iter, st) for st in head}
        if not head or not all(t[0] in ('list', 'tuple') and not any(x[0] == 'star' for x in t[1]) for t in its.values()):
            return Flow._s_For(self, s, states)
        # literal table: unroll (key levels computed in a loop over a table)
        out = Out()
        for st in head:
            cur, brk = {st}, set()
            for el in its[st][1]:
                ent = {self._bind(s.target, el, c, s) for c in cur}
                ob = self.block(s.body, ent)
                out.ret |= ob.ret
                out.exc |= ob.exc
                brk |= ob.brk
                cur = self._cap(ob.normal | ob.cont)
                if not cur:
                    break
            if s.orelse:
                out.absorb(self.block(s.orelse, cur), True)
            else:
                out.normal |= cur
            out.normal |= brk
        return out

    def _s_While(self, s, states):
        hv = self._havoc_names(s.body)
        head = {self._havoc(st, hv, s) for st in states}
        out, exits = Out(), set()
        while True:
            t, f = self.cond(s.test, head)
            exits |= f
            ob = self.block(s.body, t)
            out.ret |= ob.ret
            out.exc |= ob.exc
            out.normal |= ob.brk
            new = head | {self._havoc(x, hv, s) for x in ob.normal | ob.cont}
            self._cap(new)
            if new == head:
                break
            head = new
        if s.orelse:
            out.absorb(self.block(s.orelse, exits), True)
        else:
            out.normal |= exits
        return out

    # ------------------------------------------------------------ tests
    def _truth(self, e, st):
        if isinstance(e, ast.Name):
            v = _g(st, e.id)
            if v is None:
                return None
            if v[0] == 'const':
                return bool(v[2])
            if v[0] in ('lock', 'given'):
                return True
            return None
        if isinstance(e, ast.Compare) and len(e.ops) == 1 and isinstance(e.ops[0], (ast.Is, ast.IsNot, ast.Eq, ast.NotEq)):
            c = e.comparators[0]
            if isinstance(c, ast.Constant) and c.value is None:
                v = self.T(e.left, st)
                neg = isinstance(e.ops[0], (ast.IsNot, ast.NotEq))
                if v == CNONE:
                    return not neg
                if v[0] in ('lock', 'given', 'const', 'tuple', 'list'):
                    return neg
        return None

    @staticmethod
    def _emptiness_subject(e):
        """X | len(X) | len(X) > 0 | len(X) != 0 | len(X) >= 1 | 0 < len(X)   (positive)
        len(X) == 0 | len(X) < 1 (negative)   -> (X expr, positive?) else (None, None)"""

        def ln(x):
            if isinstance(x, ast.Call) and isinstance(x.func, ast.Name) and x.func.id == 'len' and len(x.args) == 1 and not x.keywords:
                return x.args[0]
            return None

        if isinstance(e, (ast.Name, ast.Attribute)):
            return e, True
        if ln(e) is not None:
            return ln(e), True
        if isinstance(e, ast.Compare) and len(e.ops) == 1:
            a, op, b = e.left, e.ops[0], e.comparators[0]
            if ln(b) is not None and isinstance(a, ast.Constant):  # 0 < len(X): mirror
                mirror = {ast.Lt: ast.Gt, ast.Gt: ast.Lt, ast.LtE: ast.GtE, ast.GtE: ast.LtE, ast.Eq: ast.Eq, ast.NotEq: ast.NotEq}
                a, b, op = b, a, mirror.get(type(op), type(None))()
            if ln(a) is not None and isinstance(b, ast.Constant) and isinstance(b.value, int) and not isinstance(b.value, bool):
                k = b.value
                if (isinstance(op, (ast.Gt, ast.NotEq)) and k == 0) or (isinstance(op, ast.GtE) and k == 1):
                    return ln(a), True
                if (isinstance(op, (ast.Eq, ast.LtE)) and k == 0) or (isinstance(op, ast.Lt) and k == 1):
                    return ln(a), False
        return None, None

    def on_test(self, e, st):
        t = self._truth(e, st)
        if t is True:
            return (st,), ()
        if t is False:
            return (), (st,)
        if isinstance(e, ast.Compare) and len(e.ops) == 1 and isinstance(e.ops[0], (ast.In, ast.NotIn)):
            coll = self.T(e.comparators[0], st)
            if is_primekeys(coll):
                k = self.T(e.left, st)
                self.member_tests[id(e)] = e
                yes, no = _s(st, '#present', ('yes', k)), _s(st, '#present', ('no', k))
                return ((yes,), (no,)) if isinstance(e.ops[0], ast.In) else ((no,), (yes,))
        subj, positive = self._emptiness_subject(e)
        if subj is not None:
            base = cand_base(self.T(subj, st))
            if base is not None:
                self.cand_tests[id(e)] = e
                ne, em = _s(st, '#cands', ('nonempty', base)), _s(st, '#cands', ('empty', base))
                return ((ne,), (em,)) if positive else ((em,), (ne,))
        return (st,), (st,)

    # ------------------------------------------------------------ calls
    def on_call(self, call, st):
        lock = _g(st, '#lock')
        sym = self.prog.callee(call, self.f)
        if sym == ACQ:
            self.lock_events[('acquire', id(call), lock, None)] = call
            return (_s(st, '#lock', 'held' if lock in ('free', None) else 'double'),)
        if sym == REL:
            a = self.T(call.args[0], st) if call.args else None
            self.lock_events[('release', id(call), lock, a)] = call
            return (_s(st, '#lock', 'released' if (lock == 'held' and a == LOCK) else 'bad-release'),)
        rc = self.resolve_call(call, st)
        g = rc[0] if rc else None
        is_log = (
            isinstance(call.func, ast.Attribute) and call.func.attr in LOG_METHODS and self.an.is_logger(call.func.value, self.f)
        )
        if self.top and lock == 'held' and not self._try and not is_log:
            self.hazards[id(call)] = call
        if g is not None and self.top:
            if g.qname in self.an.lockers():
                passed = tuple(sorted((p, t) for p, t in (rc[2] or ()) if p in self.an.lockparams(g)))
                self.nested.setdefault(id(call), (call, g, set()))[2].add((lock, passed))
            elif self.an.reaches(g.qname, RPC):
                self.db.setdefault(id(call), (call, g, set()))[2].add(lock)
        if g is not None and g.qname in (SETP, GETP) and rc[2] is not None:
            a = dict(rc[2])
            self.sites.setdefault(id(call), (call, 'set' if g.qname == SETP else 'get', set()))[2].add(
                (a.get('key'), a.get('value'), _g(st, '#present'), _g(st, '#cands'), lock)
            )
        # mutating method calls
        if isinstance(call.func, ast.Attribute) and call.func.attr in MUTATORS and g is None:
            m = call.func.attr
            recv = call.func.value
            old = self.T(recv, st)
            args = tuple(self.T(a, st) for a in call.args if not isinstance(a, ast.Starred))
            if isinstance(recv, ast.Name) and _g(st, recv.id) is not None and _valuelike(old):
                if m == 'sort' and not call.args and {k.arg for k in call.keywords} <= {'key', 'reverse'}:
                    kw = {k.arg: self.T(k.value, st) for k in call.keywords}
                    new = ('sorted', old, kw.get('key'), kw.get('reverse', C(False)))
                elif m == 'append' and old[0] == 'list' and len(args) == 1:
                    new = ('list', old[1] + args)
                elif m == 'extend' and old[0] == 'list' and len(args) == 1 and args[0][0] in ('list', 'tuple'):
                    new = ('list', old[1] + args[0][1])
                else:
                    new = ('mut', m, old, args)
                st = _s(st, recv.id, new)
            elif not (old[0] == 'glob' or is_log):
                self._store('mutcall:' + m, call, old, args[0] if args else None, args[1] if len(args) > 1 else None, st)
        elif g is None or not self.an.inlineable(g):
            # an unknown callee may change a literal list handed to it
            for a in call.args:
                if isinstance(a, ast.Name) and (_g(st, a.id) or ('',))[0] == 'list':
                    st = _s(st, a.id, ('mut', 'passed', _g(st, a.id), ()))
        return (st,)
