"""C16  The compliance gate accepts exactly the engines that follow the architecture.

Three rules (DESIGN.md section 4, C16):

R-C16-1  every local name used by ``tools.compliant._walk`` (and the helpers it calls) is bound in the
         iteration of the factory-kind loop that uses it (definite assignment with per-iteration scoping);
R-C16-2  every ``rule_*`` counts, a raising rule counts as failed, the verdict is the conjunction, and the
         verdict travels unchanged through ``main`` -> exit status -> ``verify``/spawn ->
         ``auto_merge_compliant`` -> ``automatic`` (which touches the operational branch only after it);
R-C16-3  each runnable factory kind applies the container, routine, reference (feedback + inputs),
         state-vector and value hooks to the objects of *its own* factory product.

Rules 1 and 3 share one symbolic interpreter of ``_walk`` (``_Walk``): values are provenance terms, one
iteration of the kind loop is evaluated from a fresh environment, helper functions and lambdas are inlined.
"""

import ast
import re

from .. import AnalysisError
from ..flow import Flow, Out, call_name
from ..report import Report
from ..util import where, mwhere, norm
from ..variants import V

PID = 'C16'
MOD = 'dawgie.tools.compliant'
SUB = 'dawgie.tools.submit'
FACTORIES = 'dawgie.Factories'

_DEFS = (ast.FunctionDef, ast.AsyncFunctionDef, ast.ClassDef)
_COMPS = (ast.ListComp, ast.SetComp, ast.DictComp, ast.GeneratorExp)

# element-preserving wrappers: iterating list(X) visits exactly the elements of X
_SAME_ELEMENTS = {'list', 'tuple', 'sorted', 'iter', 'reversed'}


# ---------------------------------------------------------------------------
# scope facts of one function


class _Scope:
    """locals, parent links and inner (comprehension / lambda) scoping of one function body"""

    def __init__(self, func):
        self.func = func
        self.parent = {}
        self.nodes = []
        stack = []
        for s in func.node.body:
            self.parent[id(s)] = func.node
            stack.append(s)
        while stack:
            n = stack.pop()
            self.nodes.append(n)
            if isinstance(n, _DEFS):
                # the body is another scope; defaults and decorators are evaluated here
                kids = list(n.decorator_list)
                if not isinstance(n, ast.ClassDef):
                    kids += [d for d in n.args.defaults + n.args.kw_defaults if d is not None]
                else:
                    kids += list(n.bases)
            else:
                kids = list(ast.iter_child_nodes(n))
            for c in kids:
                self.parent[id(c)] = n
                stack.append(c)
        declared = set()
        for n in self.nodes:
            if isinstance(n, (ast.Global, ast.Nonlocal)):
                declared.update(n.names)
        self.params = [a.arg for a in func.node.args.posonlyargs + func.node.args.args + func.node.args.kwonlyargs]
        if func.node.args.vararg:
            self.params.append(func.node.args.vararg.arg)
        if func.node.args.kwarg:
            self.params.append(func.node.args.kwarg.arg)
        self.stores = {}  # name -> [Name nodes]
        other = set()
        for n in self.nodes:
            if isinstance(n, ast.Name) and isinstance(n.ctx, (ast.Store, ast.Del)) and not self.inner_bound(n):
                self.stores.setdefault(n.id, []).append(n)
            elif isinstance(n, _DEFS):
                other.add(n.name)
            elif isinstance(n, ast.ExceptHandler) and n.name:
                other.add(n.name)
            elif isinstance(n, (ast.Import, ast.ImportFrom)):
                for a in n.names:
                    other.add((a.asname or a.name).split('.')[0])
        self.other_bound = other
        self.locals = (set(self.params) | set(self.stores) | other) - declared
        # names bound only as for-loop targets go out of scope when their loop is exhausted
        self.for_only = {
            name
            for name, ns in self.stores.items()
            if name not in self.params and name not in other and all(self._for_of_target(x) is not None for x in ns)
        }

    def chain(self, node):
        n = self.parent.get(id(node))
        while n is not None:
            yield n
            n = self.parent.get(id(n))

    def inner_bound(self, name_node):
        """the name is bound by an enclosing comprehension or lambda (its own inner scope)"""
        for p in self.chain(name_node):
            if isinstance(p, _COMPS):
                for g in p.generators:
                    if any(isinstance(x, ast.Name) and x.id == name_node.id for x in ast.walk(g.target)):
                        return True
            elif isinstance(p, ast.Lambda):
                a = p.args
                names = [x.arg for x in a.posonlyargs + a.args + a.kwonlyargs]
                if a.vararg:
                    names.append(a.vararg.arg)
                if a.kwarg:
                    names.append(a.kwarg.arg)
                if name_node.id in names:
                    return True
        return False

    def _for_of_target(self, name_node):
        prev = name_node
        for p in self.chain(name_node):
            if isinstance(p, (ast.For, ast.AsyncFor)) and p.target is prev:
                return p
            if isinstance(p, ast.stmt):
                return None
            prev = p
        return None

    def inside(self, node, loop):
        return any(p is loop for p in self.chain(node))

    def loop_local(self, loop):
        """names all of whose bindings lie inside this loop: they do not survive into the next iteration"""
        out = set()
        for name, ns in self.stores.items():
            if name in self.params or name in self.other_bound:
                continue
            if all(self.inside(x, loop) for x in ns):
                out.add(name)
        return out

    def local_loads(self):
        return [
            n
            for n in self.nodes
            if isinstance(n, ast.Name) and isinstance(n.ctx, ast.Load) and n.id in self.locals and not self.inner_bound(n)
        ]


# ---------------------------------------------------------------------------
# symbolic interpreter of _walk (rules 1 and 3)


class _Shared:
    def __init__(self, prog, root):
        self.prog = prog
        self.root = root
        self.hooks = set()
        self.facts = []  # (kind, hook, argterms, func, call)
        self.uses = {}  # (qname, kind, name) -> [bound?, first offending node, func]
        self.visited = set()
        self.interps = {}  # qname -> _Walk (first one built; scope facts only)
        self.unknown = []  # (func, node, text)
        self.lambdas = {}
        self.stack = []
        self.kinds_seen = set()
        self.states = 0


def _contains(term, pred):
    if term and pred(term):
        return True
    if isinstance(term, tuple):
        return any(_contains(t, pred) for t in term if isinstance(t, tuple))
    return False


def _stale(term):
    if term == ('kindvar',):
        return ('kindvar-of-an-earlier-iteration',)
    if isinstance(term, tuple):
        return tuple(_stale(t) if isinstance(t, tuple) else t for t in term)
    return term


class _Walk(Flow):
    """state = (kind, env) ; env = frozenset of (local name, provenance term)"""

    def __init__(self, sh, func, depth=0, outer=None, outer_locals=frozenset()):
        super().__init__()
        self.sh = sh
        self.prog = sh.prog
        self.func = func
        self.depth = depth
        self.outer = outer or {}
        self.outer_locals = outer_locals
        self.sc = _Scope(func)
        sh.interps.setdefault(func.qname, self)
        self.kind_loops = set()
        for n in self.sc.nodes:
            if isinstance(n, (ast.For, ast.AsyncFor)) and self._mentions_factories(n.iter):
                self.kind_loops.add(id(n))
            if isinstance(n, ast.Match):
                sh.unknown.append((func, n, 'match statement (pattern bindings are not interpreted)'))
        called = {n.func.id for n in self.sc.nodes if isinstance(n, ast.Call) and isinstance(n.func, ast.Name)}
        self.called_children = {c for c in func.children if c in called}

    def _mentions_factories(self, expr):
        for n in ast.walk(expr):
            if isinstance(n, (ast.Attribute, ast.Name)) and self.prog.resolve_in(n, self.func) == FACTORIES:
                return True
        return False

    # ------------------------------------------------------------- environment
    @staticmethod
    def _bind(st, **kv):
        d = dict(st[1])
        d.update(kv)
        return (st[0], frozenset(d.items()))

    @staticmethod
    def _unbind(st, names):
        return (st[0], frozenset((k, v) for k, v in st[1] if k not in names))

    def _load(self, node, st):
        name = node.id
        if name in self.sc.locals:
            if self.sc.inner_bound(node):
                return
            self.sh.visited.add(id(node))
            bound = any(k == name for k, _ in st[1])
        elif name in self.outer_locals:
            bound = name in self.outer
        else:
            return
        key = (self.func.qname, st[0] if isinstance(st[0], str) else '-', name)
        rec = self.sh.uses.setdefault(key, [True, None, self.func])
        if not bound and rec[0]:
            rec[0] = False
            rec[1] = node

    def _stmt_of(self, node):
        for p in self.sc.chain(node):
            if isinstance(p, ast.stmt):
                return p
        return node

    # -------------------------------------------------------------------- terms
    def term(self, e, env, depth=0):
        if isinstance(e, ast.Constant):
            return ('const', e.value if isinstance(e.value, (str, int, bool, type(None))) else repr(e.value))
        if isinstance(e, ast.Name):
            if e.id in env:
                return env[e.id]
            for p in self.sc.chain(e):
                if isinstance(p, _COMPS):
                    for g in p.generators:
                        if isinstance(g.target, ast.Name) and g.target.id == e.id:
                            return ('elem', self.term(g.iter, env, depth + 1))
            if e.id in self.sc.locals:
                return ('unbound', e.id)
            if e.id in self.outer_locals:
                return self.outer.get(e.id, ('unbound', e.id))
            sym = self.prog.resolve_in(e, self.func) or ('external:' + e.id)
            return self._glob(sym)
        if isinstance(e, ast.Attribute):
            parts = self.prog.dotted(e)
            if parts and parts[0] not in env and parts[0] not in self.sc.locals and parts[0] not in self.outer_locals:
                sym = self.prog.resolve_in(e, self.func)
                if sym:
                    return self._glob(sym)
            return ('attr', self.term(e.value, env, depth + 1), e.attr)
        if isinstance(e, ast.Call):
            f = self.term(e.func, env, depth + 1)
            args = tuple(
                ('star', self.term(a.value, env, depth + 1)) if isinstance(a, ast.Starred) else self.term(a, env, depth + 1)
                for a in e.args
            )
            kws = tuple((k.arg, self.term(k.value, env, depth + 1)) for k in e.keywords)
            if f[0] == 'glob' and f[1].startswith('external:'):
                b = f[1][9:]
                if b == 'getattr' and len(args) == 2 and not kws and args[1][0] == 'const' and isinstance(args[1][1], str):
                    return ('attr', args[0], args[1][1])  # getattr(x, 'm') is x.m
                if b in _SAME_ELEMENTS and len(args) == 1 and not kws:
                    return args[0]
            if f[0] == 'lambda' and depth < 8:
                lam, owner = self.sh.lambdas[f[1]]
                env2 = owner._lambda_env(lam, dict(f[2]), args, kws)
                if env2 is not None:
                    return owner.term(lam.body, env2, depth + 1)
            return ('call', f, args, kws)
        if isinstance(e, ast.Subscript):
            return ('sub', self.term(e.value, env, depth + 1), self.term(e.slice, env, depth + 1))
        if isinstance(e, ast.BinOp) and isinstance(e.op, ast.Add):
            return ('add', self.term(e.left, env, depth + 1), self.term(e.right, env, depth + 1))
        if isinstance(e, (ast.Tuple, ast.List)):
            return ('tuple',) + tuple(self.term(x, env, depth + 1) for x in e.elts)
        if isinstance(e, ast.Lambda):
            self.sh.lambdas[id(e)] = (e, self)
            return ('lambda', id(e), frozenset(env.items()))
        return ('opaque', norm(e)[:60])

    def _glob(self, sym):
        f = self.prog.funcs.get(sym)
        if f is not None and f.module.name == MOD and f.cls is None:
            return ('func', sym)
        return ('glob', sym)

    @staticmethod
    def _lambda_env(lam, env, args, kws):
        a = lam.args
        names = [x.arg for x in a.posonlyargs + a.args]
        if any(t[0] == 'star' for t in args) or len(args) > len(names) or a.vararg or a.kwarg:
            return None
        env = dict(env)
        for n, t in zip(names, args):
            env[n] = t
        for k, t in kws:
            env[k] = t
        for n in names[len(args):]:
            env.setdefault(n, ('opaque', 'default'))
        return env

    # -------------------------------------------------------------------- hooks
    def eval(self, e, states):
        if isinstance(e, ast.Lambda) and states:
            for st in states:
                for n in ast.walk(e):
                    if isinstance(n, ast.Name) and isinstance(n.ctx, ast.Load):
                        self._load(n, st)
            return states
        return super().eval(e, states)

    def on_expr(self, e, st):
        if isinstance(e, ast.Name):
            if isinstance(e.ctx, ast.Load):
                self._load(e, st)
        elif isinstance(e, ast.NamedExpr) and isinstance(e.target, ast.Name):
            st = self._bind(st, **{e.target.id: self.term(e.value, dict(st[1]))})
        return (st,)

    def _kind_of(self, e, env):
        """(positive?, [kinds]) when e compares the kind variable with members of dawgie.Factories"""
        if not (isinstance(e, ast.Compare) and len(e.ops) == 1):
            return None
        op = e.ops[0]
        lt, rt = self.term(e.left, env), self.term(e.comparators[0], env)

        def kv(t):
            return t[0] == 'kindvar'

        def members(t):
            if t[0] == 'glob' and t[1].startswith(FACTORIES + '.'):
                return [t[1][len(FACTORIES) + 1 :]]
            if t[0] == 'tuple' and len(t) > 1:
                out = []
                for x in t[1:]:
                    m = members(x)
                    if m is None or len(m) != 1:
                        return None
                    out += m
                return out
            return None

        def names(t):
            if t[0] == 'const' and isinstance(t[1], str):
                return [t[1]]
            if t[0] == 'tuple' and len(t) > 1 and all(x[0] == 'const' and isinstance(x[1], str) for x in t[1:]):
                return [x[1] for x in t[1:]]
            return None

        def kname(t):
            return t[0] == 'attr' and kv(t[1]) and t[2] == 'name'

        involved = _contains(lt, kv) or _contains(rt, kv)
        if not involved:
            return None
        res = None
        for a, b in ((lt, rt), (rt, lt)):
            if kv(a):
                res = members(b)
            elif kname(a):
                res = names(b)
            if res is not None:
                break
        if res is None:
            return 'unknown'
        if isinstance(op, (ast.Eq, ast.Is)) and len(res) == 1:
            return True, res
        if isinstance(op, (ast.NotEq, ast.IsNot)) and len(res) == 1:
            return False, res
        if isinstance(op, ast.In) and kv(lt) | kname(lt):
            return True, res
        if isinstance(op, ast.NotIn) and kv(lt) | kname(lt):
            return False, res
        return 'unknown'

    def on_test(self, e, st):
        if isinstance(e, ast.Name):
            self._load(e, st)
            return (st,), (st,)
        k = self._kind_of(e, dict(st[1]))
        if k is None:
            return (st,), (st,)
        if k == 'unknown':
            self.sh.unknown.append((self.func, e, f'test on the factory kind not understood: {norm(e)}'))
            return (st,), (st,)
        pos, kinds = k
        self.sh.kinds_seen.update(kinds)
        if isinstance(st[0], str):
            yes, no = ([st], []) if st[0] in kinds else ([], [st])
        else:  # undecided: None or the set of kinds already excluded on this path
            gone = st[0] or frozenset()
            yes = [(x, st[1]) for x in kinds if x not in gone]
            no = [(gone | frozenset(kinds), st[1])]
        return (yes, no) if pos else (no, yes)

    def on_for(self, node, st):
        env = dict(st[1])
        self.sh.states += 1
        if id(node) in self.kind_loops:
            # a value that survives from an earlier iteration was made from that iteration's kind, not this one
            st = self._unbind((None, frozenset((k, _stale(v)) for k, v in st[1])), self.sc.loop_local(node))
            val = ('kindvar',)
        else:
            val = ('elem', self.term(node.iter, env))
        if isinstance(node.target, ast.Name):
            return (self._bind(st, **{node.target.id: val}),)
        kv = {}
        for i, x in enumerate(n for n in ast.walk(node.target) if isinstance(n, ast.Name)):
            kv[x.id] = ('part', val, i)
        return (self._bind(st, **kv),)

    def on_for_done(self, node, st):
        names = {n.id for n in ast.walk(node.target) if isinstance(n, ast.Name)} & self.sc.for_only
        st = self._unbind(st, names)
        if id(node) in self.kind_loops:
            st = (None, st[1])
        return (st,)

    def on_with(self, item, st):
        if item.optional_vars is not None:
            kv = {n.id: ('opaque', 'with') for n in ast.walk(item.optional_vars) if isinstance(n, ast.Name)}
            st = self._bind(st, **kv)
        return (st,)

    def on_handler(self, h, st):
        if h.name:
            st = self._bind(st, **{h.name: ('opaque', 'exception')})
        return (st,)

    def on_stmt(self, s, st):
        env = dict(st[1])
        if isinstance(s, (ast.Assign, ast.AnnAssign)):
            if s.value is None:
                return (st,)
            val = self.term(s.value, env)
            kv = {}
            for t in s.targets if isinstance(s, ast.Assign) else [s.target]:
                if isinstance(t, ast.Name):
                    kv[t.id] = val
                elif isinstance(t, (ast.Tuple, ast.List)):
                    for i, x in enumerate(n for n in ast.walk(t) if isinstance(n, ast.Name)):
                        kv[x.id] = ('part', val, i)
            return (self._bind(st, **kv),)
        if isinstance(s, ast.AugAssign):
            if isinstance(s.target, ast.Name):
                ld = ast.copy_location(ast.Name(id=s.target.id, ctx=ast.Load()), s.target)
                self.sc.parent[id(ld)] = s
                self._load(ld, st)
                return (self._bind(st, **{s.target.id: ('opaque', 'augmented')}),)
            return (st,)
        if isinstance(s, (ast.FunctionDef, ast.AsyncFunctionDef)):
            child = self.func.children.get(s.name)
            st = self._bind(st, **{s.name: ('func', child.qname) if child else ('opaque', 'def')})
            if child is not None and s.name not in self.called_children:
                # never called by name here: analyse it once where it is defined (its parameters are unknown values)
                self._inline(child, None, (), (), st)
            return (st,)
        if isinstance(s, ast.ClassDef):
            return (self._bind(st, **{s.name: ('opaque', 'class')}),)
        if isinstance(s, (ast.Import, ast.ImportFrom)):
            kv = {}
            for a in s.names:
                kv[(a.asname or a.name).split('.')[0]] = ('glob', 'external:' + a.name)
            return (self._bind(st, **kv),)
        if isinstance(s, ast.Delete):
            return (self._unbind(st, {t.id for t in s.targets if isinstance(t, ast.Name)}),)
        return (st,)

    def on_call(self, call, st):
        if isinstance(call.func, ast.Name):
            self._load(call.func, st)
        env = dict(st[1])
        f = self.term(call.func, env)
        args = tuple(
            ('star', self.term(a.value, env)) if isinstance(a, ast.Starred) else self.term(a, env) for a in call.args
        )
        kws = tuple((k.arg, self.term(k.value, env)) for k in call.keywords)
        if f[0] == 'param' and f[1] in self.sh.hooks:
            self.sh.facts.append((st[0], f[1], args, self.func, call))
        elif f[0] == 'lambda':
            lam, owner = self.sh.lambdas[f[1]]
            env2 = owner._lambda_env(lam, dict(f[2]), args, kws)
            if env2 is None or self.depth >= 3:
                self.sh.unknown.append((self.func, call, f'application of a lambda not understood: {norm(call)}'))
            else:
                owner.eval(lam.body, {(st[0], frozenset(env2.items()))})
        elif f[0] == 'func':
            self._inline(self.prog.funcs[f[1]], call, args, kws, st)
        else:
            # a hook handed to code that is not interpreted escapes the analysis
            esc = [t for t in args + tuple(v for _, v in kws) if t[0] == 'param' and t[1] in self.sh.hooks]
            if esc:
                self.sh.unknown.append(
                    (self.func, call, f'hook {esc[0][1]} is passed to {norm(call.func)}, which is not interpreted')
                )
        return (st,)

    def _inline(self, callee, call, args, kws, st):
        sh = self.sh
        if self.depth >= 3 or callee.qname in sh.stack:
            sh.unknown.append((self.func, call or callee.node, f'call of {callee.name} is too deep / recursive to inline'))
            return
        a = callee.node.args
        names = [x.arg for x in a.posonlyargs + a.args]
        env = {}
        if call is None:
            for n in names + [x.arg for x in a.kwonlyargs]:
                env[n] = ('arg', n)
        else:
            if any(t[0] == 'star' for t in args) or len(args) > len(names) and not a.vararg:
                sh.unknown.append((self.func, call, f'argument passing not understood: {norm(call)}'))
                return
            for n, t in zip(names, args):
                env[n] = t
            allowed = set(names) | {x.arg for x in a.kwonlyargs}
            for k, t in kws:
                if k is None or (k not in allowed and not a.kwarg):
                    sh.unknown.append((self.func, call, f'keyword passing not understood: {norm(call)}'))
                    return
                env[k] = t
            defaults = dict(zip(names[len(names) - len(a.defaults) :], a.defaults))
            for x, d in zip(a.kwonlyargs, a.kw_defaults):
                if d is not None:
                    defaults[x.arg] = d
            for n in allowed:
                if n not in env:
                    if n not in defaults:
                        sh.unknown.append((self.func, call, f'missing argument {n} in {norm(call)}'))
                        return
                    env[n] = ('opaque', 'default')
        if a.vararg:
            env[a.vararg.arg] = ('opaque', 'varargs')
        if a.kwarg:
            env[a.kwarg.arg] = ('opaque', 'kwargs')
        nested = callee.parent is self.func
        sub = _Walk(
            sh,
            callee,
            self.depth + 1,
            outer=dict(st[1]) if nested else None,
            outer_locals=frozenset(self.sc.locals) if nested else frozenset(),
        )
        sh.stack.append(callee.qname)
        try:
            sub.run(callee.node, (st[0], frozenset(env.items())))
        finally:
            sh.stack.pop()
        self.visited += sub.visited


def _interpret_walk(ctx):
    prog = ctx.prog
    f = prog.func(MOD + '._walk')
    sh = _Shared(prog, f)
    params = f.params()
    if len(params) < 2:
        raise AnalysisError('_walk no longer takes hook parameters')
    sh.hooks = set(params[1:])
    w = _Walk(sh, f)
    sh.stack.append(f.qname)
    w.run(f.node, (None, frozenset((p, ('param', p)) for p in w.sc.params)))
    sh.walk = w
    return sh


def _factory_kinds(prog):
    c = prog.cls(FACTORIES)
    out = []
    for s in c.node.body:
        if isinstance(s, ast.Assign):
            out += [t.id for t in s.targets if isinstance(t, ast.Name)]
    if len(out) < 4:
        raise AnalysisError(f'dawgie.Factories has {len(out)} members (4 confirmed by reading)')
    return out


def _rule1(ctx, rep, sh):
    f = sh.root
    with rep.rule(
        'R-C16-1',
        'every local name used by _walk (and the helpers it inlines) is bound in the same iteration of the factory-kind '
        'loop that uses it, on every path (definite assignment; names bound only inside the kind loop do not survive an '
        'iteration; a for-target leaves scope when its loop is exhausted)',
        floor=12,
        breaks='a package offering only a regression raises NameError inside every walking rule and a compliant package '
        'is rejected; with another kind present the stale object of that kind is inspected instead and an ill-typed or '
        'unresolvable reference of the regression is accepted',
    ) as r:
        # instances: distinct locals with a use (22 read today: 11 parameters, fargs, mod, e, f, bot, a, ref, sv, i, m, r);
        # the floor is what no refactoring can remove: the 11 parameters and the kind variable
        r.instance(len({(q, name) for (q, _k, name) in sh.uses}))
        r.extra['kinds_dispatched'] = sorted(sh.kinds_seen)
        r.extra['interpreter_steps'] = sh.walk.visited
        r.extra['functions_interpreted'] = sorted(sh.interps)
        for (q, kind, name), (bound, node, fn) in sorted(sh.uses.items(), key=lambda kv: kv[0]):
            key = f'{q}:{kind}:{name}'
            if bound:
                r.ok(key, f'{name} is bound on every path reaching its uses in branch {kind}', where(fn))
            else:
                stmt = sh.interps[q]._stmt_of(node) if q in sh.interps else node
                head = norm(stmt).split(':')[0][:70]
                r.fail(
                    key,
                    where(fn, node),
                    f'{name} is used in `{head}` (factory kind {kind}) but is not bound in this iteration of the kind loop on '
                    f'some path: it is unbound (NameError) when no other kind ran first, otherwise it is the stale object '
                    f'of a different kind',
                )
        for q, it in sorted(sh.interps.items()):
            rep.analysed(it.func)
            for n in it.sc.local_loads():
                if id(n) not in sh.visited:
                    r.fail(
                        f'{q}:unanalysed:{n.id}',
                        where(it.func, n),
                        f'use of {n.id} in `{norm(it._stmt_of(n))[:70]}` was not reached by the interpreter (dead or not understood)',
                    )
        seen = set()
        for fn, node, text in sh.unknown:
            if (fn.qname, norm(node)) in seen:
                continue
            seen.add((fn.qname, norm(node)))
            r.fail(f'{fn.qname}:not-understood:{norm(node)[:60]}', where(fn, node), text)


# kind -> (container hook, routine hook, routine class): the architecture pairs Analysis/Analyzer, Task/Algorithm,
# Regress/Regression; the hook names are the keyword interface of _walk used by every rule_*
_KINDS = {
    'analysis': ('ifanl', 'ifanz', 'dawgie.Analyzer'),
    'task': ('ifbot', 'ifalg', 'dawgie.Algorithm'),
    'regress': ('ifret', 'ifrec', 'dawgie.Regression'),
}
_EVENT_KINDS = {'events': 'ifmom'}
_REF_HOOK, _SV_HOOK, _V_HOOK = 'ifref', 'ifsv', 'ifv'


def _ref_accessors(prog, cls_q):
    """methods of a routine class that return references (annotation mentions *_REF)"""
    c = prog.cls(cls_q)
    out = []
    for name, m in sorted(c.methods.items()):
        ann = m.node.returns
        if ann is None:
            continue
        ids = {n.id for n in ast.walk(ann) if isinstance(n, ast.Name)} | {n.attr for n in ast.walk(ann) if isinstance(n, ast.Attribute)}
        if any(i.endswith('_REF') for i in ids):
            out.append(name)
    if len(out) < 2 or 'feedback' not in out or 'state_vectors' not in c.methods:
        raise AnalysisError(f'{cls_q}: expected feedback() plus one input accessor returning *_REF and state_vectors(), found {out}')
    return out


def _covers(it, want):
    """iterating `it` visits every element of `want`"""
    if it == want:
        return True
    if it[0] == 'add':
        return _covers(it[1], want) or _covers(it[2], want)
    if it[0] == 'call' and it[1] == ('glob', 'external:itertools.chain'):
        return any(_covers(a, want) for a in it[2])
    return False


def _mcall(base, meth):
    return ('call', ('attr', base, meth), (), ())


def _rule3(ctx, rep, sh):
    prog = ctx.prog
    f = sh.root
    with rep.rule(
        'R-C16-3',
        'for each factory kind _walk applies the container hook to the product of that kind\'s factory, the routine hook '
        'to each of its routines(), the reference hook to each routine\'s feedback() and input references, the '
        'state-vector hook to each state_vectors() and the value hook to each items() (provenance of every hook argument)',
        floor=4,
        breaks='rules 02-05, 07-09 and 11 look only at what _walk hands them: an element that is never visited is never '
        'checked, so a package breaking a rule there is accepted',
    ) as r:
        hooks_needed = {_REF_HOOK, _SV_HOOK, _V_HOOK} | set(_EVENT_KINDS.values())
        for c, rt, _ in _KINDS.values():
            hooks_needed |= {c, rt}
        missing = sorted(hooks_needed - sh.hooks)
        if missing:
            raise AnalysisError(f'_walk no longer has the hook parameter(s) {missing}')
        r.extra['hook_calls_seen'] = len(sh.facts)

        def facts(kind, hook):
            return [(a, fn, call) for k, h, a, fn, call in sh.facts if k == kind and h == hook and len(a) == 1]

        def product_of(kind, t):
            return _contains(t, lambda x: x == ('kindvar',) or x == ('const', kind)) and not _contains(
                t, lambda x: x[0] == 'unbound'
            )

        for kind in _factory_kinds(prog):
            r.instance()
            base = f'{f.qname}:{kind}'
            if kind in _EVENT_KINDS:
                hook = _EVENT_KINDS[kind]
                got = [a for a, _, _ in facts(kind, hook) if a[0][0] == 'elem' and product_of(kind, a[0][1])]
                r.check(bool(got), f'{base}:{hook}(moment)', where(f), f'{hook} applied to every element of the factory product',
                        f'branch {kind}: {hook} is not applied to each element of this kind\'s factory product')
                continue
            if kind not in _KINDS:
                r.fail(f'{base}:unknown-kind', where(f), f'dawgie.Factories.{kind} has no coverage expectation in the checker')
                continue
            chook, rhook, rcls = _KINDS[kind]
            bots = [a[0] for a, _, _ in facts(kind, chook) if product_of(kind, a[0])]
            if not r.check(bool(bots), f'{base}:{chook}(product)', where(f), f'{chook} applied to the product of the {kind} factory',
                           f'branch {kind}: {chook} is not applied to the object returned by this kind\'s factory in this iteration'):
                continue
            bot = bots[0]
            want = _mcall(bot, 'routines')
            rts = [a[0] for a, _, _ in facts(kind, rhook) if a[0][0] == 'elem' and _covers(a[0][1], want)]
            if not r.check(bool(rts), f'{base}:{rhook}(routine)', where(f), f'{rhook} applied to each element of product.routines()',
                           f'branch {kind}: {rhook} is not applied to each element of routines() of this kind\'s product'):
                continue
            rt = rts[0]
            refs = facts(kind, _REF_HOOK)
            for acc in _ref_accessors(prog, rcls):
                want = _mcall(rt, acc)
                got = [a for a, _, _ in refs if a[0][0] == 'elem' and _covers(a[0][1], want)]
                seen = sorted({norm(c.args[0]) + ' in ' + _iter_text(sh, fn, c) for _, fn, c in refs})
                r.check(bool(got), f'{base}:{_REF_HOOK}({acc})', where(f), f'{_REF_HOOK} applied to each element of routine.{acc}()',
                        f'branch {kind}: {_REF_HOOK} is never applied to the elements of {acc}() of this branch\'s own routine '
                        f'(reference hook calls seen in this branch: {seen})')
            want = _mcall(rt, 'state_vectors')
            svs = [a[0] for a, _, _ in facts(kind, _SV_HOOK) if a[0][0] == 'elem' and _covers(a[0][1], want)]
            if not r.check(bool(svs), f'{base}:{_SV_HOOK}(state_vectors)', where(f), f'{_SV_HOOK} applied to each of routine.state_vectors()',
                           f'branch {kind}: {_SV_HOOK} is not applied to each element of state_vectors() of this branch\'s own routine'):
                continue
            want = _mcall(svs[0], 'items')
            got = [a for a, _, _ in facts(kind, _V_HOOK) if a[0][0] == 'elem' and _covers(a[0][1], want)]
            r.check(bool(got), f'{base}:{_V_HOOK}(items)', where(f), f'{_V_HOOK} applied to each of state_vector.items()',
                    f'branch {kind}: {_V_HOOK} is not applied to each element of items() of each state vector of this branch')
        # every rule_* hands _walk only hooks that exist (a TypeError would fail the rule for every package)
        for name, g in sorted(prog.module(MOD).funcs.items()):
            if not name.startswith('rule_'):
                continue
            for c in g.calls():
                if prog.callee(c, g) == f.qname:
                    bad = sorted(k.arg for k in c.keywords if k.arg is not None and k.arg not in sh.hooks)
                    r.check(not bad and len(c.args) <= len(f.params()), f'{g.qname}:_walk-keywords', where(g, c), 'keywords are hook parameters of _walk',
                            f'{name} calls _walk with unknown keyword(s) {bad}: TypeError, the rule fails for every package', nontrivial=False)


def _iter_text(sh, fn, call):
    it = sh.interps.get(fn.qname)
    if it is None:
        return '?'
    for p in it.sc.chain(call):
        if isinstance(p, (ast.For, ast.AsyncFor)):
            return norm(p.iter)
    return '?'



# ---------------------------------------------------------------------------
# R-C16-2 (a): which names does _get_rules enumerate?


class _NotUnderstood(Exception):
    pass


_STR_METHODS = {'startswith', 'endswith', 'find', 'rfind', 'count', 'lower', 'upper', 'strip', 'lstrip', 'rstrip', 'isdigit', 'isidentifier', 'replace'}


_NODES = ('nodes',)  # env key: {id(node): value} - sub-expressions whose value is given rather than computed


def _cev(e, env):
    """concrete value of a predicate over one attribute name (strings / ints / bools only)"""
    given = env.get(_NODES)
    if given and id(e) in given:
        return given[id(e)]
    if isinstance(e, ast.Constant):
        return e.value
    if isinstance(e, ast.IfExp):
        return _cev(e.body, env) if _cev(e.test, env) else _cev(e.orelse, env)
    if isinstance(e, ast.Name):
        if e.id in env:
            return env[e.id]
        raise _NotUnderstood(norm(e))
    if isinstance(e, ast.UnaryOp) and isinstance(e.op, ast.Not):
        return not _cev(e.operand, env)
    if isinstance(e, ast.UnaryOp) and isinstance(e.op, ast.USub):
        return -_cev(e.operand, env)
    if isinstance(e, ast.BoolOp):
        v = None
        for x in e.values:
            v = _cev(x, env)
            if isinstance(e.op, ast.And) and not v:
                return v
            if isinstance(e.op, ast.Or) and v:
                return v
        return v
    if isinstance(e, ast.Compare):
        left = _cev(e.left, env)
        for op, c in zip(e.ops, e.comparators):
            right = _cev(c, env)
            ok = {
                ast.Eq: lambda a, b: a == b, ast.NotEq: lambda a, b: a != b, ast.Lt: lambda a, b: a < b,
                ast.LtE: lambda a, b: a <= b, ast.Gt: lambda a, b: a > b, ast.GtE: lambda a, b: a >= b,
                ast.In: lambda a, b: a in b, ast.NotIn: lambda a, b: a not in b,
            }.get(type(op))
            if ok is None:
                raise _NotUnderstood(norm(e))
            if not ok(left, right):
                return False
            left = right
        return True
    if isinstance(e, (ast.Tuple, ast.List)):
        return tuple(_cev(x, env) for x in e.elts)
    if isinstance(e, ast.Subscript):
        base = _cev(e.value, env)
        if isinstance(e.slice, ast.Slice):
            lo = _cev(e.slice.lower, env) if e.slice.lower else None
            hi = _cev(e.slice.upper, env) if e.slice.upper else None
            st = _cev(e.slice.step, env) if e.slice.step else None
            return base[lo:hi:st]
        return base[_cev(e.slice, env)]
    if isinstance(e, ast.Call) and not e.keywords:
        args = [_cev(a, env) for a in e.args]
        if isinstance(e.func, ast.Attribute):
            d = ast.unparse(e.func.value)
            if d == 're' and e.func.attr in ('match', 'fullmatch', 'search') and len(args) == 2 and all(isinstance(a, str) for a in args):
                return getattr(re, e.func.attr)(args[0], args[1]) is not None
            recv = _cev(e.func.value, env)
            if isinstance(recv, str) and e.func.attr in _STR_METHODS:
                return getattr(recv, e.func.attr)(*args)
        elif isinstance(e.func, ast.Name) and e.func.id in ('len', 'bool', 'str') and len(args) == 1:
            return {'len': len, 'bool': bool, 'str': str}[e.func.id](args[0])
    raise _NotUnderstood(norm(e))


def _module_attrs(m):
    return sorted(set(m.funcs) | set(m.classes) | set(m.globals) | set(m.imports) | {'__name__', '__doc__', '__file__'})


def _seq(prog, f, e, depth=0):
    """the list of names an expression of _get_rules produces"""
    m = f.module
    if depth > 10:
        raise _NotUnderstood(norm(e))
    if isinstance(e, (ast.List, ast.Tuple)) and all(isinstance(x, ast.Constant) and isinstance(x.value, str) for x in e.elts):
        return [x.value for x in e.elts]
    if isinstance(e, ast.Name):
        vals = [
            n.value for n in f.own_nodes()
            if isinstance(n, ast.Assign) and any(isinstance(t, ast.Name) and t.id == e.id for t in n.targets)
        ]
        if len(vals) == 1:
            return _seq(prog, f, vals[0], depth + 1)
        raise _NotUnderstood(norm(e))
    if isinstance(e, _COMPS) and not isinstance(e, ast.DictComp) and len(e.generators) == 1:
        g = e.generators[0]
        if not isinstance(g.target, ast.Name):
            raise _NotUnderstood(norm(e))
        out = []
        for x in _seq(prog, f, g.iter, depth + 1):
            env = {g.target.id: x}
            if all(_cev(c, env) for c in g.ifs):
                out.append(_cev(e.elt, env))
        return out
    if isinstance(e, ast.Call) and isinstance(e.func, ast.Name) and not e.keywords:
        fn = e.func.id
        if fn in ('dir', 'vars') and len(e.args) == 1 and prog.resolve_in(e.args[0], f) == m.name:
            return _module_attrs(m)
        if fn == 'globals' and not e.args:
            return _module_attrs(m)
        if fn in ('list', 'tuple', 'iter', 'set', 'frozenset') and len(e.args) == 1:
            return _seq(prog, f, e.args[0], depth + 1)
        if fn == 'sorted' and len(e.args) == 1:
            return sorted(_seq(prog, f, e.args[0], depth + 1))
        if fn == 'reversed' and len(e.args) == 1:
            return list(reversed(_seq(prog, f, e.args[0], depth + 1)))
        if fn == 'filter' and len(e.args) == 2:
            p = e.args[0]
            if isinstance(p, ast.Name) and p.id in f.children:
                body = f.children[p.id].node.body
                body = [s for s in body if not (isinstance(s, ast.Expr) and isinstance(s.value, ast.Constant))]
                if len(body) == 1 and isinstance(body[0], ast.Return) and len(f.children[p.id].params()) == 1:
                    par, pe = f.children[p.id].params()[0], body[0].value
                else:
                    raise _NotUnderstood(norm(e))
            elif isinstance(p, ast.Lambda) and len(p.args.args) == 1:
                par, pe = p.args.args[0].arg, p.body
            else:
                raise _NotUnderstood(norm(e))
            return [x for x in _seq(prog, f, e.args[1], depth + 1) if _cev(pe, {par: x})]
    raise _NotUnderstood(norm(e))


def _loop_body(stmts, env, out):
    """one iteration of a generator loop of _get_rules, executed for one concrete name: every test is evaluated and the
    arm it selects is followed (so `if c: yield k`, `if not c: continue` ... and their negated / swapped spellings are the
    same thing); -> 'continue' | 'break' | None (fell through)"""
    for b in stmts:
        if isinstance(b, ast.Pass) or (isinstance(b, ast.Expr) and isinstance(b.value, ast.Constant)):
            continue
        if isinstance(b, ast.Continue):
            return 'continue'
        if isinstance(b, ast.Break):
            return 'break'
        if isinstance(b, ast.If):
            how = _loop_body(b.body if _cev(b.test, env) else b.orelse, env, out)
            if how:
                return how
            continue
        if isinstance(b, ast.Expr) and isinstance(b.value, ast.Yield) and b.value.value is not None:
            out.append(_cev(b.value.value, env))
            continue
        raise _NotUnderstood(norm(b)[:80])
    return None


def _enumerated_rules(prog, f):
    """names yielded / returned by _get_rules, evaluated over the static attribute list of its module"""
    out = []
    found = False
    for s in f.node.body:
        if isinstance(s, ast.Expr) and isinstance(s.value, ast.Constant):
            continue
        if isinstance(s, ast.Pass) or (isinstance(s, ast.Return) and s.value is None):
            continue
        if isinstance(s, ast.Assign) and all(isinstance(t, ast.Name) for t in s.targets):
            continue  # evaluated on demand through _seq(Name)
        if isinstance(s, ast.Expr) and isinstance(s.value, ast.YieldFrom):
            out += _seq(prog, f, s.value.value)
            found = True
            continue
        if isinstance(s, ast.Return):
            out += _seq(prog, f, s.value)
            found = True
            continue
        if isinstance(s, ast.For) and isinstance(s.target, ast.Name) and not s.orelse:
            for x in _seq(prog, f, s.iter):
                if _loop_body(s.body, {s.target.id: x}, out) == 'break':
                    break
            found = True
            continue
        raise _NotUnderstood(norm(s)[:80])
    if not found:
        raise _NotUnderstood('no yield / return of a sequence')
    return out


# ---------------------------------------------------------------------------
# R-C16-2 (b): the verdict of _verify is the conjunction over every (task, rule)

_T, _F, _U = 'T', 'F', 'U'


def _truth(v):
    if v in (_T, _F):
        return v
    if isinstance(v, tuple) and v[0] == 'L':
        return _T if (v[1] or v[2]) else _F
    return _U


class _Verdict(Flow):
    """state = (taskfails, hit, cur, saw, env)

    Oracle: at the head of each task iteration the task either complies (0) or breaks some rule (1, saw := 1);
    in a failing task each rule iteration either passes or fails (returns a falsy value or raises), and the
    rule loop cannot be exhausted without a failing iteration.  env maps locals to T / F / ('L', hasTruthy, hasFalsy).
    """

    def __init__(self, prog, func, task_loop, rule_loop, rule_call):
        super().__init__()
        self.prog, self.func = prog, func
        self.task_loop, self.rule_loop, self.rule_call = task_loop, rule_loop, rule_call
        self.returns = []  # (node|None, state, value)
        self.early = []  # (node, state)
        self.inside = {id(n) for n in ast.walk(task_loop)}
        inner = [n for n in ast.walk(task_loop) if isinstance(n, (ast.For, ast.While, ast.AsyncFor)) and n is not task_loop]
        self.inner_ids = {id(x) for n in inner for x in ast.walk(n) if x is not n}

    @staticmethod
    def _with(st, **kv):
        tf, hit, cur, saw, env = st
        d = dict(env)
        for k, v in kv.items():
            if k == 'tf':
                tf = v
            elif k == 'hit':
                hit = v
            elif k == 'cur':
                cur = v
            elif k == 'saw':
                saw = v
        return (tf, hit, cur, saw, frozenset(d.items()))

    @staticmethod
    def _setvar(st, name, val):
        d = dict(st[4])
        if val == _U or val is None:
            d.pop(name, None)
        else:
            d[name] = val
        return st[:4] + (frozenset(d.items()),)

    def aval(self, e, st):
        env = dict(st[4])
        if isinstance(e, ast.Constant):
            return _T if e.value else _F
        if isinstance(e, ast.Name):
            return env.get(e.id, _U)
        if isinstance(e, (ast.List, ast.Tuple)):
            t = f = 0
            for x in e.elts:
                v = _truth(self.aval(x, st))
                if v == _U:
                    return _U
                t |= v == _T
                f |= v == _F
            return ('L', int(t), int(f))
        if isinstance(e, ast.Call):
            if e is self.rule_call:
                return {'pass': _T, 'fail': _F}.get(st[2], _U)
            if isinstance(e.func, ast.Name) and len(e.args) == 1 and not e.keywords:
                a = self.aval(e.args[0], st)
                if e.func.id in ('all', 'any') and isinstance(a, tuple):
                    if e.func.id == 'all':
                        return _F if a[2] else _T
                    return _T if a[1] else _F
                if e.func.id == 'bool':
                    return _truth(a)
            if isinstance(e.func, ast.Name) and e.func.id == 'list' and not e.args and not e.keywords:
                return ('L', 0, 0)
            return _U
        if isinstance(e, ast.UnaryOp) and isinstance(e.op, ast.Not):
            v = _truth(self.aval(e.operand, st))
            return {_T: _F, _F: _T}.get(v, _U)
        if isinstance(e, ast.BoolOp):
            vs = [_truth(self.aval(x, st)) for x in e.values]
            if isinstance(e.op, ast.And):
                return _F if _F in vs else (_T if all(v == _T for v in vs) else _U)
            return _T if _T in vs else (_F if all(v == _F for v in vs) else _U)
        if isinstance(e, ast.IfExp):
            t = _truth(self.aval(e.test, st))
            a, b = self.aval(e.body, st), self.aval(e.orelse, st)
            if t == _T:
                return a
            if t == _F:
                return b
            return a if a == b else _U
        return _U

    def may_raise(self, call, st):
        return call is self.rule_call and st[2] == 'fail'

    def on_for(self, node, st):
        if node is self.task_loop:
            return (self._with(st, tf=0, hit=0, cur=None), self._with(st, tf=1, hit=0, cur=None, saw=1))
        if node is self.rule_loop:
            if st[0] == 1:
                return (self._with(st, cur='pass'), self._with(st, cur='fail', hit=1))
            return (self._with(st, cur='pass'),)
        return (st,)

    def on_for_done(self, node, st):
        if node is self.rule_loop:
            if st[0] == 1 and st[1] == 0:
                return ()  # a failing task has a failing rule among the enumerated ones
            return (self._with(st, cur=None),)
        if node is self.task_loop:
            return (self._with(st, tf=0, hit=0, cur=None),)
        return (st,)

    def on_stmt(self, s, st):
        if isinstance(s, (ast.Assign, ast.AnnAssign)) and s.value is not None:
            v = self.aval(s.value, st)
            for t in s.targets if isinstance(s, ast.Assign) else [s.target]:
                if isinstance(t, ast.Name):
                    st = self._setvar(st, t.id, v)
                else:
                    for n in ast.walk(t):
                        if isinstance(n, ast.Name) and isinstance(n.ctx, ast.Store):
                            st = self._setvar(st, n.id, _U)
        elif isinstance(s, ast.AugAssign) and isinstance(s.target, ast.Name):
            cur = dict(st[4]).get(s.target.id, _U)
            v = _U
            if isinstance(s.op, (ast.BitAnd, ast.BitOr)) and cur in (_T, _F):
                o = self.aval(s.value, st)
                if o in (_T, _F):
                    if isinstance(s.op, ast.BitAnd):
                        v = _T if cur == _T and o == _T else _F
                    else:
                        v = _T if _T in (cur, o) else _F
                elif isinstance(s.op, ast.BitAnd) and cur == _F:
                    v = _F
            st = self._setvar(st, s.target.id, v)
        return (st,)

    def on_call(self, call, st):
        fn = call.func
        if isinstance(fn, ast.Attribute) and isinstance(fn.value, ast.Name):
            cur = dict(st[4]).get(fn.value.id)
            if isinstance(cur, tuple):
                if fn.attr == 'append' and len(call.args) == 1 and not call.keywords:
                    v = _truth(self.aval(call.args[0], st))
                    outs = []
                    if v in (_T, _U):
                        outs.append(self._setvar(st, fn.value.id, ('L', 1, cur[2])))
                    if v in (_F, _U):
                        outs.append(self._setvar(st, fn.value.id, ('L', cur[1], 1)))
                    return outs
                if fn.attr not in ('copy', 'count', 'index'):
                    return (self._setvar(st, fn.value.id, _U),)  # a mutation that is not modelled
        return (st,)

    def on_test(self, e, st):
        v = _truth(self.aval(e, st))
        if v == _T:
            return (st,), ()
        if v == _F:
            return (), (st,)
        if isinstance(e, ast.Name):
            return (self._setvar(st, e.id, _T),), (self._setvar(st, e.id, _F),)
        return (st,), (st,)

    def on_return(self, node, st):
        v = _truth(self.aval(node.value, st)) if node.value is not None else _F
        self.returns.append((node, st, v))
        if id(node) in self.inside and st[3] == 0:
            self.early.append((node, st))
        return (st,)

    def _s_Break(self, s, states):
        if id(s) in self.inside and id(s) not in self.inner_ids:
            for st in states:
                if st[3] == 0:
                    self.early.append((s, st))
        return super()._s_Break(s, states)


def _unwrap_same(e):
    while (
        isinstance(e, ast.Call) and isinstance(e.func, ast.Name) and e.func.id in _SAME_ELEMENTS | {'set'} and len(e.args) == 1
    ):
        e = e.args[0]
    return e


def _verify_shape(prog, f):
    """(task loop, rule loop, rule call) of _verify or a text saying what is not understood"""
    params = f.params()
    if not params:
        return 'no task-list parameter'
    fors = [n for n in f.own_nodes() if isinstance(n, ast.For)]
    tl = [n for n in fors if isinstance(_unwrap_same(n.iter), ast.Name) and _unwrap_same(n.iter).id == params[0]]
    rl = [
        n for n in fors
        if isinstance(_unwrap_same(n.iter), ast.Call) and prog.resolve_in(_unwrap_same(n.iter).func, f) == MOD + '._get_rules'
    ]
    if len(tl) != 1 or len(rl) != 1:
        return f'expected one loop over the task list and one over _get_rules(), found {len(tl)} and {len(rl)}'
    tl, rl = tl[0], rl[0]
    if not any(n is rl for n in ast.walk(tl)) or not isinstance(rl.target, ast.Name) or not isinstance(tl.target, ast.Name):
        return 'the loop over _get_rules() is not nested in the loop over the task list'
    if any(isinstance(n, ast.Name) and n.id == params[0] and isinstance(n.ctx, ast.Store) for n in f.own_nodes()):
        return 'the task-list parameter is rebound'
    calls = []
    for c in ast.walk(rl):
        if isinstance(c, ast.Call) and isinstance(c.func, ast.Call):
            g = c.func
            if (
                isinstance(g.func, ast.Name) and g.func.id == 'getattr' and len(g.args) == 2
                and prog.resolve_in(g.args[0], f) == MOD and isinstance(g.args[1], ast.Name) and g.args[1].id == rl.target.id
            ):
                calls.append(c)
    if len(calls) != 1:
        return f'expected one call getattr(<this module>, <rule name>)(task) in the rule loop, found {len(calls)}'
    c = calls[0]
    if not (len(c.args) == 1 and not c.keywords and isinstance(c.args[0], ast.Name) and c.args[0].id == tl.target.id):
        return f'the rule is not applied to the task of the current iteration: {norm(c)}'
    return tl, rl, c


# ---------------------------------------------------------------------------
# R-C16-2 (c)-(f): the verdict on its way to the operational branch


class _Carry(Flow):
    """follows one boolean-like value V (result of a call to `source`) through a block.

    state = (vt, env): vt in {None, 'T', 'F'} is the truthiness of V assumed on this path (refined by tests on V),
    env maps names to 'V' (holds V) or ('sym', resolved symbol) / ('const', value).
    """

    def __init__(self, prog, module, func, source):
        super().__init__()
        self.prog, self.module, self.func, self.source = prog, module, func, source
        self.returns = []  # (node, state)
        self.exits = []  # (node, state, code expr or None)
        self.calls = 0

    def res(self, e):
        if not isinstance(e, (ast.Name, ast.Attribute)):
            return None
        return self.prog.resolve_expr(e, self.module, self.func)

    def is_source(self, e):
        return isinstance(e, ast.Call) and self.res(e.func) == self.source

    def holds(self, e, st):
        """expression whose truthiness is that of V"""
        if self.is_source(e):
            return True
        if isinstance(e, ast.Name):
            return dict(st[1]).get(e.id) == 'V'
        if isinstance(e, ast.Call) and isinstance(e.func, ast.Name) and e.func.id == 'bool' and len(e.args) == 1 and not e.keywords:
            return self.holds(e.args[0], st)
        return False

    def on_call(self, call, st):
        if self.is_source(call):
            self.calls += 1
            d = dict(st[1])
            d['<called>'] = ('const', True)
            return ((None, frozenset(d.items())),)  # a fresh verdict: earlier assumptions do not apply to it
        r = self.res(call.func)
        if r in ('external:sys.exit', 'external:exit', 'external:quit', 'external:os._exit'):
            self.exits.append((call, st, call.args[0] if call.args else None))
            return ()
        return (st,)

    def on_raise(self, node, st):
        e = node.exc
        if isinstance(e, ast.Call) and self.res(e.func) == 'external:SystemExit':
            self.exits.append((node, st, e.args[0] if e.args else None))
        elif isinstance(e, ast.Name) and e.id == 'SystemExit':
            self.exits.append((node, st, None))
        return (st,)

    def on_stmt(self, s, st):
        if isinstance(s, (ast.Assign, ast.AnnAssign)) and s.value is not None:
            d = dict(st[1])
            if self.holds(s.value, st):
                v = 'V'
            elif isinstance(s.value, ast.Constant):
                v = ('const', s.value.value)
            elif self.res(s.value):
                v = ('sym', self.res(s.value))
            else:
                v = None
            for t in s.targets if isinstance(s, ast.Assign) else [s.target]:
                for n in ast.walk(t):
                    if isinstance(n, ast.Name) and isinstance(n.ctx, ast.Store):
                        if v is None or not isinstance(t, ast.Name):
                            d.pop(n.id, None)
                        else:
                            d[n.id] = v
            st = (st[0], frozenset(d.items()))
        elif isinstance(s, ast.AugAssign) and isinstance(s.target, ast.Name):
            d = dict(st[1])
            d.pop(s.target.id, None)
            st = (st[0], frozenset(d.items()))
        return (st,)

    def on_test(self, e, st):
        if self.holds(e, st):
            if st[0] is None:
                return (('T', st[1]),), (('F', st[1]),)
            return ((st,), ()) if st[0] == 'T' else ((), (st,))
        return (st,), (st,)

    def on_return(self, node, st):
        self.returns.append((node, st))
        return (st,)

    def value(self, e, st):
        """'V' | ('sym', s) | ('const', c) | None, with conditional expressions decided by the assumed truthiness"""
        if e is None:
            return ('const', None)
        if self.holds(e, st):
            return 'V'
        if isinstance(e, ast.Constant):
            return ('const', e.value)
        if isinstance(e, ast.Name) and e.id in dict(st[1]):
            return dict(st[1])[e.id]
        if isinstance(e, ast.IfExp):
            t = self.truth(e.test, st)
            if t is not None:
                return self.value(e.body if t else e.orelse, st)
            return None
        r = self.res(e)
        return ('sym', r) if r else None

    def truth(self, e, st):
        """truthiness of e under the assumption of this path, or None"""
        if self.holds(e, st):
            return None if st[0] is None else st[0] == 'T'
        if isinstance(e, ast.UnaryOp) and isinstance(e.op, ast.Not):
            t = self.truth(e.operand, st)
            return None if t is None else not t
        if isinstance(e, ast.Constant):
            return bool(e.value)
        return None

    def exit_class(self, e, st):
        """'zero' | 'nonzero' | None (unknown) for sys.exit(e)"""
        if e is None:
            return 'zero'
        if isinstance(e, ast.UnaryOp) and isinstance(e.op, ast.USub) and isinstance(e.operand, ast.Constant):
            e = ast.Constant(value=-e.operand.value)
        if isinstance(e, ast.Constant):
            v = e.value
            if v is None or v is False:
                return 'zero'
            if v is True:
                return 'nonzero'
            if isinstance(v, int):
                return 'zero' if v % 256 == 0 else 'nonzero'
            return 'nonzero'
        if isinstance(e, ast.IfExp):
            t = self.truth(e.test, st)
            return None if t is None else self.exit_class(e.body if t else e.orelse, st)
        if isinstance(e, ast.Call) and isinstance(e.func, ast.Name) and e.func.id in ('int', 'bool') and len(e.args) == 1:
            return self.exit_class(e.args[0], st)
        t = self.truth(e, st)  # V itself or not V: exit(True) is status 1, exit(False) is status 0
        if t is None:
            return None
        return 'nonzero' if t else 'zero'


def _split(st):
    """an unrefined path stands for both truth values of the verdict"""
    return [st] if st[0] is not None else [('T', st[1]), ('F', st[1])]


_READ_ONLY_GIT = {'checkout', 'switch', 'status', 'log', 'show', 'diff', 'rev-parse', 'fetch'}


def _git_words(cmd):
    """leading literal words of a command string expression"""
    if isinstance(cmd, ast.Constant) and isinstance(cmd.value, str):
        return cmd.value.split(), True
    if isinstance(cmd, ast.JoinedStr):
        text, whole = '', True
        for p in cmd.values:
            if isinstance(p, ast.Constant) and isinstance(p.value, str):
                text += p.value
            else:
                text += ' \0 '
        return [w for w in text.split()], whole
    return None, False


class _Auto(Flow):
    """tools.submit.automatic: state = (gate, env); gate in unchecked / passed / failed; env: name -> 'G'"""

    def __init__(self, prog, func, ops_names, two_valued):
        super().__init__()
        self.prog, self.func, self.ops, self.two = prog, func, ops_names, two_valued
        self.touch = {}  # id(call) -> [call, set(gates), why]
        self.gate_calls = 0

    def is_gate(self, e):
        return isinstance(e, ast.Call) and self.prog.resolve_in(e.func, self.func) == SUB + '.auto_merge_compliant'

    def on_stmt(self, s, st):
        if isinstance(s, (ast.Assign, ast.AnnAssign)) and s.value is not None:
            d = dict(st[1])
            for t in s.targets if isinstance(s, ast.Assign) else [s.target]:
                for n in ast.walk(t):
                    if isinstance(n, ast.Name) and isinstance(n.ctx, ast.Store):
                        if isinstance(t, ast.Name) and self.is_gate(s.value):
                            d[n.id] = 'G'
                        else:
                            d.pop(n.id, None)
            st = (st[0], frozenset(d.items()))
        return (st,)

    def _is_g(self, e, st):
        return self.is_gate(e) or (isinstance(e, ast.Name) and dict(st[1]).get(e.id) == 'G')

    def on_test(self, e, st):
        if isinstance(e, ast.Compare) and len(e.ops) == 1 and isinstance(e.ops[0], (ast.Eq, ast.NotEq, ast.Is, ast.IsNot)):
            a, b = e.left, e.comparators[0]
            if self._is_g(b, st):
                a, b = b, a
            if self._is_g(a, st):
                sym = self.prog.resolve_in(b, self.func) if isinstance(b, (ast.Name, ast.Attribute)) else None
                pos = isinstance(e.ops[0], (ast.Eq, ast.Is))
                if sym == SUB + '.State.FAILED':
                    yes, no = 'failed', ('passed' if self.two else 'unchecked')
                elif sym == SUB + '.State.SUCCESS':
                    yes, no = 'passed', ('failed' if self.two else 'unchecked')
                else:
                    return (st,), (st,)
                if st[0] in ('passed', 'failed'):  # already decided on this path
                    t = ((st,), ()) if st[0] == yes else ((), (st,))
                else:
                    t = (((yes, st[1]),), ((no, st[1]),))
                return t if pos else (t[1], t[0])
        return (st,), (st,)

    def on_call(self, call, st):
        if self.is_gate(call):
            self.gate_calls += 1
            return (('unchecked', st[1]),)
        names = {n.id for a in list(call.args) + [k.value for k in call.keywords] for n in ast.walk(a) if isinstance(n, ast.Name)}
        if not (names & self.ops):
            return (st,)
        sym = self.prog.resolve_in(call.func, self.func) or ''
        last = call.func.attr if isinstance(call.func, ast.Attribute) else None
        why = None
        if sym == SUB + '.mail_out' or sym.startswith('external:logging.'):
            return (st,)  # accepted: only reports the branch name, runs no command
        if sym == SUB + '.git_execute' or last == 'execute':
            cmd = call.args[-1] if call.args else None
            if isinstance(cmd, ast.Call) and isinstance(cmd.func, ast.Attribute) and cmd.func.attr == 'split':
                cmd = cmd.func.value
            words, _ = _git_words(cmd)
            if words and len(words) > 1 and words[0] == 'git' and words[1] in _READ_ONLY_GIT and not any(w.startswith('-') for w in words[2:]):
                return (st,)  # accepted: checking a branch out (no option) does not move it
            why = 'git ' + (words[1] if words and len(words) > 1 else '?')
        else:
            why = f'call of {norm(call.func)} with the operational branch'
        self.touch.setdefault(id(call), [call, set(), why])[1].add(st[0])
        return (st,)


def _enum_members(prog, q):
    c = prog.cls(q)
    return [t.id for s in c.node.body if isinstance(s, ast.Assign) for t in s.targets if isinstance(t, ast.Name)]


def _as_main(e):
    """truth of a test when the module runs as the script (__name__ == '__main__'); None when it does not depend on that

    Decided by evaluating the test (any orientation, ==, !=, in, not in, negations ...) with the value of __name__."""
    if not any(isinstance(n, ast.Name) and n.id == '__name__' for n in ast.walk(e)):
        return None
    try:
        return bool(_cev(e, {'__name__': '__main__'}))
    except (_NotUnderstood, TypeError, ValueError, IndexError, KeyError):
        return None


class _Entry(_Carry):
    """the module body as `python -m <module>` executes it: a test on __name__ takes the arm of __name__ == '__main__',
    whichever arm that is and however the comparison is written"""

    def __init__(self, prog, module, source):
        super().__init__(prog, module, None, source)
        self.decided = []  # tests decided by __name__, with the outcome

    def on_test(self, e, st):
        v = _as_main(e)
        if v is None:
            return super().on_test(e, st)
        self.decided.append((e, v))
        return ((st,), ()) if v else ((), (st,))


def _called(st):
    return '<called>' in dict(st[1])


def _rule2(ctx, rep):
    prog = ctx.prog
    m = prog.module(MOD)
    sm = prog.module(SUB)
    with rep.rule(
        'R-C16-2',
        'every rule_* function is enumerated and applied to every task; a rule that returns a falsy value or raises makes '
        '_verify return False and only then; main returns that verdict; the process exit status is non-zero iff it is False; '
        'verify returns what the spawned check returns; auto_merge_compliant returns FAILED iff it is falsy; automatic runs '
        'no command on the operational branch (other than checking it out) unless the gate passed',
        floor=18,
        breaks='a package that breaks one rule (or makes a rule crash) is reported compliant and its changeset is rebased onto '
        'the operational branch; or a compliant package is refused',
    ) as r:
        # ---- (a) enumeration of the rules
        gr = prog.func(MOD + '._get_rules')
        rep.analysed(gr)
        rules = sorted(n for n in m.funcs if n.startswith('rule_'))
        names = None
        try:
            names = _enumerated_rules(prog, gr)
        except _NotUnderstood as e:
            r.fail(f'{gr.qname}:enumeration', where(gr), f'the way _get_rules enumerates the rules is not understood at `{e}`')
        r.extra['module_attributes_tested'] = len(_module_attrs(m))
        for name in rules:
            r.instance()
            g = m.funcs[name]
            rep.analysed(g)
            if names is not None:
                r.check(
                    name in names, f'{MOD}.{name}:enumerated', where(g), 'selected by the predicate of _get_rules over dir(module)',
                    f'{name} is defined but _get_rules does not yield it: the rule never counts',
                )
            a = g.node.args
            npos = len(a.posonlyargs + a.args)
            r.check(
                npos >= 1 and npos - len(a.defaults) <= 1 and all(d is not None for d in a.kw_defaults),
                f'{MOD}.{name}:signature', where(g), 'callable with the task alone',
                f'{name} cannot be called with one positional argument: TypeError, every package fails this rule', nontrivial=False,
            )
        for name in sorted(set(names or ()) - set(rules)):
            r.fail(
                f'{MOD}.{name}:enumerated-not-a-rule', mwhere(m, m.tree),
                f'_get_rules yields {name!r}, which is not a module-level function: calling it fails and every package is rejected',
            )
        # ---- (b) the verdict of _verify
        vf = prog.func(MOD + '._verify')
        rep.analysed(vf)
        r.instance()
        shape = _verify_shape(prog, vf)
        if isinstance(shape, str):
            r.fail(f'{vf.qname}:shape', where(vf), f'_verify is not understood: {shape}')
        else:
            tl, rl, rc = shape
            fl = _Verdict(prog, vf, tl, rl, rc)
            out = fl.run(vf.node, (0, 0, None, 0, frozenset()))
            rets = list(fl.returns) + [(None, st, _F) for st in out.normal]
            r.extra['verdict_states'] = len({st for _, st, _ in rets})
            r.extra['verdict_steps'] = fl.visited
            bad_acc, bad_rej, und = [], [], []
            for node, st, v in rets:
                txt = norm(node) if node is not None else 'end of function (returns None)'
                if v == _U:
                    und.append(txt)
                elif st[3] and v == _T:
                    bad_acc.append(txt)
                elif not st[3] and v == _F:
                    bad_rej.append(txt)
            r.check(
                not bad_acc and not und and bool(rets), f'{vf.qname}:rejects-on-any-failure', where(vf, rc),
                'with a failing or raising rule for some task every return yields False',
                f'_verify can return a truthy verdict although a rule returned a falsy value or raised for some task '
                f'(at {sorted(set(bad_acc))}; undecided returns {sorted(set(und))}): the status of a rule is lost on some path '
                f'(default status, exception handler, or the way the statuses are combined)',
            )
            r.check(
                not bad_rej and not und and bool(rets), f'{vf.qname}:accepts-when-all-pass', where(vf, rc),
                'when every rule passes for every task every return yields True',
                f'_verify returns a falsy verdict although every rule passed for every task (at {sorted(set(bad_rej))})',
            )
            escapes = sorted({norm(n) for n, _ in fl.early})
            r.check(
                not escapes, f'{vf.qname}:every-task-and-rule', where(vf, tl),
                'no break/return leaves the loops while everything passed so far',
                f'the loops over tasks/rules can be left by {escapes} while no failure was seen: the remaining rules never count',
            )
        # ---- (c) main returns the verdict
        mf = prog.func(MOD + '.main')
        rep.analysed(mf)
        r.instance()
        cf = _Carry(prog, m, mf, MOD + '._verify')
        out = cf.run(mf.node, (None, frozenset()))
        rets = [(n, st, cf.value(n.value, st)) for n, st in cf.returns] + [(None, st, ('const', None)) for st in out.normal]
        with_v = [(n, st, v) for n, st, v in rets if _called(st)]
        bad = sorted({norm(n) if n is not None else 'end of function' for n, _, v in with_v if v != 'V'})
        r.check(
            bool(with_v) and not bad and cf.calls > 0, f'{mf.qname}:returns-verdict', where(mf),
            'every return after the call of _verify returns its value',
            f'main does not return the value of _verify on every path that computed it ({bad or "no such return"})',
        )
        # ---- (d) exit status
        r.instance()
        # the main part is what the module body executes when __name__ == '__main__' holds: the whole body is followed
        # with every test on __name__ decided by that assumption (either arm, any spelling of the comparison)
        ef = _Entry(prog, m, MOD + '.main')
        out = ef.block(m.tree.body, {(None, frozenset())})
        r.extra['tests_on___name__'] = sorted({f'{norm(e)} -> {v}' for e, v in ef.decided})
        if not ef.decided:
            r.fail(f'{MOD}:__main__', mwhere(m, m.tree), 'no `if __name__ == "__main__"` block: python -m dawgie.tools.compliant exits 0 whatever the verdict')
        else:
            blk = ef.decided[0][0]
            events = [(n, st, ef_code) for n, st, ef_code in ef.exits] + [(None, st, None) for st in out.normal]
            bad, seen = [], 0
            for n, st, code in events:
                if not _called(st):
                    bad.append(('main() not called before ' + (norm(n) if n is not None else 'the end of the block'), '-'))
                    continue
                for s2 in _split(st):
                    seen += 1
                    cl = ef.exit_class(code, s2) if n is not None else 'zero'
                    want = 'zero' if s2[0] == 'T' else 'nonzero'
                    if cl != want:
                        bad.append((norm(n) if n is not None else 'end of the block (status 0)', s2[0]))
            r.extra['exit_paths'] = seen
            r.check(
                seen > 0 and not bad, f'{MOD}:__main__:exit-status', mwhere(m, blk),
                'verdict True exits with status 0, verdict False with a non-zero status, on every path',
                'the exit status of `python -m dawgie.tools.compliant` does not follow the verdict: '
                + '; '.join(f'{t} reached with verdict {"True" if v == "T" else "False" if v == "F" else v}' for t, v in sorted(set(bad))),
            )
        # ---- (e) verify -> spawn, submit._spawn
        vr = prog.func(MOD + '.verify')
        rep.analysed(vr)
        r.instance()
        spawn = 'spawn' if 'spawn' in vr.params() else (vr.params()[-1] if vr.params() else None)
        rets = [n for n in vr.own_nodes() if isinstance(n, ast.Return)]
        ok = bool(rets)
        for n in rets:
            v = n.value
            if not (isinstance(v, ast.Call) and isinstance(v.func, ast.Name) and v.func.id == spawn and len(v.args) == 1 and not v.keywords):
                ok = False
                continue
            arg = v.args[0]
            srcs = [arg]
            if isinstance(arg, ast.Name):  # everything that flows into the command list
                for x in vr.own_nodes():
                    if isinstance(x, (ast.Assign, ast.AugAssign)) and any(
                        isinstance(t, ast.Name) and t.id == arg.id for t in (x.targets if isinstance(x, ast.Assign) else [x.target])
                    ):
                        srcs.append(x.value)
                    elif (
                        isinstance(x, ast.Call) and isinstance(x.func, ast.Attribute) and isinstance(x.func.value, ast.Name)
                        and x.func.value.id == arg.id and x.func.attr in ('append', 'extend', 'insert')
                    ):
                        srcs += list(x.args)
            consts = {c.value for s_ in srcs for c in ast.walk(s_) if isinstance(c, ast.Constant) and isinstance(c.value, str)}
            ok = ok and '-m' in consts and MOD in consts
        r.check(
            ok, f'{vr.qname}:returns-spawn', where(vr), 'returns spawn([... -m dawgie.tools.compliant ...])',
            'verify does not return the result of spawning `-m dawgie.tools.compliant` on every path: the verdict of the check is replaced',
        )
        sp = prog.func(SUB + '._spawn')
        rep.analysed(sp)
        r.instance()
        rets = [n for n in sp.own_nodes() if isinstance(n, ast.Return)]

        def status_is_zero(e):
            """the value is truthy exactly when the exit status of the spawned command is 0: the expression is evaluated
            for concrete statuses (0, both sides of every integer it mentions, a signal), so `call() == 0`, `0 == call()`,
            `not call()`, `not call() != 0`, `False if call() else True` ... are all the same thing"""
            if e is None:
                return False

            def spawned(x):
                if isinstance(x, ast.Attribute) and x.attr == 'returncode':  # subprocess.run(...).returncode
                    return isinstance(x.value, ast.Call) and prog.resolve_in(x.value.func, sp) == 'external:subprocess.run'
                if isinstance(x, ast.Call):  # subprocess.call(...) is the status itself
                    return prog.resolve_in(x.func, sp) == 'external:subprocess.call'
                if isinstance(x, ast.Name) and isinstance(x.ctx, ast.Load):  # a local bound once, to the status
                    stores = [
                        n for n in sp.own_nodes() if isinstance(n, ast.Name) and not isinstance(n.ctx, ast.Load) and n.id == x.id
                    ]
                    vals = [
                        n.value for n in sp.own_nodes()
                        if isinstance(n, ast.Assign) and len(n.targets) == 1 and any(n.targets[0] is t for t in stores)
                    ]
                    return len(stores) == 1 and len(vals) == 1 and not isinstance(vals[0], ast.Name) and spawned(vals[0])
                return False

            sites = [x for x in ast.walk(e) if spawned(x)]
            if len(sites) != 1:
                return False
            points = {0, 1, -1, 2, 255, -9}
            for c in ast.walk(e):
                if isinstance(c, ast.Constant) and isinstance(c.value, int) and not isinstance(c.value, bool):
                    points |= {c.value - 1, c.value, c.value + 1, -c.value - 1, -c.value, -c.value + 1}
            try:
                return all(bool(_cev(e, {_NODES: {id(sites[0]): v}})) == (v == 0) for v in sorted(points))
            except (_NotUnderstood, TypeError, ValueError, IndexError, KeyError):
                return False

        r.check(
            bool(rets) and all(status_is_zero(n.value) for n in rets), f'{sp.qname}:status-zero-is-true', where(sp),
            'returns (exit status == 0)', 'the command-line spawn helper does not map exit status 0 to True and any other status to False',
        )
        # ---- (f) auto_merge_compliant
        am = prog.func(SUB + '.auto_merge_compliant')
        rep.analysed(am)
        r.instance()
        gf = _Carry(prog, sm, am, MOD + '.verify')
        out = gf.run(am.node, (None, frozenset()))
        evs = [(n, st, gf.value(n.value, st)) for n, st in gf.returns] + [(None, st, ('const', None)) for st in out.normal]
        bad, nfail = [], 0
        for n, st, v in evs:
            txt = norm(n) if n is not None else 'end of function (returns None)'
            if not _called(st) or st[0] is None:
                bad.append(f'{txt} is reached without the verdict of verify being tested')
                continue
            want = SUB + ('.State.SUCCESS' if st[0] == 'T' else '.State.FAILED')
            nfail += st[0] == 'F'
            if v != ('sym', want):
                bad.append(f'{txt} when verify is {"truthy" if st[0] == "T" else "falsy"}')
        r.check(
            not bad and nfail > 0 and gf.calls > 0, f'{am.qname}:failed-iff-falsy', where(am),
            'returns State.FAILED exactly on the paths where verify(...) is falsy',
            'auto_merge_compliant does not return State.FAILED exactly when compliant.verify is falsy: ' + ('; '.join(sorted(set(bad))) or 'verify is never consulted'),
        )
        # ---- (g) automatic
        au = prog.func(SUB + '.automatic')
        rep.analysed(au)
        if 'ops' not in au.params():
            raise AnalysisError('tools.submit.automatic no longer has the parameter ops (operational branch)')
        ops = {'ops'}
        changed = True
        while changed:  # names derived from ops
            changed = False
            for n in au.own_nodes():
                if isinstance(n, ast.Assign) and {x.id for x in ast.walk(n.value) if isinstance(x, ast.Name)} & ops:
                    for t in n.targets:
                        for x in ast.walk(t):
                            if isinstance(x, ast.Name) and x.id not in ops:
                                ops.add(x.id)
                                changed = True
        two = set(_enum_members(prog, SUB + '.State')) == {'FAILED', 'SUCCESS'}
        af = _Auto(prog, au, ops, two)
        af.run(au.node, ('unchecked', frozenset()))
        r.extra['automatic_steps'] = af.visited
        if af.gate_calls == 0:
            r.instance()
            r.fail(f'{au.qname}:gate', where(au), 'automatic never calls auto_merge_compliant: nothing gates the operational branch')
        for _, (call, gates, why) in sorted(af.touch.items(), key=lambda kv: (kv[1][0].lineno, kv[1][0].col_offset)):
            r.instance()
            worst = sorted(g for g in gates if g != 'passed')
            r.check(
                not worst, f'{au.qname}:{norm(call)}', where(au, call), f'{why}: reached only after the gate returned SUCCESS',
                f'{norm(call)} ({why}) acts on the operational branch and is reachable with the compliance gate {worst} '
                f'(not dominated by a test that auto_merge_compliant did not return FAILED)',
            )
        if not af.touch:
            raise AnalysisError('no command acting on the operational branch found in tools.submit.automatic (1 confirmed by reading)')


# what each compliance rule has to look at to verify what its docstring (and the property statement) says it verifies;
# frozen from reading tools/compliant.py, one line of reason each.  A rule that no longer makes one of these observations
# cannot reject the violation it exists for.
_RULE_OBSERVES = {
    # only calls of the engine / dawgie / pickle API are listed: Python builtins (len, isinstance, ...) have too many
    # equivalent spellings to be demanded by name
    'rule_01': ({'import_module'}, 'factory signature: the task package itself is imported'),
    'rule_02': (set(), 'base types (walks the package with _walk: R-C16-3)'),
    'rule_03': ({'name', 'routines', 'state_vectors'}, 'abstract methods: the abstract accessors are actually called'),
    'rule_04': ({'name'}, 'dotted names: name() of algorithms and state vectors is read'),
    'rule_05': (set(), 'empty state vectors (walks the package with _walk: R-C16-3)'),
    'rule_06': ({'previous'}, 'previous(): the references an algorithm declares are read'),
    'rule_07': ({'dumps', 'loads'}, 'unpicklable values: a value has to survive the round trip pickle.dumps -> pickle.loads'),
    'rule_08': ({'isfunction', 'ismethod'}, 'ill-typed references: the factory of a *_REF is a plain function or a bound method (util.task_name reads its __module__ / __self__, Factories.resolve its __name__; a partial, a class or a callable object has none of them)'),
    'rule_09': ({'state_vectors'}, 'missing state vectors: the state vectors of every routine are read'),
    'rule_10': ({'events'}, 'schedule moments: every event of the package is read (field checks: R-C20-6)'),
    'rule_11': ({'as_vref'}, 'unresolvable references: references are expanded to value level before they are resolved'),
}


def _rule4(ctx, rep):
    """added after seeded change C16-3 (rule_07 reduced to pickle.dumps: a Value whose constructor needs an argument dumps
    fine but cannot be loaded, and no other rule rejects it)"""
    prog = ctx.prog
    from ..inline import baseline

    with rep.rule(
        'R-C16-4',
        'each compliance rule makes the observations it needs for the violation it exists to reject (table _RULE_OBSERVES, read from tools/compliant.py)',
        floor=11,
        breaks='the gate accepts a package that breaks that rule: the rule still runs and still returns a verdict, but no longer looks at what it judges',
    ) as r:
        mod = 'dawgie.tools.compliant'
        rules = sorted(q for q in prog.funcs if q.startswith(mod + '.rule_') and prog.funcs[q].parent is None)
        for q in rules:
            f = prog.funcs[q]
            rep.analysed(f)
            r.instance()
            want = _RULE_OBSERVES.get(f.name)
            if want is None:
                r.fail(f'{q}:observes', where(f), f'{f.name} is not in the table of required observations: a rule was added without recording what it has to look at')
                continue
            seen = set()
            todo, done = [f], set()
            while todo:
                g = todo.pop()
                if g.qname in done:
                    continue
                done.add(g.qname)
                for n in ast.walk(g.node):
                    if isinstance(n, ast.Call):
                        fn = n.func
                        seen.add(fn.attr if isinstance(fn, ast.Attribute) else (fn.id if isinstance(fn, ast.Name) else ''))
                        cq = prog.resolve_in(fn, g) if isinstance(fn, (ast.Name, ast.Attribute)) else None
                        h = prog.funcs.get(cq) if cq else None
                        # helpers newly extracted from a rule are searched with it
                        if h is not None and h.module is f.module and h.qname not in baseline():
                            todo.append(h)
            missing = sorted(want[0] - seen)
            r.check(
                not missing,
                f'{q}:observes',
                where(f),
                f'{want[1]}',
                f'{f.name} no longer calls {missing} ({want[1]}): it cannot reject the violation it exists for',
            )
        absent = sorted(set(_RULE_OBSERVES) - {prog.funcs[q].name for q in rules})
        if absent:
            r.fail(f'{mod}:rules-present', f'tools/compliant.py:1', f'compliance rules {absent} no longer exist: the violations they reject are accepted')


def _rule5(ctx, rep):
    """the gate judges the submitted copy (added after seeded change C16-4: main() appended the AE root to sys.path
    "unless already there"; an importable operational copy then shadowed the changeset and the exit status judged the
    wrong package)"""
    prog = ctx.prog
    f = prog.nfunc('dawgie.tools.compliant.main')
    rep.analysed(f)
    with rep.rule(
        'R-C16-5',
        'the compliance process imports the package under --ae-dir: main() puts the root derived from args.ae_dir at the FRONT of sys.path, unconditionally, before the packages are scanned and verified',
        floor=1,
        breaks='another importable copy of the engine (the operational one) is verified instead of the changeset: a non-compliant changeset goes operational',
    ) as r:
        def derived(e, depth=0):
            """does the expression depend on args.ae_dir (following locals)?"""
            for x in ast.walk(e):
                if isinstance(x, ast.Attribute) and x.attr == 'ae_dir':
                    return True
                if isinstance(x, ast.Name) and depth < 3:
                    for d in f.own_nodes():
                        if isinstance(d, ast.Assign) and any(isinstance(t, ast.Name) and t.id == x.id for t in d.targets) and derived(d.value, depth + 1):
                            return True
            return False

        class Fl(Flow):
            def __init__(s):
                super().__init__()
                s.verify_states = []

            def on_call(s, call, st):
                fn = call.func
                if isinstance(fn, ast.Attribute) and fn.attr == 'insert' and norm(fn.value) == 'sys.path' and len(call.args) == 2:
                    if isinstance(call.args[0], ast.Constant) and call.args[0].value == 0 and derived(call.args[1]):
                        return ('front',)
                q = prog.resolve_in(fn, f) or ''
                if q.endswith('compliant._verify') or q.endswith('compliant._scan'):
                    s.verify_states.append((call, st))
                return (st,)

            def on_stmt(s, node, st):
                # sys.path[0:0] = [root]  /  sys.path = [root] + sys.path
                if isinstance(node, ast.Assign) and len(node.targets) == 1:
                    t, v = node.targets[0], node.value
                    if isinstance(t, ast.Subscript) and norm(t.value) == 'sys.path' and norm(t.slice) in ('0:0', ':0') and derived(v):
                        return ('front',)
                    if norm(t) == 'sys.path' and isinstance(v, ast.BinOp) and isinstance(v.op, ast.Add) and norm(v.right) == 'sys.path' and derived(v.left):
                        return ('front',)
                return (st,)

        fl = Fl()
        fl.run(f.node, 'no')
        if not fl.verify_states:
            raise AnalysisError('compliant.main no longer calls _scan / _verify')
        r.instance()
        bad = [(c, st) for c, st in fl.verify_states if st != 'front']
        r.check(
            not bad,
            f'{f.qname}:ae-root-first-on-path',
            where(f, bad[0][0] if bad else None),
            'sys.path.insert(0, <root of args.ae_dir>) dominates _scan / _verify',
            f'{f.qname} reaches {norm(bad[0][0])[:50] if bad else ""} on a path where the root of --ae-dir was not put at the front of sys.path: an already importable copy of the engine is verified instead',
        )


def _rule6(ctx, rep):
    """the gate judges every package of the engine (added after seeded change C16-6: pl.scan.advanced_factories skipped a
    task module whose import raised ImportError; no rule ran for it and `python -m dawgie.tools.compliant` exited 0)"""
    prog = ctx.prog
    with rep.rule(
        'R-C16-6',
        'the scan is total: an exception raised while a task module is imported in dawgie.pl.scan propagates (no handler around importlib.import_module that swallows it), so a package that cannot be imported fails the gate instead of vanishing from it',
        floor=2,
        breaks='a package that breaks the architecture so badly that it cannot even be imported is silently left out of the verification: the gate accepts the engine',
    ) as r:
        sites = 0
        for q, raw in sorted(prog.funcs.items()):
            if raw.module.name != 'dawgie.pl.scan':
                continue
            f = prog.nfunc(q)
            for c in f.calls():
                if not ((prog.resolve_in(c.func, f) or '').endswith('importlib.import_module') or (isinstance(c.func, ast.Attribute) and c.func.attr == 'import_module')):
                    continue
                sites += 1
                r.instance()
                rep.analysed(f)
                swallowing = []
                for t in f.own_nodes():
                    if isinstance(t, ast.Try) and any(x is c for b in t.body for x in ast.walk(b)):
                        for h in t.handlers:
                            reraises = any(isinstance(x, ast.Raise) for b in h.body for x in ast.walk(b))
                            if not reraises:
                                swallowing.append(h)
                r.check(
                    not swallowing,
                    f'{q}:{norm(c)[:50]}:import-errors-propagate',
                    where(f, swallowing[0] if swallowing else c),
                    'no swallowing handler around the import of a task module',
                    f'{q}: an exception of {norm(c)[:50]} is caught by `except {norm(swallowing[0].type) if swallowing and swallowing[0].type is not None else ""}` and not re-raised: the package disappears from the scan and is never verified',
                )
        if not sites:
            raise AnalysisError('dawgie.pl.scan no longer imports the task modules with importlib.import_module')


def _rule7(ctx, rep):
    """two clauses added after seeded changes C16-8 / C16-9"""
    prog = ctx.prog
    with rep.rule(
        'R-C16-7',
        '(a) automatic() compares the requested changeset with the revision of the checked-out tree (git rev-parse ... HEAD) - the tree the compliance subprocess inspects - before the gate runs; (b) rule_06 accepts a previous() reference whose implementation lives in the task package itself or below it and rejects one from elsewhere (evaluated on the three cases)',
        floor=2,
        breaks='(a) the gate judges a tree other than the changeset that is made operational; (b) a package that follows every rule is rejected because its algorithm class is defined in the package __init__',
    ) as r:
        # (a)
        a = prog.nfunc('dawgie.tools.submit.automatic')
        rep.analysed(a)
        r.instance()
        revs = []
        for c in a.calls():
            if isinstance(c.func, ast.Attribute) and c.func.attr == 'execute' and c.args:
                arg0 = c.args[0]
                txt = None
                inner = arg0.func.value if isinstance(arg0, ast.Call) and isinstance(arg0.func, ast.Attribute) and arg0.func.attr == 'split' else arg0
                if isinstance(inner, ast.Constant) and isinstance(inner.value, str):
                    txt = inner.value
                elif isinstance(inner, ast.JoinedStr):
                    txt = ''.join(v.value if isinstance(v, ast.Constant) else '{' + norm(v.value) + '}' for v in inner.values)
                elif isinstance(inner, (ast.List, ast.Tuple)):
                    txt = ' '.join(x.value if isinstance(x, ast.Constant) else '{' + norm(x) + '}' for x in inner.elts)
                if txt and 'rev-parse' in txt:
                    revs.append((c, txt))
        if not revs:
            raise AnalysisError('tools.submit.automatic no longer determines the checked-out revision with git rev-parse')
        wrong = [(c, t) for c, t in revs if t.split()[-1] != 'HEAD']
        r.check(
            not wrong,
            f'{a.qname}:compares-checked-out-revision',
            where(a, wrong[0][0] if wrong else revs[0][0]),
            'git rev-parse HEAD',
            f'{a.qname} compares the changeset with "{wrong[0][1] if wrong else ""}" instead of the checked-out HEAD: what the compliance process verifies (the working tree) and what becomes operational can differ',
        )
        # (b)
        f = prog.nfunc('dawgie.tools.compliant.rule_06')
        rep.analysed(f)
        r.instance()

        class NU(Exception):
            pass

        TM = 'ae.net'

        def sval(e, module):
            if isinstance(e, ast.Constant) and isinstance(e.value, str):
                return e.value
            if isinstance(e, ast.Attribute) and e.attr == '__module__':
                return module
            if isinstance(e, ast.Call) and (call_name(e) or '').endswith('task_module'):
                return TM
            if isinstance(e, ast.BinOp) and isinstance(e.op, ast.Add):
                return sval(e.left, module) + sval(e.right, module)
            if isinstance(e, ast.Name):
                defs = [d.value for d in f.own_nodes() if isinstance(d, ast.Assign) and any(isinstance(t, ast.Name) and t.id == e.id for t in d.targets)]
                if len(defs) == 1:
                    return sval(defs[0], module)
            if isinstance(e, ast.JoinedStr):
                return ''.join(v.value if isinstance(v, ast.Constant) else sval(v.value, module) for v in e.values)
            if isinstance(e, ast.Tuple):
                return tuple(sval(x, module) for x in e.elts)
            raise NU(norm(e)[:50])

        def struth(e, module):
            if isinstance(e, ast.Name):
                defs = [d.value for d in f.own_nodes() if isinstance(d, ast.Assign) and any(isinstance(t, ast.Name) and t.id == e.id for t in d.targets)]
                if len(defs) == 1:
                    return struth(defs[0], module)
            if isinstance(e, ast.BoolOp):
                vals = [struth(v, module) for v in e.values]
                return all(vals) if isinstance(e.op, ast.And) else any(vals)
            if isinstance(e, ast.UnaryOp) and isinstance(e.op, ast.Not):
                return not struth(e.operand, module)
            if isinstance(e, ast.Call) and isinstance(e.func, ast.Attribute) and e.func.attr in ('startswith', 'endswith') and len(e.args) == 1:
                return getattr(sval(e.func.value, module), e.func.attr)(sval(e.args[0], module))
            if isinstance(e, ast.Compare) and len(e.ops) == 1:
                x, y = sval(e.left, module), sval(e.comparators[0], module)
                op = e.ops[0]
                if isinstance(op, ast.Eq):
                    return x == y
                if isinstance(op, ast.NotEq):
                    return x != y
                if isinstance(op, ast.In):
                    return x in y
                if isinstance(op, ast.NotIn):
                    return x not in y
            raise NU(norm(e)[:50])

        # by role: whatever is appended to the verdict list and is computed from the implementation's __module__
        def from_module(e, depth=0):
            # computed from <impl>.__module__, directly or through locals bound once
            for x in ast.walk(e):
                if isinstance(x, ast.Attribute) and x.attr == '__module__':
                    return True
                if isinstance(x, ast.Name) and depth < 4:
                    defs = [d.value for d in f.own_nodes() if isinstance(d, ast.Assign) and any(isinstance(t, ast.Name) and t.id == x.id for t in d.targets)]
                    if len(defs) == 1 and from_module(defs[0], depth + 1):
                        return True
            return False

        verdicts = [c.args[0] for c in f.calls() if isinstance(c.func, ast.Attribute) and c.func.attr == 'append' and c.args and from_module(c.args[0])]
        key = f'{f.qname}:package-or-below'
        if not verdicts:
            r.fail(key, where(f), 'rule_06 no longer appends a verdict computed from the implementation module of a previous() reference')
        else:
            try:
                cases = {'ae.net': True, 'ae.net.bot': True, 'zz.other.bot': False}
                wrong = [(m, struth(verdicts[0], m)) for m, want in cases.items() if struth(verdicts[0], m) != want]
                r.check(
                    not wrong,
                    key,
                    where(f, verdicts[0]),
                    'accepts the task package and its sub-modules, rejects another package',
                    f'rule_06 decides {wrong} for an implementation module relative to the task package "ae.net" (expected: the package itself and its sub-modules accepted, another package rejected)',
                )
            except NU as e_:
                r.fail(key, where(f, verdicts[0]), f'verdict expression of rule_06 not understood: {e_}')


# ---------------------------------------------------------------------------------------------------------------
# R-C16-8: a reference resolves only when something was found (added after seeded change C16-2)


class _Sym:
    """one element of a scenario: an algorithm of the referenced factory, a state vector of it, or a value reference"""

    def __init__(self, role, **kw):
        self.role = role
        self.__dict__.update(kw)


def _resolve_scenarios():
    """(algorithms, expectation) - each algorithm is (name matches, [(state vector name matches, has the feature)])"""
    out = []
    for algs in ([], [(False, [(True, True)])], [(True, [])], [(True, [(False, True)])], [(True, [(True, False)])],
                 [(True, [(False, True), (False, True)])], [(False, [(True, True)]), (True, [(False, False)])]):
        out.append(algs)
    return out


def _run_resolve(fn, algs):
    """evaluate the resolver of rule_11 on one scenario; returns the list of verdicts it reports (appended to a list it
    does not own, or returned).  Raises _NotUnderstood for anything outside the small language the resolver is written in."""
    verdicts = []
    env = {}
    params = [a.arg for a in fn.node.args.args]

    def role_of_iter(e):
        names = {n.func.attr for n in ast.walk(e) if isinstance(n, ast.Call) and isinstance(n.func, ast.Attribute)}
        names |= {n.func.id for n in ast.walk(e) if isinstance(n, ast.Call) and isinstance(n.func, ast.Name)}
        if 'routines' in names:
            return 'alg'
        if 'state_vectors' in names:
            return 'sv'
        if 'as_vref' in names:
            return 'vref'
        return None

    def elements(e, env):
        role = role_of_iter(e)
        if role == 'alg':
            return [_Sym('alg', match=m, svs=svs) for m, svs in algs]
        if role == 'vref':
            return [_Sym('vref')]
        if role == 'sv':
            owner = [v for v in env.values() if isinstance(v, _Sym) and v.role == 'alg']
            base = [n.id for n in ast.walk(e) if isinstance(n, ast.Name) and isinstance(env.get(n.id), _Sym) and env[n.id].role == 'alg']
            if not base:
                raise _NotUnderstood('state vectors of what? ' + norm(e))
            return [_Sym('sv', match=m, feat=ft) for m, ft in env[base[0]].svs]
        if isinstance(e, ast.Name) and isinstance(env.get(e.id), list):
            return list(env[e.id])
        raise _NotUnderstood('iteration over ' + norm(e)[:50])

    def root(e):
        while isinstance(e, (ast.Attribute, ast.Call, ast.Subscript)):
            e = e.func if isinstance(e, ast.Call) else e.value
        return e.id if isinstance(e, ast.Name) else None

    def val(e, env):
        if isinstance(e, ast.Constant):
            return e.value
        if isinstance(e, ast.Name):
            if e.id in env:
                return env[e.id]
            raise _NotUnderstood(e.id)
        if isinstance(e, ast.UnaryOp) and isinstance(e.op, ast.Not):
            return not val(e.operand, env)
        if isinstance(e, ast.UnaryOp) and isinstance(e.op, ast.USub):
            return -val(e.operand, env)
        if isinstance(e, ast.BoolOp):
            v = None
            for x in e.values:
                v = val(x, env)
                if isinstance(e.op, ast.And) and not v or isinstance(e.op, ast.Or) and v:
                    return v
            return v
        if isinstance(e, ast.IfExp):
            return val(e.body, env) if val(e.test, env) else val(e.orelse, env)
        if isinstance(e, ast.BinOp) and isinstance(e.op, (ast.Add, ast.Sub)):
            a, b = val(e.left, env), val(e.right, env)
            return a + b if isinstance(e.op, ast.Add) else a - b
        if isinstance(e, (ast.List, ast.Tuple)):
            return [val(x, env) for x in e.elts]
        if isinstance(e, ast.Subscript):
            base = val(e.value, env)
            if not isinstance(base, list) or isinstance(e.slice, ast.Slice):
                raise _NotUnderstood(norm(e))
            return base[val(e.slice, env)]
        if isinstance(e, ast.Compare) and len(e.ops) == 1:
            op, a, b = e.ops[0], e.left, e.comparators[0]
            ra, rb = env.get(root(a)), env.get(root(b))
            syms = [x for x in (ra, rb) if isinstance(x, _Sym)]
            if syms:
                if isinstance(op, (ast.In, ast.NotIn)):
                    # <feature of the value reference> in <state vector>
                    if isinstance(rb, _Sym) and rb.role == 'sv':
                        return rb.feat if isinstance(op, ast.In) else not rb.feat
                    raise _NotUnderstood(norm(e))
                if isinstance(op, (ast.Eq, ast.NotEq)):
                    # names compared: the candidate (algorithm / state vector of the scenario) against the reference
                    cand = [x for x in syms if x.role in ('alg', 'sv')]
                    if len(cand) != 1:
                        raise _NotUnderstood(norm(e))
                    return cand[0].match if isinstance(op, ast.Eq) else not cand[0].match
                raise _NotUnderstood(norm(e))
            x, y = val(a, env), val(b, env)
            table = {ast.Eq: x == y, ast.NotEq: x != y, ast.Is: x is y, ast.IsNot: x is not y}
            if type(op) in table:
                return table[type(op)]
            if isinstance(op, (ast.Lt, ast.LtE, ast.Gt, ast.GtE)) and all(isinstance(v, int) for v in (x, y)):
                return {ast.Lt: x < y, ast.LtE: x <= y, ast.Gt: x > y, ast.GtE: x >= y}[type(op)]
            raise _NotUnderstood(norm(e))
        if isinstance(e, (ast.GeneratorExp, ast.ListComp)):
            out = []

            def gen(i, env):
                if i == len(e.generators):
                    out.append(val(e.elt, env))
                    return
                g = e.generators[i]
                if not isinstance(g.target, ast.Name):
                    raise _NotUnderstood(norm(g.target))
                for el in elements(g.iter, env):
                    env2 = dict(env)
                    env2[g.target.id] = el
                    if all(val(c, env2) for c in g.ifs):
                        gen(i + 1, env2)

            gen(0, env)
            return out
        if isinstance(e, ast.Call) and isinstance(e.func, ast.Name) and e.func.id in ('all', 'any', 'len', 'bool', 'list', 'sum') and len(e.args) == 1 and not e.keywords:
            a = val(e.args[0], env)
            if not isinstance(a, list):
                if e.func.id == 'bool':
                    return bool(a)
                raise _NotUnderstood(norm(e))
            return {'all': all, 'any': any, 'len': len, 'bool': bool, 'list': list, 'sum': sum}[e.func.id](a)
        if isinstance(e, ast.Call) and isinstance(e.func, ast.Name) and e.func.id == 'next' and len(e.args) == 2:
            a = val(e.args[0], env)
            return a[0] if a else val(e.args[1], env)
        if isinstance(e, ast.Call):
            return _Sym('opaque')  # task_name(...), ref.factory(fn), ...: objects the verdict is not computed from
        if isinstance(e, ast.Attribute):
            return _Sym('opaque')
        raise _NotUnderstood(norm(e)[:60])

    class _Ret(Exception):
        pass

    class _Brk(Exception):
        pass

    class _Cont(Exception):
        pass

    def truth(v):
        if isinstance(v, _Sym):
            raise _NotUnderstood('truth of an opaque object')
        return bool(v)

    def run(body, env):
        for s in body:
            if isinstance(s, ast.Pass):
                continue
            if isinstance(s, ast.Assign) and len(s.targets) == 1:
                t = s.targets[0]
                v = val(s.value, env)
                if isinstance(t, ast.Name):
                    env[t.id] = v
                elif isinstance(t, ast.Subscript) and isinstance(env.get(root(t)), list) and isinstance(t.value, ast.Name):
                    env[t.value.id][val(t.slice, env)] = v
                else:
                    raise _NotUnderstood(norm(s)[:60])
            elif isinstance(s, ast.AugAssign) and isinstance(s.target, ast.Name) and isinstance(s.op, (ast.Add, ast.Sub)):
                d = val(s.value, env)
                cur = env.get(s.target.id)
                if isinstance(cur, list) and isinstance(s.op, ast.Add) and isinstance(d, list):
                    cur.extend(d)
                else:
                    env[s.target.id] = cur + d if isinstance(s.op, ast.Add) else cur - d
            elif isinstance(s, ast.AugAssign) and isinstance(s.target, ast.Name) and isinstance(s.op, (ast.BitAnd, ast.BitOr)):
                a, b = truth(env[s.target.id]), truth(val(s.value, env))
                env[s.target.id] = (a and b) if isinstance(s.op, ast.BitAnd) else (a or b)
            elif isinstance(s, ast.Expr) and isinstance(s.value, ast.Call):
                c = s.value
                if isinstance(c.func, ast.Attribute) and c.func.attr in ('append', 'extend') and isinstance(c.func.value, ast.Name) and len(c.args) == 1:
                    v = val(c.args[0], env)
                    tgt = c.func.value.id
                    if tgt in env and isinstance(env[tgt], list):
                        env[tgt].append(v) if c.func.attr == 'append' else env[tgt].extend(v)
                    elif tgt not in env:
                        verdicts.append(v) if c.func.attr == 'append' else verdicts.extend(v)  # the rule's verdict list
                    else:
                        raise _NotUnderstood(norm(s)[:60])
                elif norm(c.func).split('.')[0] in ('logging', 'log', 'LOG', 'print'):
                    continue
                else:
                    raise _NotUnderstood(norm(s)[:60])
            elif isinstance(s, ast.Expr) and isinstance(s.value, ast.Constant):
                continue
            elif isinstance(s, ast.If):
                run(s.body if truth(val(s.test, env)) else s.orelse, env)
            elif isinstance(s, ast.For) and isinstance(s.target, ast.Name):
                broke = False
                for el in elements(s.iter, env):
                    env[s.target.id] = el
                    try:
                        run(s.body, env)
                    except _Brk:
                        broke = True
                        break
                    except _Cont:
                        continue
                if not broke:
                    run(s.orelse, env)
            elif isinstance(s, ast.Break):
                raise _Brk()
            elif isinstance(s, ast.Continue):
                raise _Cont()
            elif isinstance(s, ast.Return):
                if s.value is not None:
                    verdicts.append(val(s.value, env))
                raise _Ret()
            else:
                raise _NotUnderstood(norm(s)[:60])

    for p_ in params:
        env[p_] = _Sym('ref')
    try:
        run(fn.node.body, env)
    except _Ret:
        pass
    except (_Brk, _Cont):
        raise _NotUnderstood('break/continue outside a loop')
    except (TypeError, IndexError, KeyError, AttributeError) as e_:
        raise _NotUnderstood(f'{type(e_).__name__}: {e_}')
    return verdicts


def _rule8(ctx, rep):
    """added after seeded change C16-2: rule_11's bookkeeping (unresolved until found) was folded into
    all(<feature in sv> for sv in ... if <names match>), which is True when nothing matches - a reference to a state
    vector the algorithm does not have resolved "successfully" """
    prog = ctx.prog
    f = prog.nfunc('dawgie.tools.compliant.rule_11')
    rep.analysed(f)
    with rep.rule(
        'R-C16-8',
        'the resolver of rule_11 reports a reference as resolved only if an algorithm of the referenced factory has the name and one of its state vectors has the name and the feature (the resolver is evaluated on seven scenarios: no algorithm, no algorithm of that name, no state vector, no state vector of that name, feature missing, ...)',
        floor=1,
        breaks='a V_REF/SV_REF/ALG_REF that names something the referenced algorithm does not produce passes the gate; the pipeline then looks for a state vector or value that never exists',
    ) as r:
        # by role: the nested function handed to _walk as the reference hook; else rule_11 itself
        hook = None
        walk = prog.funcs.get('dawgie.tools.compliant._walk')
        wparams = walk.params() if walk is not None else []
        for c in f.calls():
            bound = dict(zip(wparams, c.args)) if walk is not None and prog.callee(c, f) == walk.qname else {}
            bound.update({k.arg: k.value for k in c.keywords if k.arg})
            v = bound.get('ifref')
            if isinstance(v, ast.Name):
                hook = f.children.get(v.id) or hook
        r.instance()
        key = f'{f.qname}:resolved-only-when-found'
        if hook is None:
            r.note('reference hook of rule_11 not found by role; not decided')
            return
        rep.analysed(hook)
        bad = []
        try:
            for algs in _resolve_scenarios():
                vs = _run_resolve(hook, algs)
                if not vs:
                    continue
                if any(isinstance(v, _Sym) for v in vs):
                    raise _NotUnderstood('opaque verdict')
                verdict = all(vs)
                found = any(m and any(sm and ft for sm, ft in svs) for m, svs in algs)
                if verdict and not found:
                    bad.append(algs)
        except _NotUnderstood as e_:
            r.note(f'resolver of rule_11 is outside the evaluated language ({e_}); not decided')
            return
        r.check(
            not bad,
            key,
            where(hook),
            'unresolved in every scenario without a matching algorithm / state vector / feature',
            f'{hook.qname} reports a reference as resolved in scenario(s) {bad[:3]} [(algorithm name matches, [(state vector name matches, has feature)])]: '
            'nothing that matches the reference exists, yet the rule passes (vacuous truth)',
        )


def check(ctx):
    rep = Report(
        PID,
        ctx.tier,
        ctx.prog,
        'Decides, from the source of tools/compliant.py and tools/submit.py (plus the routine classes of dawgie/__init__.py): '
        '(1) by symbolic interpretation of _walk with provenance terms, that every local it uses is bound in the iteration '
        'of the factory-kind loop that uses it; (3) that for each factory kind the container, routine, reference '
        '(feedback and inputs), state-vector and value hooks receive the objects of that kind\'s own product; '
        '(2) by concrete evaluation of the _get_rules predicate over the module\'s attribute names, an oracle-driven '
        'abstract interpretation of _verify (task fails / rule passes, fails or raises; list of statuses abstracted to '
        'has-truthy/has-falsy) and value tracking through main, the __main__ block, verify, auto_merge_compliant and '
        'automatic, that a failing or raising rule always ends in a non-zero exit status / State.FAILED before the '
        'operational branch is moved, and that an all-passing run ends in status 0 / SUCCESS. '
        'Not decided: whether each rule_NN accepts/rejects correctly for every package, and whether every accepted '
        'package can be scheduled.',
        assumptions=[
            'the hook parameter names of _walk (ifbot, ifalg, ifsv, ifv, ifanl, ifanz, ifret, ifrec, ifref, ifmom) are its keyword interface',
            'a module-level function named rule_* is a rule; dir(module) is the module\'s functions, classes, globals and imports',
            'the spawn callable handed to automatic returns the truth of "exit status == 0" (checked for tools.submit._spawn only)',
        ],
    )
    rep.not_decided = [
        'correctness of each rule_NN for every generated package (what the rules compute, not their shape)',
        'that every accepted package with acyclic inputs can be turned into a task graph and scheduled',
        'behaviour of spawn callables other than tools.submit._spawn (e.g. the asynchronous fe VerifyHandler.spawn_off)',
    ]
    sh = _interpret_walk(ctx)
    _rule1(ctx, rep, sh)
    _rule2(ctx, rep)
    _rule3(ctx, rep, sh)
    _rule4(ctx, rep)
    _rule5(ctx, rep)
    _rule6(ctx, rep)
    _rule7(ctx, rep)
    _rule8(ctx, rep)
    from . import shared

    def _c09(m):
        fx = m.Facts(ctx)
        m.rule1(ctx, rep, fx)
        m.rule4(ctx, rep, fx)

    shared.borrow(ctx, rep, [
        ('c20', lambda m: m.rule6(ctx, rep), 'an accepted package must be schedulable: what _delay dereferences of an event, rule_10 has to demand'),
        ('c09', _c09, 'an accepted package must be turned into a task graph with every declared edge: the graph construction follows the declarations'),
    ])
    return rep


_C, _S = 'tools/compliant.py', 'tools/submit.py'

_WALK_LOOP_FIXED = """for e in filter(lambda e: hasattr(mod, e.name), dawgie.Factories):
        f = getattr(mod, e.name)
        bot = f(*fargs[e])
        if e == dawgie.Factories.analysis:
            ifanl(bot)
            for a in bot.routines():
                ifanz(a)
                for ref in a.feedback():
                    ifref(ref)
                for ref in a.traits():
                    ifref(ref)
                for sv in a.state_vectors():
                    ifsv(sv)
                    for i in sv.items():
                        ifv(i)
                    pass
                pass
        elif e == dawgie.Factories.task:
            ifbot(bot)
            for a in bot.routines():
                ifalg(a)
                for ref in a.feedback():
                    ifref(ref)
                for ref in a.previous():
                    ifref(ref)
                for sv in a.state_vectors():
                    ifsv(sv)
                    for i in sv.items():
                        ifv(i)
                    pass
                pass
        elif e == dawgie.Factories.events:
            for m in bot:
                ifmom(m)
        elif e == dawgie.Factories.regress:
            ifret(bot)
            for r in bot.routines():
                ifrec(r)
                for ref in r.feedback():
                    ifref(ref)
                for ref in r.variables():
                    ifref(ref)
                for sv in r.state_vectors():
                    ifsv(sv)
                    for i in sv.items():
                        ifv(i)
                    pass
                pass
        else:
            print(e)
        pass
    return"""

_WALK_LOOP_HELPER = """def visit(product, ifroutine, inputs):
        for routine in product.routines():
            ifroutine(routine)
            for ref in routine.feedback():
                ifref(ref)
            for ref in inputs(routine):
                ifref(ref)
            for vec in routine.state_vectors():
                ifsv(vec)
                for item in vec.items():
                    ifv(item)

    for kind in filter(lambda e: hasattr(mod, e.name), dawgie.Factories):
        product = getattr(mod, kind.name)(*fargs[kind])
        if kind == dawgie.Factories.analysis:
            ifanl(product)
            visit(product, ifanz, lambda x: x.traits())
        elif kind == dawgie.Factories.task:
            ifbot(product)
            visit(product, ifalg, lambda x: x.previous())
        elif kind == dawgie.Factories.regress:
            ifret(product)
            visit(product, ifrec, lambda x: x.variables())
        elif kind == dawgie.Factories.events:
            for moment in product:
                ifmom(moment)
        else:
            print(kind)
    return"""

VARIANTS = [
    V('changeset compared with the stable branch head', 'B', 'tools/submit.py', 'automatic', "'git rev-parse HEAD'.split()", "f'git rev-parse {stable}'.split()", 'R-C16-7'),
    V('rule_06 demands a sub-module', 'B', 'tools/compliant.py', 'rule_06', 'dawgie.util.task_module(prev.factory)\n                    )', "dawgie.util.task_module(prev.factory) + '.'\n                    )", 'R-C16-7'),
    V('scanner skips modules it cannot import', 'B', 'pl/scan.py', 'advanced_factories', 'm = importlib.import_module(modinfo.name)', 'try:\n                    m = importlib.import_module(modinfo.name)\n                except ImportError:\n                    continue', 'R-C16-6'),
    V('scanner logs and re-raises', 'N', 'pl/scan.py', 'advanced_factories', 'm = importlib.import_module(modinfo.name)', 'try:\n                    m = importlib.import_module(modinfo.name)\n                except ImportError:\n                    LOG.error(modinfo.name)\n                    raise', None),
    V('AE root appended to sys.path', 'B', 'tools/compliant.py', 'main', 'sys.path.insert(\n        0, ', 'sys.path.insert(\n        len(sys.path), ', 'R-C16-5'),
    V('rule_08 accepts any callable as a reference factory', 'B', 'tools/compliant.py', 'rule_08', 'inspect.isfunction(ref.factory) or inspect.ismethod(ref.factory)', 'callable(ref.factory)', 'R-C16-4'),
    V('rule_07 only dumps', 'B', 'tools/compliant.py', 'rule_07', 's = pickle.dumps(v)\n            vp = pickle.loads(s)  # noqa: F841', 'pickle.dumps(v)', 'R-C16-4'),
    V('rule_07 round trip in one expression', 'N', 'tools/compliant.py', 'rule_07', 's = pickle.dumps(v)\n            vp = pickle.loads(s)  # noqa: F841', 'pickle.loads(pickle.dumps(v))', None),
    V('rule_11 starts from "algorithm found"', 'B', _C, 'rule_11', 'resolved = [False]', 'resolved = [True]', 'R-C16-8'),
    V('rule_11: a value reference is resolved until proven otherwise', 'B', _C, 'rule_11', 'resolved.append(False)', 'resolved.append(True)', 'R-C16-8'),
    V('rule_11 folded into all() over the matching state vectors', 'B', _C, 'rule_11', "index += 1 resolved.append(False) for sv in alg.state_vectors(): if vref.item.name() == sv.name(): resolved[index] = True resolved.append(vref.feat in sv) index += 1", "resolved.append(all(vref.feat in sv for sv in alg.state_vectors() if vref.item.name() == sv.name()))", 'R-C16-8'),
    V('rule_11 with any()/all() over the matching state vectors', 'N', _C, 'rule_11', "index += 1 resolved.append(False) for sv in alg.state_vectors(): if vref.item.name() == sv.name(): resolved[index] = True resolved.append(vref.feat in sv) index += 1", "hits = [vref.feat in sv for sv in alg.state_vectors() if vref.item.name() == sv.name()]\n                    resolved.append(bool(hits) and all(hits))", 'R-C16-8'),
    # ---- R-C16-1
    V('regress branch uses the routine of another branch again', 'B', _C, '_walk', 'for ref in r.feedback():', 'for ref in a.feedback():', 'R-C16-1'),
    V('task branch reads the regression variable', 'B', _C, '_walk', 'for ref in a.previous():', 'for ref in r.previous():', 'R-C16-1'),
    V('state vector used outside its loop', 'B', _C, '_walk', 'for m in bot: ifmom(m)', 'for m in bot:\n                ifmom(m)\n            ifsv(sv)', 'R-C16-1'),
    # ---- R-C16-3
    V('task branch drops the state-vector hook', 'B', _C, '_walk', 'ifsv(sv)', 'pass', 'R-C16-3', occurrence=1),
    V('regress branch never visits variables()', 'B', _C, '_walk', 'for ref in r.variables():', 'for ref in r.feedback():', 'R-C16-3'),
    V('task branch walks a product made before the loop', 'B', _C, '_walk', 'ifbot(bot) for a in bot.routines():', 'ifbot(bot)\n            for a in mod.task(*fargs[dawgie.Factories.analysis]).routines():', 'R-C16-3'),
    # ---- R-C16-2
    V('status defaults to True', 'B', _C, '_verify', 'status = False', 'status = True', 'R-C16-2'),
    V('exception handler sets the status to True', 'B', _C, '_verify', "logging.exception('Could not process %s', r)", "logging.exception('Could not process %s', r)\n                status = True", 'R-C16-2'),
    V('verdict is any() of the statuses', 'B', _C, '_verify', 'if not all(result): passed = False', 'if not any(result):\n            passed = False', 'R-C16-2'),
    V('one rule is skipped', 'B', _C, '_verify', 'status = False try:', "if r == 'rule_07':\n                continue\n            status = False\n            try:", 'R-C16-2'),
    V('stops after the first task', 'B', _C, '_verify', 'passed = False pass return passed', 'passed = False\n        break\n    return passed', 'R-C16-2'),
    V('prefix filter loses rule_10 and rule_11', 'B', _C, '_get_rules', "k.startswith('rule_')", "k.startswith('rule_0')", 'R-C16-2'),
    V('a non-callable rule_ attribute', 'B', _C, None, 'def _t(*args, **kwds):', 'rule_count = 11\n\n\ndef _t(*args, **kwds):', 'R-C16-2'),
    V('main returns True', 'B', _C, 'main', "print('returning', yes) return yes", "print('returning', yes)\n    return True", 'R-C16-2'),
    V('exit status 0 unconditionally', 'B', _C, None, 'sys.exit(-1)', 'sys.exit(0)', 'R-C16-2'),
    V('exit status 256 wraps to 0', 'B', _C, None, 'sys.exit(-1)', 'sys.exit(256)', 'R-C16-2'),
    V('verify ignores the spawn result', 'B', _C, 'verify', 'return spawn(cmd)', 'spawn(cmd)\n    return True', 'R-C16-2'),
    V('_spawn returns the raw status', 'B', _S, '_spawn', 'return subprocess.call(cmd) == 0', 'return subprocess.call(cmd)', 'R-C16-2'),
    V('auto_merge_compliant returns SUCCESS when verify is falsy', 'B', _S, 'auto_merge_compliant', 'return State.FAILED', 'return State.SUCCESS', 'R-C16-2'),
    V('automatic ignores the gate', 'B', _S, 'automatic', 'status = auto_merge_compliant(changeset, repo, spawn) if status == State.FAILED: return status', 'status = auto_merge_compliant(changeset, repo, spawn)', 'R-C16-2'),
    V('automatic rebases ops before the gate', 'B', _S, 'automatic', 'status = auto_merge_compliant(changeset, repo, spawn)', "git_execute(g, f'git rebase {stable} {ops}')\n        status = auto_merge_compliant(changeset, repo, spawn)", 'R-C16-2'),
    V('finally block resets the ops branch', 'B', _S, 'automatic', "finally: git_execute(g, f'git checkout {ops}')", "finally:\n        git_execute(g, f'git checkout -B {ops}')", 'R-C16-2'),
    V('task branch also taken for regressions', 'B', _C, '_walk', 'elif e == dawgie.Factories.task:', 'elif e in (dawgie.Factories.task, dawgie.Factories.regress):', 'R-C16-3'),
    V('no exit status when the verdict is False', 'B', _C, None, 'if PASSED: sys.exit(0) else: sys.exit(-1)', 'if PASSED:\n        sys.exit(0)', 'R-C16-2'),
    V('main part moved under the import arm of the __name__ test', 'B', _C, None, "if __name__ == '__main__':", "if __name__ != '__main__':", 'R-C16-2'),
    V('_spawn is true for every status that is not a signal', 'B', _S, '_spawn', 'return subprocess.call(cmd) == 0', 'return 0 <= subprocess.call(cmd)', 'R-C16-2'),
    V('rule loop keeps what it should skip', 'B', _C, '_get_rules', "yield from filter( lambda k: k.startswith('rule_'), sorted(dir(dawgie.tools.compliant)) )", "for k in sorted(dir(dawgie.tools.compliant)):\n        if k.startswith('rule_'):\n            continue\n        else:\n            yield k", 'R-C16-2'),
    # ---- benign
    V('__name__ test negated and mirrored', 'N', _C, None, "if __name__ == '__main__':", "if not '__main__' != __name__:", None),
    V('__name__ test by membership', 'N', _C, None, "if __name__ == '__main__':", "if __name__ in ('__main__',):", None),
    V('_spawn: negated inequality, mirrored', 'N', _S, '_spawn', 'return subprocess.call(cmd) == 0', 'return not 0 != subprocess.call(cmd)', None),
    V('_spawn: status in a local, conditional expression with swapped arms', 'N', _S, '_spawn', 'return subprocess.call(cmd) == 0', 'rc = subprocess.call(cmd)\n    return False if rc else True', None),
    V('rules listed by a loop that skips the others (else-first)', 'N', _C, '_get_rules', "yield from filter( lambda k: k.startswith('rule_'), sorted(dir(dawgie.tools.compliant)) )", "for k in sorted(dir(dawgie.tools.compliant)):\n        if not k.startswith('rule_'):\n            continue\n        else:\n            yield k", None),
    V('rule call without try (an exception ends the process)', 'N', _C, '_verify', "try: status = getattr(dawgie.tools.compliant, r)(t) except: # noqa: E722 logging.exception('Could not process %s', r)", 'status = getattr(dawgie.tools.compliant, r)(t)', None),
    V('walk branches factored into one helper with the accessor as a parameter', 'N', _C, '_walk', _WALK_LOOP_FIXED, _WALK_LOOP_HELPER, None),
    V('local rename and intermediate list in the analysis branch', 'N', _C, '_walk', 'for sv in a.state_vectors(): ifsv(sv) for i in sv.items(): ifv(i)', 'vectors = list(a.state_vectors())\n                for vec in vectors:\n                    ifsv(vec)\n                    for item in vec.items():\n                        ifv(item)', None),
    V('task branch visits both reference lists in one loop', 'N', _C, '_walk', 'for ref in a.feedback(): ifref(ref) for ref in a.previous(): ifref(ref)', 'for ref in a.feedback() + a.previous():\n                    ifref(ref)', None, occurrence=0),
    V('kind tested by name', 'N', _C, '_walk', 'elif e == dawgie.Factories.events:', "elif e.name == 'events':", None),
    V('verdict accumulated with and', 'N', _C, '_verify', 'if not all(result): passed = False', 'passed = passed and all(result)', None),
    V('early False return on the first failing task', 'N', _C, '_verify', 'if not all(result): passed = False', 'if not all(result):\n            return False', None),
    V('handler names Exception and resets the status', 'N', _C, '_verify', "except: # noqa: E722 logging.exception('Could not process %s', r)", "except Exception:  # noqa: E722\n                logging.exception('Could not process %s', r)\n                status = False", None),
    V('rules listed with a comprehension', 'N', _C, '_get_rules', "yield from filter( lambda k: k.startswith('rule_'), sorted(dir(dawgie.tools.compliant)) )", "yield from [k for k in sorted(dir(dawgie.tools.compliant)) if k[:5] == 'rule_']", None),
    V('exit status from a conditional expression', 'N', _C, None, 'if PASSED: sys.exit(0) else: sys.exit(-1)', 'sys.exit(0 if PASSED else 1)', None),
    V('auto_merge_compliant with a local and swapped branches', 'N', _S, 'auto_merge_compliant', 'if not dawgie.tools.compliant.verify(repo, True, False, spawn):', 'ok = dawgie.tools.compliant.verify(repo, True, False, spawn)\n    if ok:\n        return State.SUCCESS\n    else:', None),
    V('automatic tests for SUCCESS and logs', 'N', _S, 'automatic', 'status = auto_merge_compliant(changeset, repo, spawn) if status == State.FAILED: return status', "status = auto_merge_compliant(changeset, repo, spawn)\n        logging.info('gate for %s: %s', ops, status)\n        if status != State.SUCCESS:\n            return status", None),
]
