"""C19  The front end never serves files outside its roots nor commands to strangers."""

import ast

from .. import AnalysisError
from ..flow import Flow
from ..report import Report
from ..util import where, mwhere, norm, names_in, call_name, calls_to, arg
from ..variants import V

PID = 'C19'

# typestate of a request-derived path value
T, R, C, E = 'tainted', 'resolved-unchecked', 'contained', 'escaped'


class _Contain(Flow):
    """R-C19-1: path containment typestate over fe._static (B.3 domain: typestate + constant flags)"""

    def __init__(self, func, rule):
        super().__init__()
        self.f = func
        self.rule = rule
        self.sinks = {}  # (lineno,col) -> [call, set(statuses)]
        self.checks = 0

    # state: frozenset of (name, value); value in {T,R,C,E} for paths, True/False for constant flags
    @staticmethod
    def _get(st, name):
        for k, v in st:
            if k == name:
                return v
        return None

    @staticmethod
    def _set(st, name, val):
        s = {(k, v) for k, v in st if k != name}
        if val is not None:
            s.add((name, val))
        return frozenset(s)

    def _status(self, e, st):
        """typestate of the value of expression e"""
        if isinstance(e, ast.Name):
            v = self._get(st, e.id)
            return v if v in (T, R, C, E) else None
        tainted = [n for n in names_in(e) if self._get(st, n) in (T, R, C, E)]
        if not tainted:
            return None
        if isinstance(e, ast.Call) and isinstance(e.func, ast.Attribute) and e.func.attr == 'resolve' and not e.args:
            return R
        return T  # any other derivation must be resolved and checked again

    def on_stmt(self, s, st):
        if isinstance(s, (ast.Assign, ast.AnnAssign)) and s.value is not None:
            targets = s.targets if isinstance(s, ast.Assign) else [s.target]
            for t in targets:
                if isinstance(t, ast.Name):
                    if isinstance(s.value, ast.Constant) and isinstance(s.value.value, bool):
                        st = self._set(st, t.id, s.value.value)
                    elif isinstance(s.value, ast.Name):
                        st = self._set(st, t.id, self._get(st, s.value.id))  # a plain copy keeps typestate or flag value
                    else:
                        st = self._set(st, t.id, self._status(s.value, st))
                elif isinstance(t, ast.Tuple):
                    for el in t.elts:
                        if isinstance(el, ast.Name):
                            st = self._set(st, el.id, self._status(s.value, st))
        elif isinstance(s, ast.AugAssign) and isinstance(s.target, ast.Name):
            cur = self._get(st, s.target.id)
            if cur in (T, R, C, E) or self._status(s.value, st):
                st = self._set(st, s.target.id, T)
        return (st,)

    def on_with(self, item, st):
        return (st,)

    def on_test(self, e, st):
        if isinstance(e, ast.Name):
            v = self._get(st, e.id)
            if v is True:
                return (st,), ()
            if v is False:
                return (), (st,)
            return (st,), (st,)
        if (
            isinstance(e, ast.Call)
            and isinstance(e.func, ast.Attribute)
            and e.func.attr == 'is_relative_to'
            and isinstance(e.func.value, ast.Name)
        ):
            n = e.func.value.id
            v = self._get(st, n)
            self.checks += 1
            if v == R:
                return (self._set(st, n, C),), (self._set(st, n, E),)
            # a check on an unresolved (or already decided) value proves nothing new
            return (st,), (st,)
        return (st,), (st,)

    def on_call(self, call, st):
        n = call_name(call)
        sink_arg = None
        if isinstance(call.func, ast.Name) and n == 'open' and call.args:
            sink_arg = call.args[0]
        elif isinstance(call.func, ast.Attribute) and n in ('read_bytes', 'read_text', 'open') and not (
            isinstance(call.func.value, ast.Name) and call.func.value.id in ('os', 'io')
        ):
            sink_arg = call.func.value
        elif isinstance(call.func, ast.Attribute) and n == 'open' and call.args:
            sink_arg = call.args[0]
        if sink_arg is not None:
            stt = self._status(sink_arg, st)
            k = (call.lineno, call.col_offset)
            self.sinks.setdefault(k, [call, set()])[1].add(stt)
        return (st,)


def _rule1(ctx, rep):
    prog = ctx.prog
    f = prog.nfunc('dawgie.fe._static')
    rep.analysed(f)
    with rep.rule(
        'R-C19-1',
        'every file read in fe._static sees a request-derived path only in typestate contained (resolved, then is_relative_to true) on all paths',
        floor=2,
        breaks='a request path (.., symlink) makes the static service return a file outside the site roots',
    ) as r:
        if 'fn' not in f.params():
            raise AnalysisError('fe._static no longer has the request-path parameter fn')
        fl = _Contain(f, r)
        fl.run(f.node, frozenset({('fn', T)}))
        r.extra['states_visited'] = fl.visited
        r.extra['containment_checks_seen'] = fl.checks
        for (_k, (call, stts)) in sorted(fl.sinks.items()):
            r.instance()
            bad = sorted(s for s in stts if s in (T, R, E))
            key = f'dawgie.fe._static:{norm(call)}'
            r.check(
                not bad,
                key,
                where(f, call),
                f'typestates reaching this read: {sorted(str(s) for s in stts)}',
                f'file read {norm(call)} is reachable with the path in typestate {bad}: the value was not (re)resolved and '
                f'checked against a root on every path to this read',
            )
        if fl.checks == 0:
            r.fail('dawgie.fe._static:no-containment-check', where(f), 'no is_relative_to containment test found')


# ---------------------------------------------------------------------------


def endpoints(prog):
    """[(uri, handler expr, module, call)] from every DynamicContent(f, uri, methods) registration"""
    out = []
    for m in prog.modules.values():
        for n in ast.walk(m.tree):
            if isinstance(n, ast.Call) and call_name(n) == 'DynamicContent' and len(n.args) >= 2:
                if prog.resolve_expr(n.func, m) != 'dawgie.fe.basis.DynamicContent':
                    continue
                uri = n.args[1]
                if not (isinstance(uri, ast.Constant) and isinstance(uri.value, str)):
                    out.append((None, n.args[0], m, n))
                else:
                    out.append((uri.value, n.args[0], m, n))
    return out


_COMMAND_FUNCS = {
    'dawgie.pl.schedule.organize': 'schedules work (run)',
    'dawgie.pl.state.FSM.wait_for_nothing': 'forces a reload (reset)',
    'dawgie.pl.state.FSM.set_submit_info': 'submits a changeset',
    'dawgie.pl.state.FSM.submit_crossroads': 'submits a changeset',
    'dawgie.pl.snapshot.grab': 'takes a snapshot',
    'dawgie.tools.submit.automatic': 'merges a changeset',
}


def _is_command(ctx, handler_q):
    """(reason, path) if the handler reaches a command sink through the call graph (all edge kinds)"""
    prog, cg = ctx.prog, ctx.cg
    reach = cg.reachable([handler_q])
    for q in sorted(reach):
        if q in _COMMAND_FUNCS:
            return _COMMAND_FUNCS[q], cg.path(handler_q, q)
    for q in sorted(reach):
        fn = prog.funcs[q]
        for c in fn.calls():
            sym = prog.callee(c, fn) or ''
            if sym.startswith('dawgie.pl.state.FSM.') and sym.endswith('_trigger'):
                return f'fires FSM trigger {sym.rsplit(".", 1)[1]}', cg.path(handler_q, q)
        for n in fn.own_nodes():
            tg = []
            if isinstance(n, ast.Assign):
                tg = n.targets
            elif isinstance(n, ast.AugAssign):
                tg = [n.target]
            for t in tg:
                if isinstance(t, ast.Attribute) and prog.resolve_in(t, fn) == 'dawgie.pl.farm.ARCHIVE':
                    return 'writes farm.ARCHIVE', cg.path(handler_q, q)
    return None, None


def allow_list(prog, f):
    """string members of the collection(s) that is_sanctioned tests the endpoint against"""
    ep = f.params()[0]
    out, sites = set(), 0
    for n in f.own_nodes():
        if isinstance(n, ast.Compare) and isinstance(n.left, ast.Name) and n.left.id == ep:
            for op, cmp in zip(n.ops, n.comparators):
                if isinstance(op, ast.In):
                    sites += 1
                    vals = [cmp]
                    if isinstance(cmp, ast.Name):
                        vals = [
                            v
                            for s in f.own_nodes()
                            if isinstance(s, ast.Assign)
                            for t in s.targets
                            if isinstance(t, ast.Name) and t.id == cmp.id
                            for v in [s.value]
                        ] or f.module.globals.get(cmp.id, [])
                    elif isinstance(cmp, ast.Attribute):
                        sym = prog.resolve_in(cmp, f) or ''
                        mod, _, name = sym.rpartition('.')
                        vals = prog.modules[mod].globals.get(name, []) if mod in prog.modules else []
                    for v in vals:
                        if isinstance(v, ast.Call) and v.args:  # frozenset([...]) / set((...))
                            v = v.args[0]
                        if not isinstance(v, (ast.List, ast.Tuple, ast.Set)):
                            raise AnalysisError(f'allow-list of is_sanctioned is not a literal collection: {norm(v)[:60]}')
                        for el in v.elts:
                            if not (isinstance(el, ast.Constant) and isinstance(el.value, str)):
                                raise AnalysisError('allow-list element is not a string literal')
                            out.add(el.value)
                elif isinstance(op, ast.Eq) and isinstance(cmp, ast.Constant):
                    sites += 1
                    out.add(cmp.value)
    return out, sites


def _rule2(ctx, rep):
    prog = ctx.prog
    f = prog.nfunc('dawgie.security.is_sanctioned')
    rep.analysed(f)
    with rep.rule(
        'R-C19-2',
        'no endpoint whose handler reaches a command sink (organize, FSM trigger/reset/submit, farm.ARCHIVE, snapshot) is in the anonymous allow-list',
        floor=40,
        breaks='a request without a client certificate can run, reset, submit or snapshot',
    ) as r:
        allowed, sites = allow_list(prog, f)
        if not sites or not allowed:
            raise AnalysisError('is_sanctioned no longer tests the endpoint against an allow-list')
        eps = endpoints(prog)
        r.extra['endpoints'] = len(eps)
        r.extra['allow_list_size'] = len(allowed)
        commands = []
        for uri, hexpr, m, call in eps:
            r.instance()
            if uri is None:
                r.fail(f'{m.name}:{norm(call)[:80]}', mwhere(m, call), 'endpoint registered with a non-literal URI cannot be matched against the allow-list')
                continue
            sym = prog.resolve_expr(hexpr, m)
            hf = prog.func_of(sym)
            if hf is None:
                r.fail(f'{uri}', mwhere(m, call), f'handler {norm(hexpr)} of endpoint {uri} could not be resolved to a repository function')
                continue
            rep.analysed(hf)
            reason, path = _is_command(ctx, hf.qname)
            if reason:
                commands.append(uri)
                r.check(
                    uri not in allowed,
                    f'endpoint:{uri}',
                    mwhere(m, call),
                    f'command endpoint ({reason}) is not in the allow-list',
                    f'command endpoint {uri} ({reason}; path {" -> ".join(path or [])}) is in the anonymous allow-list of is_sanctioned',
                )
            else:
                r.ok(f'endpoint:{uri}', 'read-only handler: no command sink reachable', mwhere(m, call), nontrivial=False)
        r.extra['command_endpoints'] = sorted(commands)
        if len(commands) < 6:
            raise AnalysisError(f'only {len(commands)} command endpoints recognised (expected run/reset/submit/snapshot in api and app): sink table out of date')
        # embedded positive example: the sink recognition must fire on the known command handler
        if '/api/cmd/run' not in commands or '/api/rev/submit' not in commands:
            raise AnalysisError('command recognition lost /api/cmd/run or /api/rev/submit')


class _FailClosed(Flow):
    """which boolean constants can be returned, per normal/exceptional provenance"""

    def __init__(self):
        super().__init__()
        self.returns = []  # (node, state)

    def on_handler(self, h, st):
        return ('exc',)

    def on_return(self, node, st):
        self.returns.append((node, st))
        return (st,)


def _rule3(ctx, rep):
    prog = ctx.prog
    with rep.rule(
        'R-C19-3',
        'access check fails closed and dominates the handler call',
        floor=4,
        breaks='an error inside the access hook, or a handler invoked before the check, lets an anonymous caller through',
    ) as r:
        # (a) security.sanctioned: every path through an except handler, and the fall-through, returns False
        f = prog.nfunc('dawgie.security.sanctioned')
        rep.analysed(f)
        # value-tag flow: state = (mode, frozenset((var, tag))) with mode normal/exc and tags hookfn / hook / false / other
        class FC(Flow):
            def __init__(s):
                super().__init__()
                s.returns = []
                s.hook_calls = []

            @staticmethod
            def tag(e, env):
                if isinstance(e, ast.Constant):
                    return 'false' if e.value is False else 'other'
                if isinstance(e, ast.Name):
                    return dict(env).get(e.id, 'other')
                if isinstance(e, ast.Call):
                    if call_name(e) == '_lookup':
                        return 'hookfn'
                    fn = e.func
                    if (isinstance(fn, ast.Call) and call_name(fn) == '_lookup') or (isinstance(fn, ast.Name) and dict(env).get(fn.id) == 'hookfn'):
                        return 'hook'
                return 'other'

            def on_call(s, call, st):
                if s.tag(call, st[1]) == 'hook':
                    s.hook_calls.append((call, st[0], bool(s._try)))
                return (st,)

            def on_stmt(s, node, st):
                mode, env = st
                if isinstance(node, ast.Assign) and len(node.targets) == 1 and isinstance(node.targets[0], ast.Name):
                    d = dict(env)
                    d[node.targets[0].id] = s.tag(node.value, env)
                    return ((mode, frozenset(d.items())),)
                return (st,)

            def on_handler(s, h, st):
                # whatever was assigned inside the try body may or may not have happened
                mode, env = st
                return (('exc', frozenset((k, v) for k, v in env if v in ('false', 'hookfn'))),)

            def on_return(s, node, st):
                s.returns.append((node, st[0], s.tag(node.value, st[1]) if node.value is not None else 'none'))
                return (st,)

        fl = FC()
        out = fl.run(f.node, ('normal', frozenset()))
        r.instance()
        bad = [node for node, mode, tg in fl.returns if mode == 'exc' and tg not in ('false', 'none')]
        # the verdict handed back on the normal path is the hook's own value (or False)
        tail_ok = all(tg in ('hook', 'false', 'none') for _n, mode, tg in fl.returns if mode == 'normal')
        trys = [n for n in f.own_nodes() if isinstance(n, ast.Try)]
        catch_all = any(
            h.type is None or (isinstance(h.type, ast.Name) and h.type.id in ('Exception', 'BaseException'))
            for t in trys
            for h in t.handlers
        )
        hook_calls = fl.hook_calls
        in_try = bool(hook_calls) and all(intry for _c, _m, intry in hook_calls)
        lookups = [c for c in f.calls() if call_name(c) == '_lookup']
        in_try = in_try and all(any(any(c is x for x in ast.walk(ast.Module(body=t.body, type_ignores=[]))) for t in trys) for c in lookups)
        r.check(
            not bad and tail_ok and catch_all and hook_calls and in_try,
            'dawgie.security.sanctioned:fail-closed',
            where(f),
            'hook call inside try with a catch-all handler; every exceptional path returns the constant False',
            'security.sanctioned can return something other than False after an exception in the access hook '
            f'(catch_all={catch_all}, hook_in_try={bool(in_try)}, tail_false={tail_ok}, bad_returns={[norm(b) for b in bad]})',
        )
        # (b) DynamicContent.__render: the handler call is dominated by the true branch of sanctioned(...)
        g = prog.nfunc('dawgie.fe.basis.DynamicContent._DynamicContent__render')
        rep.analysed(g)

        class Dom(Flow):
            def __init__(self):
                super().__init__()
                self.handler_states = []

            def on_test(self, e, st):
                if isinstance(e, ast.Call) and prog.resolve_in(e.func, g) == 'dawgie.security.sanctioned':
                    return ('granted',), ('denied',)
                return (st,), (st,)

            def on_call(self, call, st):
                if (
                    isinstance(call.func, ast.Attribute)
                    and call.func.attr == '_DynamicContent__fnc'
                    and isinstance(call.func.value, ast.Name)
                    and call.func.value.id == 'self'
                ):
                    self.handler_states.append((call, st))
                return (st,)

        d = Dom()
        d.run(g.node, 'unchecked')
        r.instance()
        if not d.handler_states:
            raise AnalysisError('DynamicContent.__render no longer calls self.__fnc')
        for call, st in d.handler_states:
            r.check(
                st == 'granted',
                f'{g.qname}:{norm(call)}',
                where(g, call),
                'handler call reached only in state granted',
                f'handler call {norm(call)} is reachable in state "{st}" (not dominated by a true sanctioned() test)',
            )
        # sanctioned must be called with the endpoint's own uri and the peer certificate
        sc = calls_to(prog, g, 'dawgie.security.sanctioned')
        r.check(
            len(sc) == 1 and len(sc[0].args) == 2 and norm(sc[0].args[0]) == 'self._DynamicContent__uri',
            f'{g.qname}:sanctioned-args',
            where(g, sc[0] if sc else None),
            'sanctioned(self.__uri, cert)',
            'sanctioned() is not called exactly once with the registered uri of this endpoint',
        )
        # (b') the certificate handed to sanctioned() keeps the anonymity marker: is_sanctioned recognises an anonymous
        # caller by `cert is None`, so a peer certificate that may be None must not be wrapped in a constructor call
        # before the check (added after seeded change C19-4: Certificate(getPeerCertificate()) is never None)
        class Prov(Flow):
            """state = frozenset((var, tag)); tags: raw (peer certificate, may be None), rawnn (peer certificate, known
            not None), none, ok (built from a not-None certificate), lost (built from a certificate that may be None)"""

            def __init__(s):
                super().__init__()
                s.at_check = []

            def tag(s, e, st):
                env = dict(st)
                if isinstance(e, ast.Constant):
                    return 'none' if e.value is None else 'other'
                if isinstance(e, ast.Name):
                    return env.get(e.id, 'other')
                if isinstance(e, ast.IfExp):
                    t, f = s.cond(e.test, {st})
                    tags = {s.tag(e.body, x) for x in t} | {s.tag(e.orelse, x) for x in f}
                    if 'lost' in tags:
                        return 'lost'
                    if len(tags) == 1:
                        return tags.pop()
                    if tags <= {'raw', 'rawnn', 'none', 'ok'}:
                        return 'raw' if tags <= {'raw', 'rawnn', 'none'} else 'ok'
                    return 'other'
                if isinstance(e, ast.Call):
                    fn = e.func
                    if isinstance(fn, ast.Attribute) and fn.attr == 'getPeerCertificate':
                        return 'raw'
                    if isinstance(fn, ast.Call) and call_name(fn) == 'getattr' and len(fn.args) >= 2 and isinstance(fn.args[1], ast.Constant) and fn.args[1].value == 'getPeerCertificate':
                        return 'raw'
                    inner = {s.tag(a, st) for a in list(e.args) + [k.value for k in e.keywords]}
                    if 'raw' in inner or 'lost' in inner:
                        return 'lost'
                    if 'rawnn' in inner or 'ok' in inner:
                        return 'ok'
                return 'other'

            def on_stmt(s, node, st):
                if isinstance(node, ast.Assign) and len(node.targets) == 1 and isinstance(node.targets[0], ast.Name):
                    d = dict(st)
                    d[node.targets[0].id] = s.tag(node.value, st)
                    return (frozenset(d.items()),)
                return (st,)

            def on_test(s, e, st):
                env = dict(st)

                def split(name, none_when_true):
                    if env.get(name) == 'none':  # already known to be None on this path
                        return ((st,), ()) if none_when_true else ((), (st,))
                    if env.get(name) == 'rawnn':  # already known not to be None
                        return ((), (st,)) if none_when_true else ((st,), ())
                    if env.get(name) != 'raw':
                        return (st,), (st,)
                    a = frozenset({**env, name: 'none'}.items())
                    b = frozenset({**env, name: 'rawnn'}.items())
                    return ((a,), (b,)) if none_when_true else ((b,), (a,))

                if isinstance(e, ast.Name):
                    return split(e.id, False)
                if isinstance(e, ast.Compare) and len(e.ops) == 1 and isinstance(e.left, ast.Name) and isinstance(e.comparators[0], ast.Constant) and e.comparators[0].value is None:
                    if isinstance(e.ops[0], (ast.Is, ast.Eq)):
                        return split(e.left.id, True)
                    if isinstance(e.ops[0], (ast.IsNot, ast.NotEq)):
                        return split(e.left.id, False)
                return (st,), (st,)

            def on_call(s, call, st):
                if prog.resolve_in(call.func, g) == 'dawgie.security.sanctioned' and len(call.args) == 2:
                    s.at_check.append((call, s.tag(call.args[1], st)))
                return (st,)

        pv = Prov()
        pv.run(g.node, frozenset())
        r.instance()
        if not pv.at_check:
            raise AnalysisError('DynamicContent.__render: no sanctioned(uri, cert) call reached')
        lost = [c for c, tg in pv.at_check if tg == 'lost']
        r.check(
            not lost,
            f'{g.qname}:anonymity-marker',
            where(g, lost[0] if lost else pv.at_check[0][0]),
            'the certificate passed to sanctioned() is the transport peer certificate itself, None, or built from it only where it is known not to be None',
            'the certificate passed to sanctioned() is built by a call from a peer certificate that may be None: the result is never None, so '
            'is_sanctioned (which recognises an anonymous caller by `cert is None`) treats every caller on a TLS transport as certified',
        )
        # the identity of the caller is what the TLS transport vouches for, nothing the caller sends (added after seeded
        # change C19-11: a certificate taken from an X-SSL-Client-Cert request header when the connection had none)
        r.instance()
        foreign = [c for c, tg in pv.at_check if tg == 'other']
        r.check(
            not foreign,
            f'{g.qname}:certificate-from-transport',
            where(g, foreign[0] if foreign else pv.at_check[0][0]),
            'the certificate passed to sanctioned() derives from the transport peer certificate on every path',
            'on some path the certificate passed to sanctioned() does not come from the peer certificate of the connection (' + (norm(foreign[0].args[1])[:40] if foreign else '') +
            ' is bound to something else, e.g. request data): a caller without a client certificate can present a known public certificate and is treated as that client',
        )
        # (c) every render_* goes through __render
        cls = prog.cls('dawgie.fe.basis.DynamicContent')
        for name, m in sorted(cls.methods.items()):
            if name.startswith('render_'):
                r.instance()
                rep.analysed(m)
                rets = [n for n in m.own_nodes() if isinstance(n, ast.Return)]
                ok = (
                    len(rets) == 1
                    and isinstance(rets[0].value, ast.Call)
                    and prog.resolve_in(rets[0].value.func, m) == g.qname
                    and len(m.node.body) == 1
                )
                r.check(ok, f'{m.qname}:via-render', where(m), 'returns self.__render(...) and nothing else', f'{name} does not simply delegate to __render (the access check could be bypassed)')
        # (d) is_sanctioned: with certificates configured, anonymous + unlisted endpoint -> False
        h = prog.nfunc('dawgie.security.is_sanctioned')

        class IS(Flow):
            """state = (clients configured?, cert is None?, endpoint listed?) each in {True, False, '?'}"""

            def __init__(self):
                super().__init__()
                self.rets = []

            def on_stmt(self, s, st):
                # boolean local holding a test: is_anonymous = cert is None
                if isinstance(s, ast.Assign) and len(s.targets) == 1 and isinstance(s.targets[0], ast.Name) and isinstance(s.value, (ast.Compare, ast.BoolOp, ast.UnaryOp, ast.Call)):
                    self.alias = getattr(self, 'alias', {})
                    self.alias[s.targets[0].id] = s.value
                return (st,)

            def on_test(self, e, st):
                cl, cn, li = st
                txt = norm(e)
                if isinstance(e, ast.Name) and e.id in getattr(self, 'alias', {}):
                    return self.cond(self.alias[e.id], {st})
                if isinstance(e, ast.Call) and call_name(e) in ('clients', 'use_client_verification'):
                    return ((True, cn, li),) if cl in ('?', True) else (), ((False, cn, li),) if cl in ('?', False) else ()
                if txt == 'cert is None':
                    return ((cl, True, li),) if cn in ('?', True) else (), ((cl, False, li),) if cn in ('?', False) else ()
                if txt == 'cert is not None' or txt == 'cert':
                    return ((cl, False, li),) if cn in ('?', False) else (), ((cl, True, li),) if cn in ('?', True) else ()
                if isinstance(e, ast.Compare) and isinstance(e.left, ast.Name) and e.left.id == h.params()[0]:
                    if isinstance(e.ops[0], ast.In) or isinstance(e.ops[0], ast.Eq):
                        return ((cl, cn, True),) if li in ('?', True) else (), ((cl, cn, False),) if li in ('?', False) else ()
                    if isinstance(e.ops[0], ast.NotIn):
                        return ((cl, cn, False),) if li in ('?', False) else (), ((cl, cn, True),) if li in ('?', True) else ()
                return (st,), (st,)

            def on_return(self, node, st):
                v = node.value
                if isinstance(v, (ast.Compare, ast.BoolOp, ast.UnaryOp)) or (isinstance(v, ast.Name) and v.id in getattr(self, 'alias', {})):
                    # `return <test>`: the returned value is the truth of the test
                    t, f = self.cond(v, {st})
                    for s2 in t:
                        self.rets.append((ast.Return(value=ast.Constant(value=True)), s2))
                    for s2 in f:
                        self.rets.append((ast.Return(value=ast.Constant(value=False)), s2))
                    return (st,)
                self.rets.append((node, st))
                return (st,)

        i = IS()
        o = i.run(h.node, ('?', '?', '?'))
        r.instance()
        rep.analysed(h)
        bad = []
        covered = False
        for node, (cl, cn, li) in i.rets:
            may_be_anon_unlisted = cl in (True, '?') and cn in (True, '?') and li in (False, '?')
            if cl is True and cn is True and li is False:
                covered = True
            if may_be_anon_unlisted and not (isinstance(node.value, ast.Constant) and node.value.value is False):
                # a return reached by (clients, anonymous, unlisted) must be False
                if cl is True and cn is True and li is False or '?' in (cl, cn, li) and not (cl is False):
                    if not (cl is True and cn is True and li is True):
                        bad.append((node, (cl, cn, li)))
        # filter: returns whose state cannot be (True, True, False) are fine
        bad = [b for b in bad if b[1][0] in (True, '?') and b[1][1] in (True, '?') and b[1][2] in (False, '?')]
        r.check(
            not bad and covered and not o.normal,
            'dawgie.security.is_sanctioned:anonymous-unlisted-denied',
            where(h),
            'the path (certificates configured, cert is None, endpoint not listed) returns the constant False',
            'is_sanctioned can grant an unlisted endpoint to an anonymous caller while client certificates are configured: '
            + '; '.join(f'{norm(n)} in state clients={s[0]} anonymous={s[1]} listed={s[2]}' for n, s in bad)
            + ('' if covered else ' (no return found for that case)'),
        )


def _rule4(ctx, rep):
    """the switch "client certificates are configured" (added after seeded change C19-8: security.clients() left expired
    certificates out; with every configured certificate expired the list was empty and is_sanctioned took its
    "no clients configured: everything is accessible" branch for anonymous callers)"""
    prog = ctx.prog
    with rep.rule(
        'R-C19-4',
        'what is_sanctioned tests to decide whether client certificates are configured is the configured list itself: security.clients() returns the module list of loaded certificates (or a copy of it), not a selection from it',
        floor=1,
        breaks='a filter on that list (expiry, issuer, ...) can make it empty although certificates are configured: the command end points open up to anonymous callers',
    ) as r:
        f = prog.nfunc('dawgie.security.clients')
        rep.analysed(f)
        r.instance()
        rets = [n for n in f.own_nodes() if isinstance(n, ast.Return) and n.value is not None]

        def whole(e):
            if isinstance(e, ast.Name):
                return e.id in f.module.globals
            if isinstance(e, ast.Call) and isinstance(e.func, ast.Attribute) and e.func.attr == 'copy' and not e.args:
                return whole(e.func.value)
            if isinstance(e, ast.Call) and isinstance(e.func, ast.Name) and e.func.id in ('list', 'tuple') and len(e.args) == 1:
                return whole(e.args[0])
            if isinstance(e, ast.Subscript) and isinstance(e.slice, ast.Slice) and e.slice.lower is None and e.slice.upper is None and e.slice.step is None:
                return whole(e.value)
            return False

        r.check(
            bool(rets) and all(whole(n.value) for n in rets),
            f'{f.qname}:whole-configured-list',
            where(f, rets[0] if rets else None),
            'returns the loaded certificates unfiltered',
            f'{f.qname} returns {norm(rets[0].value)[:70] if rets else "nothing"}: a selection from the configured certificates; is_sanctioned reads an empty result as "no client certificates configured"',
        )


def check(ctx):
    rep = Report(
        PID,
        ctx.tier,
        ctx.prog,
        'Decides, from the source of fe/__init__.py, fe/basis.py, security.py and every DynamicContent registration: '
        '(1) path-sensitive typestate that every file read of the static service sees a resolved-and-contained path; '
        '(2) the anonymous allow-list contains no endpoint whose handler reaches a command sink in the call graph; '
        '(3) the access wrapper fails closed, dominates the handler call, and every render_* goes through it. '
        'Not decided: percent-decoding/normalisation done by Twisted before the resource sees the URI, TLS client verification.',
        assumptions=['pathlib.resolve() follows symlinks; is_relative_to is exact on resolved paths', 'Twisted calls render_<METHOD> only'],
    )
    rep.not_decided = ['URI normalisation performed by Twisted', 'TLS client-certificate verification', 'behaviour of an identity/sanction override supplied by the deployment']
    _rule1(ctx, rep)
    _rule2(ctx, rep)
    _rule3(ctx, rep)
    _rule4(ctx, rep)
    return rep


VARIANTS = [
    V('certificate taken from a request header when the transport has none', 'B', 'fe/basis.py', 'DynamicContent.__render', 'else:\n            cert = None', "else:\n            cert = None\n        if cert is None:\n            cert = request.getHeader('x-ssl-client-cert')", 'R-C19-3'),
    V('certificate looked up through a local for the transport', 'N', 'fe/basis.py', 'DynamicContent.__render', 'cert = request.transport.getPeerCertificate()', 'transport = request.transport\n            cert = transport.getPeerCertificate()', None),

    V('valid flag test removed', 'B', 'fe/__init__.py', '_static', 'if valid and ffn.is_file():', 'if ffn.is_file():', 'R-C19-1'),
    V('containment checked on unresolved path', 'B', 'fe/__init__.py', '_static', 'ffn = (d / fn).resolve()', 'ffn = d / fn', 'R-C19-1'),
    V('index.html appended without re-resolve', 'B', 'fe/__init__.py', '_static', "ffn = (ffn / 'index.html').resolve()", "ffn = ffn / 'index.html'", 'R-C19-1'),
    V('run command added to allow-list', 'B', 'security.py', 'is_sanctioned', "'/api/ae/name',", "'/api/ae/name', '/api/cmd/run',", 'R-C19-2'),
    V('legacy reset added to allow-list', 'B', 'security.py', 'is_sanctioned', "'/app/versions',", "'/app/versions', '/app/reset',", 'R-C19-2'),
    V('sanctioned returns True on error', 'B', 'security.py', 'sanctioned', 'return False', 'return True', 'R-C19-3'),
    V('handler called before the check', 'B', 'fe/basis.py', 'DynamicContent.__render', 'if not dawgie.security.sanctioned(self.__uri, cert):', 'resp = self.__fnc()\n        if not dawgie.security.sanctioned(self.__uri, cert):', 'R-C19-3'),
    V('anonymous unlisted granted', 'B', 'security.py', 'is_sanctioned', 'if cert is None:\n            return False', 'if cert is None:\n            return True', 'R-C19-3'),
    V('render_PUT bypasses check', 'B', 'fe/basis.py', 'DynamicContent.render_PUT', 'return self.__render(req, HttpMethod.PUT)', 'return self.__fnc()', 'R-C19-3'),
    V('peer certificate wrapped before the check', 'B', 'fe/basis.py', 'DynamicContent.__render', 'cert = request.transport.getPeerCertificate()', 'cert = dict(x509=request.transport.getPeerCertificate())', 'R-C19-3'),
    V('peer certificate wrapped only when present', 'N', 'fe/basis.py', 'DynamicContent.__render', 'cert = request.transport.getPeerCertificate()', 'raw = request.transport.getPeerCertificate()\n            cert = dict(x509=raw) if raw is not None else None', None),
    V('clients() leaves expired certificates out', 'B', 'security.py', 'clients', 'return _certs.copy()', 'return [c for c in _certs if not c.original.has_expired()]', 'R-C19-4'),
    V('clients() as list()', 'N', 'security.py', 'clients', 'return _certs.copy()', 'return list(_certs)', None),
    V('rename flag', 'N', 'fe/__init__.py', '_static', 'if valid and ffn.is_file():', 'if ffn.is_file() and valid:', None),
    V('read-only endpoint added to allow-list', 'N', 'security.py', 'is_sanctioned', "'/api/ae/name',", "'/api/ae/name', '/api/some/new/view',", None),
]
