"""C14  Message streams are fragmentation-proof and gated by the handshake.

R-C14-1  the four reassembly loops, by symbolic execution of one loop iteration from every header/body state
R-C14-2  the handshake gate of security.TwistedWrapper (install, restore, residual hand-over, failure closes)
R-C14-3  framing agreement (width / byte order) of every struct.pack / struct.unpack of the channels
R-C14-4  blocking (client side) receivers accumulate until the announced size
"""

import ast
import re
import struct as _struct
from collections import namedtuple

from .. import AnalysisError
from ..flow import Flow, Out, call_name
from ..report import Report
from ..util import where, mwhere, norm
from ..variants import V

PID = 'C14'

WRAPPER = 'dawgie.security.TwistedWrapper'
LOOP_ANCHORS = (
    'dawgie.pl.farm.Hand.dataReceived',
    'dawgie.db.shelve.comms.Worker.dataReceived',
    'dawgie.pl.logger.LogSink.dataReceived',
    'dawgie.security.TwistedWrapper.process',
)
ANCHOR_MODULES = (
    'dawgie.pl.farm',
    'dawgie.db.shelve.comms',
    'dawgie.pl.logger',
    'dawgie.security',
    'dawgie.pl.message',
)

NONE = ('none',)
_MUTATORS = {
    'append', 'extend', 'insert', 'remove', 'pop', 'clear', 'update', 'add', 'discard', 'setdefault', 'sort',
    'reverse', 'popitem',
}
# length fields: big-endian (network) unsigned 4-byte; '!' is the same byte order, 'L' the same width with '>'/'!'
_FMT_OK = re.compile(r'^[>!][IL]+$')


def INT(k):
    return ('int', k)


def loc_of(node):
    """canonical storage location of an lvalue-like expression: local name, self.attr, self.attr['key']"""
    if isinstance(node, ast.Name):
        return node.id
    if isinstance(node, ast.Attribute) and isinstance(node.value, ast.Name) and node.value.id == 'self':
        return 'self.' + node.attr
    if (
        isinstance(node, ast.Subscript)
        and isinstance(node.slice, ast.Constant)
        and isinstance(node.slice.value, str)
    ):
        b = loc_of(node.value)
        if b is not None and b.startswith('self.'):
            return f'{b}[{node.slice.value!r}]'
    return None


def base_of(loc):
    return loc.split('[')[0]


def attr_of(loc):
    return base_of(loc)[5:]


def data_param(f):
    p = f.params()
    if not f.is_staticmethod() and p and p[0] in ('self', 'cls'):
        p = p[1:]
    return p[0] if p else None


def _flat_targets(tg):
    out = []
    for t in tg:
        if isinstance(t, (ast.Tuple, ast.List)):
            out.extend(_flat_targets(t.elts))
        elif isinstance(t, ast.Starred):
            out.extend(_flat_targets([t.value]))
        else:
            out.append(t)
    return out


def _is_unpack(prog, f, node):
    return isinstance(node, ast.Call) and prog.resolve_in(node.func, f) == 'external:struct.unpack'


def _local_values(f, name):
    out = []
    for n in f.own_nodes():
        if isinstance(n, ast.Assign):
            for t in _flat_targets(n.targets):
                if isinstance(t, ast.Name) and t.id == name:
                    out.append(n.value if len(n.targets) == 1 and t is n.targets[0] else None)
        elif isinstance(n, (ast.AugAssign, ast.AnnAssign)) and isinstance(n.target, ast.Name) and n.target.id == name:
            out.append(n.value if isinstance(n, ast.AnnAssign) else None)
        elif isinstance(n, (ast.For, ast.comprehension)):
            if any(isinstance(x, ast.Name) and x.id == name for x in ast.walk(n.target)):
                out.append(None)
    return out


class ClassInfo:
    """who writes which attribute of self, inside one class (all methods, closures included)"""

    def __init__(self, prog, cls):
        self.prog = prog
        self.cls = cls
        self.writes = {}  # loc -> [(func, value node | None)]
        self.methods = [f for f in prog.funcs.values() if f.cls is cls]
        self._mw = {}
        for f in self.methods:
            self._scan(f)

    def _w(self, loc, f, v):
        self.writes.setdefault(loc, []).append((f, v))
        if isinstance(v, ast.Dict):
            for k, val in zip(v.keys, v.values):
                if isinstance(k, ast.Constant) and isinstance(k.value, str):
                    self.writes.setdefault(f'{loc}[{k.value!r}]', []).append((f, val))

    def _scan(self, f):
        for n in f.own_nodes():
            tg, v = [], None
            if isinstance(n, ast.Assign):
                tg, v = n.targets, n.value
            elif isinstance(n, ast.AnnAssign) and n.value is not None:
                tg, v = [n.target], n.value
            elif isinstance(n, ast.AugAssign):
                tg, v = [n.target], n
            elif isinstance(n, ast.Delete):
                tg, v = n.targets, None
            elif isinstance(n, ast.Call):
                cn = call_name(n)
                if (
                    isinstance(n.func, ast.Name)
                    and cn in ('setattr', 'delattr')
                    and len(n.args) >= 2
                    and isinstance(n.args[0], ast.Name)
                    and n.args[0].id == 'self'
                ):
                    a = n.args[1]
                    name = a.value if isinstance(a, ast.Constant) and isinstance(a.value, str) else '*'
                    self._w('self.' + name, f, n.args[2] if len(n.args) > 2 else None)
                elif isinstance(n.func, ast.Attribute) and cn in _MUTATORS:
                    l = loc_of(n.func.value)
                    if l is not None and l.startswith('self.'):
                        self._w(l, f, None)
                continue
            flat = _flat_targets(tg)
            for t in flat:
                l = loc_of(t)
                if l is not None:
                    if l.startswith('self.'):
                        self._w(l, f, v if len(flat) == 1 else None)
                    continue
                # self.x[<non constant>] = ... / self.x.y = ...  -> unknown write to self.x
                b = t
                while isinstance(b, (ast.Subscript, ast.Attribute)):
                    lb = loc_of(b)
                    if lb is not None and lb.startswith('self.'):
                        self._w(lb, f, None)
                        break
                    b = b.value

    def writes_of(self, loc):
        out = list(self.writes.get(loc, []))
        if '[' in loc:
            key = loc[loc.index('[') + 1 : -1]
            for f, v in self.writes.get(base_of(loc), []):
                if isinstance(v, ast.Dict) and any(
                    isinstance(k, ast.Constant) and repr(k.value) == key for k in v.keys
                ):
                    continue  # expanded by _w
                out.append((f, None))
        out.extend(self.writes.get('self.*', []))
        return out

    def const_node(self, loc):
        """(func, value) when the location is written exactly once, in __init__"""
        ws = self.writes_of(loc)
        if len(ws) == 1 and ws[0][0].name == '__init__' and ws[0][0].parent is None and ws[0][1] is not None:
            if isinstance(ws[0][1], ast.AugAssign):
                return None
            return ws[0]
        return None

    def self_targets(self, call, f):
        """repo functions a call on self may run: None = not a call on self; (kind, [funcs] | None)"""
        fn = call.func
        if isinstance(fn, ast.Attribute) and isinstance(fn.value, ast.Name) and fn.value.id == 'self':
            m = self.prog.method(self.cls.qname, fn.attr)
            if m is not None:
                return 'method', [m]
            vals = self.writes_of('self.' + fn.attr)
            out = []
            for _g, v in vals:
                if (
                    isinstance(v, ast.Attribute)
                    and isinstance(v.value, ast.Name)
                    and v.value.id == 'self'
                    and self.prog.method(self.cls.qname, v.attr) is not None
                ):
                    out.append(self.prog.method(self.cls.qname, v.attr))
                elif isinstance(v, ast.Constant) and v.value is None:
                    continue
                else:
                    return 'slot', None
            return 'slot', out
        sym = self.prog.callee(call, f)
        g = self.prog.func_of(sym) if sym else None
        if g is not None and g.cls is self.cls and sym not in self.prog.classes:
            return 'method', [g]
        return None

    def is_method_slot(self, loc):
        """the attribute only ever holds bound methods of this class"""
        ws = self.writes_of(loc)
        return bool(ws) and all(
            isinstance(v, ast.Attribute)
            and isinstance(v.value, ast.Name)
            and v.value.id == 'self'
            and self.prog.method(self.cls.qname, v.attr) is not None
            for _f, v in ws
        )

    def maywrite(self, f, _stack=()):
        """locations of self that running f may write (transitively through calls on self); '*' = anything"""
        if f.qname in self._mw:
            return self._mw[f.qname]
        if f in _stack:
            return set()
        out = {l for l, ws in self.writes.items() if any(g is f for g, _v in ws)}
        if 'self.*' in out:
            out.add('*')
        for c in f.calls():
            t = self.self_targets(c, f)
            if t is None:
                continue
            if t[1] is None:
                out.add('*')
                continue
            for g in t[1]:
                out |= self.maywrite(g, _stack + (f,))
        if not _stack:
            self._mw[f.qname] = out
        return out

    def kind_of_value(self, v, f, depth=0):
        """'none' | 'int' | 'unknown' for a value written to the expected-length state"""
        if v is None or depth > 3:
            return 'unknown'
        if isinstance(v, ast.Constant):
            if v.value is None:
                return 'none'
            if isinstance(v.value, int) and not isinstance(v.value, bool):
                return 'int'
            return 'unknown'
        if isinstance(v, ast.Call) and isinstance(v.func, ast.Name) and v.func.id == 'len':
            return 'int'
        if isinstance(v, ast.BinOp) and isinstance(v.op, (ast.Add, ast.Sub, ast.Mult)):
            ks = {self.kind_of_value(v.left, f, depth + 1), self.kind_of_value(v.right, f, depth + 1)}
            return 'int' if ks == {'int'} else 'unknown'
        if isinstance(v, ast.Subscript) and isinstance(v.slice, ast.Constant) and isinstance(v.slice.value, int):
            b = v.value
            if _is_unpack(self.prog, f, b):
                return 'int'
            if isinstance(b, ast.Name):
                vals = _local_values(f, b.id)
                if vals and all(x is not None and _is_unpack(self.prog, f, x) for x in vals):
                    return 'int'
            return 'unknown'
        if isinstance(v, ast.Name):
            vals = _local_values(f, v.id)
            if vals and all(self.kind_of_value(x, f, depth + 1) == 'int' for x in vals):
                return 'int'
        return 'unknown'


_STORES = {}


def attr_stores(prog):
    """attribute name -> [(func, node)] for every store/delete of that attribute (and setattr with a literal name)"""
    k = id(prog)
    if k not in _STORES:
        m = {}
        for f in prog.funcs.values():
            for n in f.own_nodes():
                if isinstance(n, ast.Attribute) and isinstance(n.ctx, (ast.Store, ast.Del)):
                    m.setdefault(n.attr, []).append((f, n))
                elif (
                    isinstance(n, ast.Call)
                    and isinstance(n.func, ast.Name)
                    and n.func.id in ('setattr', 'delattr')
                    and len(n.args) >= 2
                    and isinstance(n.args[1], ast.Constant)
                    and isinstance(n.args[1].value, str)
                ):
                    m.setdefault(n.args[1].value, []).append((f, n))
        _STORES.clear()
        _STORES[k] = (m, prog)
    return _STORES[k][0]


# ---------------------------------------------------------------------------
# R-C14-1: symbolic execution of the reassembly loops
#
# Values are terms: ('none',) ('int',k) ('bytes',b) ('param',p) ('nn',loc) [opaque non-None value a location holds
# at the start of an iteration] ('hv',loc,g) [value after a call on self that may write loc] ('cat',a,b)
# ('front',b,n)=b[:n] ('drop',b,n)=b[n:] ('len',b) ('add',len,int) ('unpack',fmt,s) ('idx',v,k) ('top',text).
# Facts are ordering relations (rel, amount, buffer) meaning  amount REL len(buffer)  learnt from branch outcomes.

_St = namedtuple('_St', 'env facts flags it gen')
_It = namedtuple('_It', 'lhead amount consumed used')
_NEG = {'le': 'gt', 'lt': 'ge', 'gt': 'le', 'ge': 'lt'}
_IMPL = {'lt': {'lt', 'le'}, 'le': {'le'}, 'gt': {'gt', 'ge'}, 'ge': {'ge'}}
_FLIP = {'le': 'ge', 'lt': 'gt', 'gt': 'lt', 'ge': 'le'}
_OPS = {ast.LtE: 'le', ast.Lt: 'lt', ast.Gt: 'gt', ast.GtE: 'ge'}


def _has(v, tag):
    if isinstance(v, tuple):
        if v and v[0] == tag:
            return True
        return any(_has(x, tag) for x in v)
    return False


def _eget(st, loc):
    for k, v in st.env:
        if k == loc:
            return v
    return None


def _eset(st, loc, val):
    return st._replace(env=frozenset({(k, v) for k, v in st.env if k != loc} | {(loc, val)}))


def _flag(st, *names):
    return st._replace(flags=st.flags | set(names))


def _unflag(st, name):
    return st._replace(flags=st.flags - {name})


class _Loop(Flow):
    def __init__(self, prog, func, ci, bufloc, lenloc, kinds, param, ext_nodes, slotloc=None):
        super().__init__()
        self.prog, self.func, self.ci = prog, func, ci
        self.bufloc, self.lenloc, self.kinds, self.param = bufloc, lenloc, kinds, param
        self.slotloc = slotloc
        self.ext_nodes = ext_nodes  # ids of the Name nodes through which the received data extends the buffer
        self.BH = ('nn', bufloc)
        self.LH = ('nn', lenloc)
        self.parent = {id(c): p for p in ast.walk(func.node) for c in ast.iter_child_nodes(p)}
        self.problems = {}  # (clause, text) -> (node, msg)
        self.counts = {}
        self.hdr = set()  # (width, fmt) of decoded headers
        self.exit_widths = set()
        self.param_reads = {}
        self.loops = 0
        self._const = {}

    # ------------------------------------------------------------ bookkeeping
    def problem(self, clause, node, msg):
        self.problems.setdefault((clause, _short(node)), (node, msg))

    def count(self, what):
        self.counts[what] = self.counts.get(what, 0) + 1

    # ----------------------------------------------------------------- values
    def is_buf(self, v):
        return _has_loc(v, self.bufloc)

    def nullness(self, v):
        if v == NONE:
            return 'none'
        if v[0] in ('int', 'nn', 'len', 'add', 'cat', 'front', 'drop', 'bytes', 'pack', 'bool', 'str'):
            return 'nonnull'
        if v[0] == 'idx' and v[1][0] == 'unpack':
            return 'nonnull'
        if v[0] == 'hv' and v[1] == self.lenloc and self.kinds == {'int'}:
            return 'nonnull'
        if v[0] == 'hv' and v[1] == self.bufloc:
            return 'nonnull'
        return 'unknown'

    def read(self, loc, st):
        v = _eget(st, loc)
        if v is not None:
            return v
        if loc.startswith('self.'):
            if loc not in self._const:
                c = self.ci.const_node(loc)
                val = ('init', loc)
                if c is not None:
                    saved, self.func = self.func, c[0]
                    try:
                        cv = self.sym(c[1], _St(frozenset(), frozenset(), frozenset(), None, 0))
                    finally:
                        self.func = saved
                    if cv[0] in ('int', 'none', 'bytes'):
                        val = cv
                self._const[loc] = val
            return self._const[loc]
        return ('name', loc)

    def sym(self, e, st):
        if isinstance(e, ast.Constant):
            v = e.value
            if v is None:
                return NONE
            if isinstance(v, bool):
                return ('bool', v)
            if isinstance(v, int):
                return INT(v)
            if isinstance(v, bytes):
                return ('bytes', v)
            if isinstance(v, str):
                return ('str', v)
            return ('top', 'const')
        l = loc_of(e)
        if l is not None:
            return self.read(l, st)
        if isinstance(e, ast.Subscript):
            base = self.sym(e.value, st)
            sl = e.slice
            if isinstance(sl, ast.Slice):
                if sl.step is None and sl.lower is None and sl.upper is not None:
                    return ('front', base, self.sym(sl.upper, st))
                if sl.step is None and sl.upper is None and sl.lower is not None:
                    return ('drop', base, self.sym(sl.lower, st))
                return ('top', norm(e))
            if isinstance(sl, ast.Constant) and isinstance(sl.value, int):
                return ('idx', base, sl.value)
            return ('top', norm(e))
        if isinstance(e, ast.Call):
            if isinstance(e.func, ast.Name) and e.func.id == 'len' and len(e.args) == 1 and not e.keywords:
                a = self.sym(e.args[0], st)
                if a[0] == 'pack':
                    return INT(a[2])
                if a[0] == 'bytes':
                    return INT(len(a[1]))
                return ('len', a)
            q = self.prog.resolve_in(e.func, self.func)
            if q in ('external:struct.pack', 'external:struct.unpack') and e.args:
                fmt = e.args[0]
                if isinstance(fmt, ast.Constant) and isinstance(fmt.value, str):
                    try:
                        size = _struct.calcsize(fmt.value)
                    except _struct.error:
                        return ('top', norm(e))
                    if q.endswith('.pack'):
                        return ('pack', fmt.value, size)
                    if len(e.args) == 2:
                        return ('unpack', fmt.value, self.sym(e.args[1], st))
            return ('top', norm(e))
        if isinstance(e, ast.BinOp) and isinstance(e.op, ast.Add):
            a, b = self.sym(e.left, st), self.sym(e.right, st)
            if a[0] == 'int' and b[0] == 'int':
                return INT(a[1] + b[1])
            if a[0] == 'len' and b[0] == 'int':
                return ('add', a, b)
            if b[0] == 'len' and a[0] == 'int':
                return ('add', b, a)
            return ('cat', a, b)
        if isinstance(e, ast.IfExp):
            d = self.decide(e.test, st)
            if d is True:
                return self.sym(e.body, st)
            if d is False:
                return self.sym(e.orelse, st)
            return ('top', norm(e))
        return ('top', norm(e))

    def decide(self, test, st):
        if isinstance(test, ast.UnaryOp) and isinstance(test.op, ast.Not):
            d = self.decide(test.operand, st)
            return None if d is None else not d
        if isinstance(test, (ast.BoolOp, ast.Call)):
            return None
        t, f = self.on_test(test, st)
        t, f = list(t), list(f)
        if t and not f:
            return True
        if f and not t:
            return False
        return None

    # ------------------------------------------------------------------ tests
    def rel_test(self, st, rel, a, B):
        truth = None
        if a[0] == 'add' and a[1] == ('len', B) and a[2][0] == 'int' and a[2][1] > 0:
            truth = rel in ('gt', 'ge')  # accepted idiom: needed := len(buffer) + k  makes the guard false (leave the loop)
        elif a == ('len', B):
            truth = rel in ('le', 'ge')
        else:
            for r2, a2, b2 in st.facts:
                if a2 == a and b2 == B:
                    if rel in _IMPL[r2]:
                        truth = True
                    elif _NEG[rel] in _IMPL[r2]:
                        truth = False
        T = st._replace(facts=st.facts | {(rel, a, B)})
        F = st._replace(facts=st.facts | {(_NEG[rel], a, B)})
        if truth is True:
            return (T,), ()
        if truth is False:
            return (), (F,)
        return (T,), (F,)

    def is_slot_call(self, e):
        return (
            self.slotloc is not None
            and isinstance(e, ast.Call)
            and loc_of(e.func) == self.slotloc
        )

    def on_test(self, e, st):
        if isinstance(e, ast.Compare) and len(e.ops) == 1:
            op = e.ops[0]
            L, R = e.left, e.comparators[0]
            lv, rv = self.sym(L, st), self.sym(R, st)
            if isinstance(op, (ast.Is, ast.IsNot, ast.Eq, ast.NotEq)) and (lv == NONE or rv == NONE):
                other, node = (rv, R) if lv == NONE else (lv, L)
                pos = isinstance(op, (ast.Is, ast.Eq))
                nn = self.nullness(other)
                if nn == 'none':
                    isn, notn = (st,), ()
                elif nn == 'nonnull':
                    isn, notn = (), (st,)
                else:
                    l = loc_of(node)
                    if l is not None and (l == self.lenloc or not l.startswith('self.')):
                        isn, notn = (_eset(st, l, NONE),), (_eset(st, l, ('nn', l)),)
                    else:
                        isn, notn = (st,), (st,)
                return (isn, notn) if pos else (notn, isn)
            if type(op) in _OPS:
                rel = _OPS[type(op)]
                if rv[0] == 'len' and self.is_buf(rv[1]):
                    return self.rel_test(st, rel, lv, rv[1])
                if lv[0] == 'len' and self.is_buf(lv[1]):
                    return self.rel_test(st, _FLIP[rel], rv, lv[1])
            return (st,), (st,)
        if self.is_slot_call(e):
            st = _unflag(st, 'pending')
            return (st,), (_flag(st, 'failed'),)
        if isinstance(e, ast.Name):
            v = _eget(st, e.id)
            if v == ('slotres',):
                return (_eset(st, e.id, ('bool', True)),), (_flag(_eset(st, e.id, ('bool', False)), 'failed'),)
            if v is not None and v[0] == 'bool':
                return ((st,), ()) if v[1] else ((), (st,))
        return (st,), (st,)

    # ------------------------------------------------------------------ calls
    def on_call(self, call, st):
        if call_name(call) == 'loseConnection':
            st = _flag(st, 'lost')
        t = self.ci.self_targets(call, self.func)
        if t is None:
            return (st,)
        kind, funcs = t
        if self.is_slot_call(call):
            self.count('phase calls')
            if 'failed' in st.flags:
                self.problem(
                    'gate-fail',
                    call,
                    f'{norm(call)} can run again after a handshake phase has failed: the loop is not left on failure',
                )
            if st.it is None:
                self.problem('chunk', call, f'{norm(call)} is called outside the reassembly loop')
            else:
                a = self.sym(call.args[0], st) if len(call.args) == 1 and not call.keywords else ('top', '')
                if not (a[0] == 'front' and a[1] == self.BH):
                    self.problem(
                        'chunk',
                        call,
                        f'{norm(call)} does not receive the front slice buffer[:needed] taken before the buffer was advanced',
                    )
            st = _flag(st, 'pending')
        mw = set()
        if funcs is None:
            mw = {'*'}
        else:
            for g in funcs:
                mw |= self.ci.maywrite(g)
        for loc in (self.bufloc, self.lenloc):
            if '*' in mw or loc in mw or base_of(loc) in mw:
                st = _eset(st, loc, ('hv', loc, st.gen))
                st = st._replace(gen=st.gen + 1)
        return (st,)

    # ------------------------------------------------------------- statements
    def buf_write(self, val, stmt, st):
        cur = self.read(self.bufloc, st)
        if val == ('cat', cur, ('param', self.param)):
            if st.it is not None:
                self.problem('data-use', stmt, 'the buffer is extended by the received data inside the loop')
            self.count('extensions')
            return _eset(st, self.bufloc, val)
        if st.it is not None and val[0] == 'drop' and val[1] == self.BH:
            self.count('consumptions')
            st = st._replace(it=st.it._replace(consumed=min(st.it.consumed + 1, 2)))
            return _eset(st, self.bufloc, val)
        self.problem(
            'consume',
            stmt,
            f'{norm(stmt)}: the buffer is assigned something that is neither its extension by the received data nor '
            'the removal of the front that was tested and read in this iteration',
        )
        return _eset(st, self.bufloc, ('top', norm(stmt)))

    def assign(self, t, val, stmt, st):
        l = loc_of(t)
        if l is None:
            return st
        if l == self.bufloc:
            return self.buf_write(val, stmt, st)
        if self.bufloc.startswith(l + '[') or self.lenloc.startswith(l + '['):
            self.problem('writers', stmt, f'{norm(stmt)} rebinds the container that holds the buffer state')
            return st
        if l == self.lenloc or not l.startswith('self.'):
            return _eset(st, l, val)
        return st

    def on_stmt(self, s, st):
        if isinstance(s, (ast.Assign, ast.AnnAssign)) and s.value is not None:
            tg = s.targets if isinstance(s, ast.Assign) else [s.target]
            if self.is_slot_call(s.value):
                val = ('slotres',)
                st = _unflag(st, 'pending')
            else:
                val = self.sym(s.value, st)
            flat = _flat_targets(tg)
            for t in flat:
                st = self.assign(t, val if len(flat) == len(tg) else ('top', norm(s)), s, st)
        elif isinstance(s, ast.AugAssign):
            l = loc_of(s.target)
            if l is not None:
                cur = self.read(l, st)
                rhs = self.sym(s.value, st)
                if isinstance(s.op, ast.Add):
                    if cur[0] == 'int' and rhs[0] == 'int':
                        val = INT(cur[1] + rhs[1])
                    else:
                        val = ('cat', cur, rhs)
                else:
                    val = ('top', norm(s))
                st = self.assign(s.target, val, s, st)
        elif isinstance(s, ast.Delete):
            for t in _flat_targets(s.targets):
                st = self.assign(t, ('top', norm(s)), s, st)
        return (st,)

    def on_for(self, node, st):
        for t in _flat_targets([node.target]):
            st = self.assign(t, ('top', norm(node.target)), node, st)
        return (st,)

    def on_with(self, item, st):
        if item.optional_vars is not None:
            for t in _flat_targets([item.optional_vars]):
                st = self.assign(t, ('top', norm(item.optional_vars)), item.context_expr, st)
        return (st,)

    def on_handler(self, h, st):
        if h.name:
            st = _eset(st, h.name, ('top', 'exception'))
        return (st,)

    # ------------------------------------------------------------ expressions
    def on_expr(self, e, st):
        if isinstance(e, ast.Name):
            if isinstance(e.ctx, ast.Load) and _eget(st, e.id) == ('param', self.param):
                self.param_reads[id(e)] = e
            return (st,)
        if isinstance(e, ast.Subscript) and isinstance(e.slice, ast.Slice):
            base = self.sym(e.value, st)
            if self.is_buf(base):
                self.count('slices')
                v = self.sym(e, st)
                if st.it is None:
                    self.problem('chunk', e, f'{norm(e)}: the buffer is sliced outside the reassembly loop')
                elif v[0] in ('front', 'drop') and v[1] == self.BH:
                    a = v[2]
                    if not any((r, a, self.BH) in st.facts for r in ('le', 'lt')):
                        self.problem(
                            'guard',
                            e,
                            f'{norm(e)} is reachable without a successful test  {_show(a)} <= len(buffer)  for the same '
                            'amount and the same buffer contents: fewer bytes than needed may be taken for a whole unit',
                        )
                    it = st.it
                    if it.amount is None:
                        it = it._replace(amount=a)
                    elif it.amount != a:
                        self.problem(
                            'consume',
                            e,
                            f'{norm(e)} uses the amount {_show(a)} while the same iteration already used {_show(it.amount)}',
                        )
                    if v[0] == 'front':
                        it = it._replace(used=True)
                    st = st._replace(it=it)
                else:
                    self.problem(
                        'chunk',
                        e,
                        f'{norm(e)} is not buffer[:needed] / buffer[needed:] of the buffer as it was at the start of the iteration',
                    )
            return (st,)
        if isinstance(e, (ast.Attribute, ast.Subscript)) and isinstance(e.ctx, ast.Load) and loc_of(e) == self.bufloc:
            p = self.parent.get(id(e))
            ok = (
                (isinstance(p, ast.Subscript) and p.value is e and isinstance(p.slice, ast.Slice))
                or (isinstance(p, ast.Call) and isinstance(p.func, ast.Name) and p.func.id == 'len' and p.args == [e])
                or (isinstance(p, ast.BinOp) and isinstance(p.op, ast.Add))
                or (isinstance(p, ast.Assign) and p.value is e and all(isinstance(t, ast.Name) for t in p.targets))
            )
            if not ok:
                self.problem('chunk', p if p is not None else e, f'the whole buffer is read in {norm(p)[:80]}: not understood')
        return (st,)

    # ------------------------------------------------------------------ loops
    def is_reassembly(self, s):
        return any(loc_of(n) == self.bufloc for n in ast.walk(s) if isinstance(n, (ast.Attribute, ast.Subscript, ast.Name)))

    def normalise(self, st):
        oldB = self.read(self.bufloc, st)
        oldL = self.read(self.lenloc, st)
        if oldL == NONE or oldL[0] == 'int':
            newL = oldL
        elif oldL[0] == 'add' and oldL[1] == ('len', oldB):
            newL = ('add', ('len', self.BH), oldL[2])
        elif self.nullness(oldL) == 'nonnull' and oldL[0] != 'top':
            newL = self.LH
        else:
            newL = ('init', self.lenloc)
        env = {}
        for k, v in st.env:
            if k == self.bufloc:
                env[k] = self.BH
            elif k == self.lenloc:
                env[k] = newL
            elif v == oldL:
                env[k] = newL
            elif v == oldB:
                env[k] = self.BH
            elif v[0] in ('param', 'int', 'none', 'bool', 'str', 'bytes'):
                env[k] = v
            else:
                env[k] = ('stale', k)
        env[self.bufloc] = self.BH
        env[self.lenloc] = newL
        return _St(frozenset(env.items()), frozenset(), st.flags - {'pending'}, _It(newL, None, 0, False), 0)

    def back_edge(self, s, st):
        it = st.it
        self.count('iterations')
        if 'pending' in st.flags:
            self.problem('gate-result', s, 'the result of a handshake phase is ignored on some path through the loop body')
        mode = it.lhead
        if it.consumed != 1:
            self.problem(
                'consume',
                s,
                f'an iteration starting in {"header" if mode == NONE else "body"} state removes the front of the buffer '
                f'{"more than once" if it.consumed else "zero times"} on some path',
            )
            return
        a = it.amount
        lend = self.read(self.lenloc, st)
        if mode == NONE:
            ok = (
                a is not None
                and a[0] == 'int'
                and lend[0] == 'idx'
                and lend[2] == 0
                and lend[1][0] == 'unpack'
                and lend[1][2] == ('front', self.BH, a)
            )
            if ok:
                fmt = lend[1][1]
                if _struct.calcsize(fmt) != a[1] or len(_struct.unpack(fmt, bytes(a[1]))) != 1:
                    ok = False
                else:
                    self.hdr.add((a[1], fmt))
            if not ok:
                self.problem(
                    'alternate',
                    s,
                    f'an iteration starting in header state (expected length None) does not leave the expected length '
                    f'equal to the single field decoded from exactly the {_show(a)} header bytes it removed (it leaves {_show(lend)})',
                )
            return
        if self.nullness(mode) != 'nonnull':
            self.problem('alternate', s, f'cannot tell header from body state at the loop head ({_show(mode)})')
            return
        if a != mode or _has(a, 'top'):
            self.problem(
                'consume',
                s,
                f'an iteration starting in body state with expected length n removes {_show(a)} bytes, not n '
                '(stale or wrong needed amount)',
            )
        if not it.used:
            self.problem('chunk', s, 'an iteration in body state removes the unit without reading buffer[:n]')
        if 'none' in self.kinds and lend != NONE:
            self.problem(
                'alternate',
                s,
                f'an iteration starting in body state does not reset the expected length to None (it leaves {_show(lend)}): '
                'the next header would be taken for a body',
            )

    def _s_While(self, s, states):
        if not self.is_reassembly(s):
            return super()._s_While(s, states)
        self.loops += 1
        out = Out()
        head = set()
        for st in states:
            if st.it is not None:
                self.problem('chunk', s, 'nested reassembly loops are not understood')
            head.add(self.normalise(st))
        exits = set()
        while True:
            t, f = self.cond(s.test, head)
            exits |= {x._replace(it=None) for x in f}
            ob = self.block(s.body, t)
            out.ret |= ob.ret
            out.exc |= ob.exc
            out.normal |= {x._replace(it=None) for x in ob.brk}
            back = set()
            for st in ob.normal | ob.cont:
                self.back_edge(s, st)
                back.add(self.normalise(st))
            new = head | back
            self._cap(new)
            if new == head:
                break
            head = new
        if s.orelse:
            out.absorb(self.block(s.orelse, exits), True)
        else:
            out.normal |= exits
        return out

    # ------------------------------------------------------------------- exit
    def exit_check(self, st, node):
        self.count('exits')
        if 'failed' in st.flags and 'lost' not in st.flags:
            self.problem('gate-close', node, 'a failed handshake phase can reach the end of the function without loseConnection()')
        if 'pending' in st.flags:
            self.problem('gate-result', node, 'the result of a handshake phase is ignored')
        if 'lost' in st.flags:
            return  # accepted: after a visible loseConnection() nothing more has to be delivered
        L = self.read(self.lenloc, st)
        B = self.read(self.bufloc, st)
        if L == NONE:
            ks = [a[1] for r, a, b in st.facts if r == 'gt' and b == B and a[0] == 'int']
            if ks:
                self.exit_widths.update(ks)
                return
        elif self.nullness(L) == 'nonnull' and ('gt', L, B) in st.facts:
            return
        weaker = [r for r, a, b in st.facts if b == B and r == 'ge']
        self.problem(
            'exit',
            node,
            'the function can return without a failed test  needed <= len(buffer)  for the state it leaves behind '
            f'(expected length {_show(L)}, buffer {_show(B)}'
            + ('; only  needed >= len(buffer)  is known: a unit that is exactly complete stays undelivered' if weaker else '')
            + '): a complete unit can stay in the buffer until more data arrives',
        )


def _short(node):
    """stable short text of a construct (compound statements: their header only)"""
    if node is None or isinstance(node, (ast.FunctionDef, ast.AsyncFunctionDef)):
        return ''
    if isinstance(node, ast.While):
        return 'while ' + norm(node.test)[:80]
    if isinstance(node, ast.If):
        return 'if ' + norm(node.test)[:80]
    if isinstance(node, ast.For):
        return 'for ' + norm(node.target)[:40]
    return norm(node)[:90]


def _has_loc(v, loc):
    if isinstance(v, tuple):
        if len(v) >= 2 and v[0] in ('nn', 'init', 'hv') and v[1] == loc:
            return True
        return any(_has_loc(x, loc) for x in v)
    return False


def _show(v):
    if v is None:
        return 'nothing'
    if v == NONE:
        return 'None'
    t = v[0]
    if t == 'int':
        return str(v[1])
    if t in ('nn', 'init'):
        return f'<{v[1]}>'
    if t == 'hv':
        return f'<{v[1]} after call>'
    if t in ('front', 'drop'):
        return f'{_show(v[1])}[{":" if t == "front" else ""}{_show(v[2])}{":" if t == "drop" else ""}]'
    if t == 'len':
        return f'len({_show(v[1])})'
    if t == 'add':
        return f'{_show(v[1])}+{_show(v[2])}'
    if t == 'cat':
        return f'{_show(v[1])}+{_show(v[2])}'
    if t == 'unpack':
        return f'unpack({v[1]!r}, {_show(v[2])})'
    if t == 'idx':
        return f'{_show(v[1])}[{v[2]}]'
    if t == 'param':
        return v[1]
    if t in ('top', 'stale', 'name'):
        return f'?{v[1]}'
    return str(v)


# ---------------------------------------------------------------------------
# discovery of the buffer / expected-length state of a receive function (by def-use shape, not by name)


class Shape:
    def __init__(self):
        self.bufloc = self.lenloc = self.param = self.slotloc = None
        self.kinds = set()
        self.ext_nodes = set()
        self.errors = []  # (clause, node, msg)


def _self_deps(f, expr, depth=0):
    """locations of self an expression depends on, following local definitions"""
    out = set()
    stack = [expr]
    while stack:
        n = stack.pop()
        l = loc_of(n) if isinstance(n, (ast.Attribute, ast.Subscript)) else None
        if l is not None and l.startswith('self.'):
            out.add(l)
            continue
        if isinstance(n, ast.Name) and depth < 3 and n.id != 'self':
            for v in _local_values(f, n.id):
                if v is not None:
                    out |= _self_deps(f, v, depth + 1)
        stack.extend(ast.iter_child_nodes(n))
    return out


def loop_shape(prog, f, ci):
    sh = Shape()
    sh.param = data_param(f)
    if sh.param is None:
        raise AnalysisError(f'{f.qname} has no data parameter')
    bufs = {}
    for n in f.own_nodes():
        if (
            isinstance(n, ast.AugAssign)
            and isinstance(n.op, ast.Add)
            and isinstance(n.value, ast.Name)
            and n.value.id == sh.param
            and loc_of(n.target)
        ):
            bufs.setdefault(loc_of(n.target), []).append(n.value)
        elif (
            isinstance(n, ast.Assign)
            and len(n.targets) == 1
            and isinstance(n.value, ast.BinOp)
            and isinstance(n.value.op, ast.Add)
            and isinstance(n.value.right, ast.Name)
            and n.value.right.id == sh.param
            and loc_of(n.targets[0])
            and loc_of(n.targets[0]) == loc_of(n.value.left)
        ):
            bufs.setdefault(loc_of(n.targets[0]), []).append(n.value.right)
    bufs = {k: v for k, v in bufs.items() if k.startswith('self.')}
    if len(bufs) != 1:
        sh.errors.append(('data-use', f.node, f'the received data extends {len(bufs)} per-connection buffers (expected exactly one: buffer += {sh.param})'))
        return sh
    (sh.bufloc, nodes), = bufs.items()
    sh.ext_nodes = {id(x) for x in nodes}
    # the needed amount is whatever is ordered against len(buffer)
    deps = set()
    guards = 0
    for n in f.own_nodes():
        if isinstance(n, ast.Compare) and len(n.ops) == 1 and type(n.ops[0]) in _OPS:
            sides = [n.left, n.comparators[0]]
            for i, s in enumerate(sides):
                if (
                    isinstance(s, ast.Call)
                    and isinstance(s.func, ast.Name)
                    and s.func.id == 'len'
                    and len(s.args) == 1
                    and loc_of(s.args[0]) == sh.bufloc
                ):
                    guards += 1
                    deps |= _self_deps(f, sides[1 - i])
    deps = {d for d in deps if d != sh.bufloc and ci.const_node(d) is None}
    if not guards or len(deps) != 1:
        sh.errors.append(('guard', f.node, f'no test of a needed amount against len(buffer) whose amount depends on exactly one mutable per-connection state was found (guards={guards}, state={sorted(deps)})'))
        return sh
    (sh.lenloc,) = deps
    for g, v in ci.writes_of(sh.lenloc):
        k = ci.kind_of_value(v, g)
        sh.kinds.add(k)
        if k == 'unknown':
            node = v if isinstance(v, ast.AST) else g.node
            sh.errors.append(('alternate', node, f'{g.qname} assigns the expected length something that is neither None nor an integer expression: {norm(node)[:70]}'))
    sh.kinds.discard('unknown')
    if not sh.kinds:
        sh.errors.append(('alternate', f.node, 'the expected length is never assigned'))
    # an attribute that holds bound methods and is called with the chunk (handshake phases)
    for c in f.calls():
        l = loc_of(c.func)
        if l and l.startswith('self.') and ci.prog.method(ci.cls.qname, l[5:]) is None and ci.is_method_slot(l):
            sh.slotloc = l
    return sh


_LOOP_CACHE = {}


def analyse_loop(prog, f):
    key = (id(prog), f.qname)
    if key in _LOOP_CACHE and _LOOP_CACHE[key][0] is prog:
        return _LOOP_CACHE[key][1:]
    ci = ClassInfo(prog, f.cls)
    sh = loop_shape(prog, f, ci)
    fl = None
    if sh.bufloc and sh.lenloc and sh.kinds:
        fl = _Loop(prog, f, ci, sh.bufloc, sh.lenloc, sh.kinds, sh.param, sh.ext_nodes, sh.slotloc)
        inits = set()
        for k in sorted(sh.kinds):
            env = {sh.bufloc: fl.BH, sh.lenloc: NONE if k == 'none' else fl.LH}
            for p in f.params():
                if p != 'self':
                    env[p] = ('param', p)
            inits.add(_St(frozenset(env.items()), frozenset(), frozenset(), None, 0))
        out = fl.run(f.node, inits)
        for st in out.normal | out.ret:
            fl.exit_check(st, f.node)
        for nid, node in fl.param_reads.items():
            if nid not in sh.ext_nodes:
                p = fl.parent.get(nid)
                fl.problem('data-use', p if p is not None else node, f'the received data is used outside the extension of the buffer: {norm(p if p is not None else node)[:80]}')
        if fl.loops == 0:
            fl.problem('guard', f.node, 'no loop over the buffer: coalesced units would stay undelivered')
        if fl.loops and not fl.counts.get('iterations'):
            fl.problem('consume', f.node, 'no path through the loop body reaches the loop head again')
        # who may write the state
        stores = attr_stores(prog)
        allowed = {f.qname}
        restorers = {g.qname for g in restoring_funcs(prog, ci)} if sh.slotloc else set()
        for loc, extra in ((sh.bufloc, restorers), (sh.lenloc, None)):
            for g, node in stores.get(attr_of(loc), []):
                if g.cls is not f.cls:
                    fl.problem('writers', node, f'{g.qname} writes the per-connection state {attr_of(loc)} from outside {f.cls.qname}')
            if loc == sh.lenloc and 'none' not in sh.kinds:
                continue  # the phases own the expected length of the handshake
            for g, v in ci.writes_of(loc):
                if g.qname in allowed or (extra and g.qname in extra):
                    continue
                if g.name == '__init__' and g.parent is None:
                    init_ok = (
                        isinstance(v, ast.Constant) and (v.value == b'' if loc == sh.bufloc else v.value is None)
                    )
                    if init_ok:
                        continue
                fl.problem('writers', v if isinstance(v, ast.AST) else g.node, f'{g.qname} also writes {loc}: the stream state is not owned by {f.name}')
        _LOOP_CACHE.clear()
    _LOOP_CACHE[key] = (prog, ci, sh, fl)
    return ci, sh, fl


def restoring_funcs(prog, ci):
    """methods (other than __init__) that write some object's dataReceived"""
    out = []
    for g, _n in attr_stores(prog).get('dataReceived', []):
        if g.cls is ci.cls and g.name != '__init__' and g not in out:
            out.append(g)
    return out


_CLAUSES = (
    ('data-use', 'the received data is used only to extend the per-connection buffer'),
    ('guard', 'every slice of the buffer is dominated by a successful test  needed <= len(buffer)  for that amount and those contents'),
    ('consume', 'each iteration removes exactly the needed bytes from the front, exactly once'),
    ('alternate', 'header and body states alternate: length decoded from the header bytes removed, reset after the body'),
    ('chunk', 'the unit handed on is buffer[:needed] taken before the buffer is advanced; the buffer does not escape'),
    ('exit', 'the function returns only after  needed > len(buffer)  was established for the state it leaves (needed is fresh)'),
    ('writers', 'buffer and expected length are written only by the receive function (and the constructor)'),
)


class _Phase(Flow):
    """effect of one handshake phase on (expected length, next phase); state = (len, slot)"""

    def __init__(self, lenloc, slotloc):
        super().__init__()
        self.lenloc, self.slotloc = lenloc, slotloc
        self.rets = set()

    def on_stmt(self, s, st):
        if isinstance(s, ast.Assign) and len(s.targets) == 1:
            l = loc_of(s.targets[0])
            if l == self.lenloc:
                v = s.value
                k = INT(v.value) if isinstance(v, ast.Constant) and isinstance(v.value, int) and not isinstance(v.value, bool) else ('N',)
                return ((k, st[1]),)
            if l == self.slotloc:
                v = s.value
                name = v.attr if isinstance(v, ast.Attribute) and loc_of(v) else '?'
                return ((st[0], name),)
        return (st,)

    def on_return(self, node, st):
        false = isinstance(node.value, ast.Constant) and not node.value.value
        self.rets.add((st[0], st[1], not false))
        return (st,)


def phase_chain(prog, ci, sh, r, f):
    """walk (phase, chunk size) configurations of the handshake; every fixed-size decode must get exactly its size"""
    c_len, c_slot = ci.const_node(sh.lenloc), None
    inits_len = [v for g, v in ci.writes_of(sh.lenloc) if g.name == '__init__']
    inits_slot = [v for g, v in ci.writes_of(sh.slotloc) if g.name == '__init__']
    key = f'{f.qname}:phase-chain'
    if len(inits_len) != 1 or len(inits_slot) != 1 or not isinstance(inits_len[0], ast.Constant) or not isinstance(inits_len[0].value, int):
        r.fail(key, where(f), 'the constructor does not set one constant first chunk size and one first phase')
        return
    del c_len, c_slot
    start = (inits_slot[0].attr, INT(inits_len[0].value))
    seen, todo, bad = [], [start], []
    while todo and len(seen) < 32:
        cfg = todo.pop(0)
        if cfg in seen:
            continue
        seen.append(cfg)
        name, size = cfg
        g = prog.method(ci.cls.qname, name)
        if g is None:
            bad.append((f.node, f'phase {name} is not a method'))
            continue
        dp = data_param(g)
        for c in g.calls():
            if _is_unpack(prog, g, c) and len(c.args) == 2 and isinstance(c.args[1], ast.Name) and c.args[1].id == dp:
                fmt = c.args[0].value if isinstance(c.args[0], ast.Constant) else None
                try:
                    need = _struct.calcsize(fmt)
                except (TypeError, _struct.error):
                    need = None
                if size != INT(need):
                    bad.append((c, f'phase {name} decodes {norm(c)} ({need} bytes) but is handed a chunk of {_show(size) if size[0] == "int" else "a variable number of"} bytes'))
        ph = _Phase(sh.lenloc, sh.slotloc)
        out = ph.run(g.node, (size, name))
        for st in out.normal:
            ph.rets.add((st[0], st[1], False))
        for ln, slot, may_pass in ph.rets:
            if may_pass:
                todo.append((slot, ln))
    r.extra['handshake_configurations'] = [f'{n}:{_show(s) if s[0] == "int" else "N"}' for n, s in seen]
    if bad:
        for node, msg in bad:
            r.fail(f'{key}:{norm(node)[:60]}', where(f, node), msg)
    else:
        r.ok(key, f'{len(seen)} (phase, chunk size) configurations: ' + ' -> '.join(r.extra['handshake_configurations']), where(f))
    return seen


def _rule1(ctx, rep):
    prog = ctx.prog
    with rep.rule(
        'R-C14-1',
        'reassembly loops: one symbolic iteration from every header/body state re-establishes the framing invariant',
        floor=4,
        breaks='some way of cutting or coalescing the byte stream yields other messages than whole-message delivery '
        '(short read taken for a unit, unit left in the buffer, header taken for a body)',
    ) as r:
        widths = {}
        for q in LOOP_ANCHORS:
            f = prog.func(q)
            rep.analysed(f)
            r.instance()
            ci, sh, fl = analyse_loop(prog, f)
            if fl is None:
                for clause, node, msg in sh.errors:
                    r.fail(f'{q}:{clause}', where(f, node), msg)
                continue
            probs = dict(fl.problems)
            for clause, node, msg in sh.errors:
                probs.setdefault((clause, _short(node)), (node, msg))
            r.extra.setdefault('symbolic', {})[q] = dict(
                buffer=sh.bufloc, expected_length=sh.lenloc, states=sorted(sh.kinds), steps=fl.visited, **fl.counts
            )
            for clause, title in _CLAUSES:
                mine = [(k, v) for k, v in probs.items() if k[0] == clause]
                if not mine:
                    r.ok(f'{q}:{clause}', title, where(f))
                for (c, text), (node, msg) in mine:
                    r.fail(f'{q}:{clause}' + (f':{text}' if text else ''), where(f, node), msg)
            if 'none' in sh.kinds:
                ws = {w for w, _f in fl.hdr}
                widths[q] = ws
                r.check(
                    len(ws) == 1 and fl.exit_widths <= ws and all(_FMT_OK.match(fm) for _w, fm in fl.hdr),
                    f'{q}:header-width',
                    where(f),
                    f'header of {sorted(ws)} bytes decoded with {sorted(fm for _w, fm in fl.hdr)}; same width starves the loop exit',
                    f'header widths disagree or are not a 4-byte big-endian field: decoded {sorted(fl.hdr)}, width tested at exit {sorted(fl.exit_widths)}',
                )
            elif sh.slotloc:
                phase_chain(prog, ci, sh, r, f)
            else:
                r.fail(f'{q}:alternate', where(f), 'expected length is never None and no phase slot drives it: framing not understood')


def check(ctx):
    rep = Report(PID, ctx.tier, ctx.prog, 'wip')
    _rule1(ctx, rep)
    return rep


_F, _C, _L, _S = 'pl/farm.py', 'db/shelve/comms.py', 'pl/logger/__init__.py', 'security.py'
_W_LEN = "length = ( self.__buf['actual'] if self.__buf['expected'] is None else self.__buf['expected'] )"

VARIANTS = [
    # ---- R-C14-1
    V('farm: < for <=', 'B', _F, 'Hand.dataReceived', 'while length <= len(self.__buf):', 'while length < len(self.__buf):', 'R-C14-1'),
    V('log: body removes length+1', 'B', _L, 'LogSink.dataReceived', 'self.__buf = self.__buf[length:]', 'self.__buf = self.__buf[length + 1:]', 'R-C14-1', occurrence=1),
    V('db: needed not recomputed', 'B', _C, 'Worker.dataReceived', _W_LEN, 'pass', 'R-C14-1', occurrence=1),
    V('farm: expected length not reset', 'B', _F, 'Hand.dataReceived', 'self.__len = None', 'pass', 'R-C14-1'),
    V('log: header read short', 'B', _L, 'LogSink.dataReceived', "struct.unpack('>L', self.__buf[:length])", "struct.unpack('>H', self.__buf[:2])", 'R-C14-1'),
    V('db: residual dropped on new data', 'B', _C, 'Worker.dataReceived', "self.__buf['data'] += data", "self.__buf['data'] = data", 'R-C14-1'),
    V('db: body parsed from the received chunk', 'B', _C, 'Worker.dataReceived', "pickle.loads(self.__buf['data'][:length])", 'pickle.loads(data[:length])', 'R-C14-1'),
    V('handshake: chunk one byte long', 'B', _S, 'TwistedWrapper.process', 'data = self.__buf[: self.__len]', 'data = self.__buf[: self.__len + 1]', 'R-C14-1'),
    V('handshake: buffer advanced after the phase changed the length', 'B', _S, 'TwistedWrapper.process',
      'self.__buf = self.__buf[self.__len :]\n\n            if not self.__phase(data):',
      'if not self.__phase(data):', 'R-C14-1'),
    V('handshake: p3 announces 4 bytes for the 8-byte double header', 'B', _S, 'TwistedWrapper._p3', 'self.__len = 8', 'self.__len = 4', 'R-C14-1'),
    V('farm: _process clears the buffer', 'B', _F, 'Hand._reg', '_workers.append(self)', "_workers.append(self)\n            self.__buf = b''", 'R-C14-1'),
    V('farm: while True / break', 'N', _F, 'Hand.dataReceived', 'while length <= len(self.__buf):',
      'while True:\n            if length > len(self.__buf):\n                break', None),
    V('farm: reorder reset and advance', 'N', _F, 'Hand.dataReceived', 'self.__buf = self.__buf[length:]\n                self.__len = None',
      'self.__len = None\n                self.__buf = self.__buf[length:]', None),
    V('log: guard written the other way round', 'N', _L, 'LogSink.dataReceived', 'while length <= len(self.__buf):', 'while not len(self.__buf) < length:', None),
    V('db: added logging and local alias of the chunk', 'N', _C, 'Worker.dataReceived', "request = pickle.loads(self.__buf['data'][:length])",
      "chunk = self.__buf['data'][:length]\n                log.debug('unit of %d bytes', len(chunk))\n                request = pickle.loads(chunk)", None),
    V('handshake: phase result through a local', 'N', _S, 'TwistedWrapper.process', 'if not self.__phase(data):', 'ok = self.__phase(data)\n            if not ok:', None),
    V('handshake: return instead of the length trick', 'N', _S, 'TwistedWrapper.process', 'self.__len = len(self.__buf) + 1  # break out of the while loop', 'return', None),
]
