"""C14  Message streams are fragmentation-proof and gated by the handshake.

R-C14-1  the four reassembly loops, by symbolic execution of one loop iteration from every header/body state
         (class _Loop: two-state style with a per-connection expected length; class _Peek: stateless style that
         recognises a whole frame afresh from the front of the buffer, bounds compared as linear forms over the
         header width H, the decoded length L and len(buffer); loop_shape picks the style by whether any mutable
         per-connection state takes part in a test against len(buffer))
R-C14-2  the handshake gate of security.TwistedWrapper (install, restore, residual hand-over, failure closes)
R-C14-3  framing agreement (width / byte order) of every struct.pack / struct.unpack of the channels
R-C14-4  blocking (client side) receivers accumulate until the announced size
"""

import ast
import copy
import re
import struct as _struct
from collections import namedtuple

from .. import AnalysisError
from ..flow import Flow, Out, call_name
from ..report import Report
from ..util import where, mwhere, norm
from ..variants import V

PID = 'C14'

WRAPPER = 'dawgie.security.TwistedWrapper'
LOOP_ANCHORS = (
    'dawgie.pl.farm.Hand.dataReceived',
    'dawgie.db.shelve.comms.Worker.dataReceived',
    'dawgie.pl.logger.LogSink.dataReceived',
    'dawgie.security.TwistedWrapper.process',
)
ANCHOR_MODULES = (
    'dawgie.pl.farm',
    'dawgie.db.shelve.comms',
    'dawgie.pl.logger',
    'dawgie.security',
    'dawgie.pl.message',
)

NONE = ('none',)
_MUTATORS = {
    'append', 'extend', 'insert', 'remove', 'pop', 'clear', 'update', 'add', 'discard', 'setdefault', 'sort',
    'reverse', 'popitem',
}
# length fields: big-endian (network) unsigned 4-byte; '!' is the same byte order, 'L' the same width with '>'/'!'
_FMT_OK = re.compile(r'^[>!][IL]+$')


def INT(k):
    return ('int', k)


def loc_of(node):
    """canonical storage location of an lvalue-like expression: local name, self.attr, self.attr['key']"""
    if isinstance(node, ast.Name):
        return node.id
    if isinstance(node, ast.Attribute) and isinstance(node.value, ast.Name) and node.value.id == 'self':
        return 'self.' + node.attr
    if (
        isinstance(node, ast.Subscript)
        and isinstance(node.slice, ast.Constant)
        and isinstance(node.slice.value, str)
    ):
        b = loc_of(node.value)
        if b is not None and b.startswith('self.'):
            return f'{b}[{node.slice.value!r}]'
    return None


def base_of(loc):
    return loc.split('[')[0]


def attr_of(loc):
    return base_of(loc)[5:]


def data_param(f):
    p = f.params()
    if not f.is_staticmethod() and p and p[0] in ('self', 'cls'):
        p = p[1:]
    return p[0] if p else None


def _flat_targets(tg):
    out = []
    for t in tg:
        if isinstance(t, (ast.Tuple, ast.List)):
            out.extend(_flat_targets(t.elts))
        elif isinstance(t, ast.Starred):
            out.extend(_flat_targets([t.value]))
        else:
            out.append(t)
    return out


def _is_unpack(prog, f, node):
    return isinstance(node, ast.Call) and prog.resolve_in(node.func, f) == 'external:struct.unpack'


def _rebinds(g, loc):
    """g contains a plain (re)binding  self.x = ... / del self.x  of the attribute location"""
    for n in g.own_nodes():
        tg = n.targets if isinstance(n, (ast.Assign, ast.Delete)) else [n.target] if isinstance(n, (ast.AnnAssign, ast.AugAssign)) else []
        if any(loc_of(t) == loc for t in _flat_targets(tg)):
            return True
        if (
            isinstance(n, ast.Call)
            and isinstance(n.func, ast.Name)
            and n.func.id in ('setattr', 'delattr')
            and len(n.args) >= 2
            and isinstance(n.args[0], ast.Name)
            and n.args[0].id == 'self'
            and not (isinstance(n.args[1], ast.Constant) and 'self.' + str(n.args[1].value) != loc)
        ):
            return True
    return False


def _tuple_element(assign, target):
    """a, b = X  ->  the value of b as the synthetic expression X[1] (or the element of a literal tuple); else None"""
    if len(assign.targets) != 1 or not isinstance(assign.targets[0], (ast.Tuple, ast.List)):
        return None
    elts = assign.targets[0].elts
    if any(not isinstance(e, ast.Name) for e in elts):
        return None
    i = [id(e) for e in elts].index(id(target))
    v = assign.value
    if isinstance(v, (ast.Tuple, ast.List)) and len(v.elts) == len(elts) and not any(isinstance(e, ast.Starred) for e in v.elts):
        return v.elts[i]
    return ast.copy_location(ast.Subscript(value=v, slice=ast.Constant(value=i), ctx=ast.Load()), v)


def _local_values(f, name):
    out = []
    for n in f.own_nodes():
        if isinstance(n, ast.Assign):
            for t in _flat_targets(n.targets):
                if isinstance(t, ast.Name) and t.id == name:
                    if len(n.targets) == 1 and t is n.targets[0]:
                        out.append(n.value)
                    else:
                        out.append(_tuple_element(n, t))
        elif isinstance(n, (ast.AugAssign, ast.AnnAssign)) and isinstance(n.target, ast.Name) and n.target.id == name:
            out.append(n.value if isinstance(n, ast.AnnAssign) else None)
        elif isinstance(n, (ast.For, ast.comprehension)):
            if any(isinstance(x, ast.Name) and x.id == name for x in ast.walk(n.target)):
                out.append(None)
    return out


def _single_return(g):
    """the expression of a helper whose body is one return statement (docstring / pass ignored), else None"""
    body = [
        b
        for b in g.node.body
        if not isinstance(b, ast.Pass) and not (isinstance(b, ast.Expr) and isinstance(b.value, ast.Constant))
    ]
    if len(body) != 1 or not isinstance(body[0], ast.Return) or body[0].value is None:
        return None
    e = body[0].value
    if any(isinstance(n, (ast.Lambda, ast.NamedExpr, ast.Yield, ast.YieldFrom, ast.Await, ast.ListComp, ast.SetComp, ast.DictComp, ast.GeneratorExp)) for n in ast.walk(e)):
        return None
    return e


class _Subst(ast.NodeTransformer):
    def __init__(self, mapping):
        self.mapping = mapping

    def visit_Name(self, node):
        if isinstance(node.ctx, ast.Load) and node.id in self.mapping:
            return copy.deepcopy(self.mapping[node.id])
        return node


def _simple_arg(a):
    while isinstance(a, ast.Attribute):
        a = a.value
    return isinstance(a, (ast.Name, ast.Constant))


def normalise_func(prog, f, rebound, private_to=None):
    private_to = private_to or {}
    """behaviour-preserving normal form of a method body, so that the rules see through two kinds of refactoring:

    * reference aliases  ``state = self.x``  (x bound only by the constructor, the local bound once, at the top level
      of the function, before every use): the local is replaced by ``self.x``;
    * single-expression helpers  ``self.m(a, ..)`` / ``m(a, ..)`` of the same class / module called with plain
      names, attributes or constants: the call is replaced by the helper's return expression (two levels).
    """
    node = copy.deepcopy(f.node)
    changed = False
    # ---- aliases
    params = set(f.params())
    names = {}
    for n in ast.walk(node):
        if isinstance(n, ast.Name):
            names.setdefault(n.id, []).append(n)
    for st in list(node.body):
        if not (isinstance(st, ast.Assign) and len(st.targets) == 1 and isinstance(st.targets[0], ast.Name)):
            continue
        nm, v = st.targets[0].id, st.value
        l = loc_of(v) if isinstance(v, ast.Attribute) else None
        if l is None or not l.startswith('self.') or l in rebound or nm in params:
            continue
        occ = names.get(nm, [])
        stores = [x for x in occ if not isinstance(x.ctx, ast.Load)]
        if len(stores) != 1 or any(x.lineno <= st.lineno for x in occ if x is not st.targets[0]):
            continue
        if any(isinstance(x, (ast.FunctionDef, ast.AsyncFunctionDef, ast.Lambda, ast.ClassDef)) for b in node.body for x in ast.walk(b)):
            continue
        idx = node.body.index(st)
        node.body[idx] = ast.copy_location(ast.Pass(), st)
        node = _Subst({nm: v}).visit(node)
        changed = True
    # ---- working copy with write-back:  L = self.x [+ e] ; ... only L is used ... ; self.x = L
    # (x private to this method: no other method except the constructor mentions it, so nobody can observe the delay)
    for st in list(node.body):
        if not (isinstance(st, ast.Assign) and len(st.targets) == 1 and isinstance(st.targets[0], ast.Name)):
            continue
        nm, v = st.targets[0].id, st.value
        src_attr = v.left if isinstance(v, ast.BinOp) and isinstance(v.op, ast.Add) else v
        l = loc_of(src_attr) if isinstance(src_attr, ast.Attribute) else None
        if l is None or not l.startswith('self.') or nm in params or l not in private_to.get(f.qname, ()):
            continue
        i0 = node.body.index(st)
        backs = [
            b for b in node.body[i0 + 1 :]
            if isinstance(b, ast.Assign) and len(b.targets) == 1 and loc_of(b.targets[0]) == l and isinstance(b.value, ast.Name) and b.value.id == nm
        ]
        if len(backs) != 1:
            continue
        i1 = node.body.index(backs[0])
        between = [x for b in node.body[i0 + 1 : i1] for x in ast.walk(b)]
        after = [x for b in node.body[i1 + 1 :] for x in ast.walk(b)]
        if any(isinstance(x, ast.Attribute) and loc_of(x) == l for x in between + after):
            continue
        if any(isinstance(x, (ast.Return, ast.FunctionDef, ast.AsyncFunctionDef, ast.Lambda, ast.ClassDef, ast.Yield, ast.YieldFrom)) for x in between):
            continue
        if any(isinstance(x, ast.Name) and x.id == nm for b in node.body[:i0] for x in ast.walk(b)):
            continue
        if any(isinstance(x, ast.Name) and x.id == nm and not isinstance(x.ctx, ast.Load) for x in after):
            continue

        class Back(ast.NodeTransformer):
            def visit_Name(self, n):
                if n.id == nm:
                    return ast.copy_location(ast.Attribute(value=ast.Name(id='self', ctx=ast.Load()), attr=l[5:], ctx=n.ctx), n)
                return n

        node.body[i1] = ast.copy_location(ast.Pass(), backs[0])
        if src_attr is v:
            node.body[i0] = ast.copy_location(ast.Pass(), st)
        node = Back().visit(node)
        changed = True
    # ---- single-expression helpers
    for _round in range(2):
        class Inl(ast.NodeTransformer):
            hit = False

            def visit_Call(self, call):
                self.generic_visit(call)
                if call.keywords or any(isinstance(a, ast.Starred) or not _simple_arg(a) for a in call.args):
                    return call
                g = None
                fn = call.func
                if isinstance(fn, ast.Attribute) and isinstance(fn.value, ast.Name) and fn.value.id == 'self' and f.cls is not None:
                    g = prog.method(f.cls.qname, fn.attr)
                    skip = 1
                elif isinstance(fn, ast.Name) and fn.id in f.module.funcs and fn.id not in params:
                    g = f.module.funcs[fn.id]
                    skip = 0
                if g is None or g.qname == f.qname or g.node.decorator_list:
                    return call
                e = _single_return(g)
                ps = g.params()[skip:] if g is not None else []
                a = g.node.args
                if e is None or len(ps) != len(call.args) or a.vararg or a.kwarg or a.kwonlyargs:
                    return call
                Inl.hit = True
                new = _Subst(dict(zip(ps, call.args))).visit(copy.deepcopy(e))
                for x in ast.walk(new):
                    ast.copy_location(x, call)
                return new

        node = Inl().visit(node)
        changed = changed or Inl.hit
        if not Inl.hit:
            break
    # ---- helpers with a straight body called as a whole statement:  x = self.h(a) / self.h(a) / return self.h(a)
    counter = [0]
    for _round in range(2):
        hit = [False]

        def helper_of(call):
            if not isinstance(call, ast.Call) or call.keywords or any(isinstance(a, ast.Starred) for a in call.args):
                return None
            fn = call.func
            g = None
            if isinstance(fn, ast.Attribute) and isinstance(fn.value, ast.Name) and fn.value.id == 'self' and f.cls is not None:
                g = prog.method(f.cls.qname, fn.attr)
                skip = 1
            elif isinstance(fn, ast.Name) and fn.id in f.module.funcs and fn.id not in params:
                g = f.module.funcs[fn.id]
                skip = 0
            if g is None or g.qname == f.qname or g.node.decorator_list:
                return None
            a = g.node.args
            ps = g.params()[skip:]
            if a.vararg or a.kwarg or a.kwonlyargs or len(ps) != len(call.args):
                return None
            body = [b for b in g.node.body if not (isinstance(b, ast.Expr) and isinstance(b.value, ast.Constant))]
            ret = None
            if body and isinstance(body[-1], ast.Return):
                ret = body[-1].value
                body = body[:-1]
            inner = [x for b in body for x in ast.walk(b)]
            if len([x for x in inner if isinstance(x, ast.stmt)]) > 40:
                return None
            if any(isinstance(x, (ast.Return, ast.Yield, ast.YieldFrom, ast.Await, ast.FunctionDef, ast.AsyncFunctionDef, ast.ClassDef, ast.Lambda, ast.Global, ast.Nonlocal, ast.Try)) for x in inner):
                return None
            return g, ps, body, ret

        def expand(call, make_tail):
            h = helper_of(call)
            if h is None:
                return None
            g, ps, body, ret = h
            counter[0] += 1
            pre = f'_inl{counter[0]}_'
            local = set(ps)
            for b in body:
                for x in ast.walk(b):
                    if isinstance(x, ast.Name) and isinstance(x.ctx, (ast.Store, ast.Del)):
                        local.add(x.id)
                    elif isinstance(x, ast.ExceptHandler) and x.name:
                        local.add(x.name)
            local.discard('self')

            class Ren(ast.NodeTransformer):
                def visit_Name(self, n):
                    if n.id in local:
                        n.id = pre + n.id
                    return n

            out = [ast.Assign(targets=[ast.Name(id=pre + p_, ctx=ast.Store())], value=copy.deepcopy(a_)) for p_, a_ in zip(ps, call.args)]
            out += [Ren().visit(copy.deepcopy(b)) for b in body]
            tail = make_tail(Ren().visit(copy.deepcopy(ret)) if ret is not None else ast.Constant(value=None))
            if tail is not None:
                out.append(tail)
            for o in out:
                for x in ast.walk(o):
                    if not hasattr(x, 'lineno') or o in out[: len(ps)] or o is tail:
                        ast.copy_location(x, call)
            hit[0] = True
            return out

        def rewrite(stmts):
            res = []
            for st in stmts:
                for fld in ('body', 'orelse', 'finalbody'):
                    if isinstance(getattr(st, fld, None), list) and not isinstance(st, (ast.FunctionDef, ast.AsyncFunctionDef, ast.ClassDef)):
                        setattr(st, fld, rewrite(getattr(st, fld)) or [ast.copy_location(ast.Pass(), st)])
                for h_ in getattr(st, 'handlers', []) or []:
                    h_.body = rewrite(h_.body)
                new = None
                # a helper call nested in a simple statement is hoisted into a temporary first, when every other call
                # of the statement encloses it (so that the order of evaluation is unchanged)
                if isinstance(st, (ast.Expr, ast.Assign, ast.Return)) and st.value is not None and helper_of(st.value) is None:
                    par = {id(c): p_ for p_ in ast.walk(st.value) for c in ast.iter_child_nodes(p_)}
                    for c in ast.walk(st.value):
                        if helper_of(c) is None:
                            continue
                        anc, n_ = [], c
                        while id(n_) in par:
                            n_ = par[id(n_)]
                            anc.append(n_)
                        if any(isinstance(a_, (ast.IfExp, ast.BoolOp, ast.Lambda, ast.ListComp, ast.SetComp, ast.DictComp, ast.GeneratorExp, ast.Compare)) for a_ in anc):
                            continue
                        others = [x for x in ast.walk(st.value) if isinstance(x, ast.Call) and x is not c]
                        inside = {id(x) for x in ast.walk(c)}
                        if any(id(x) not in inside and x not in anc for x in others) or any(id(x) in inside for x in others):
                            continue
                        counter[0] += 1
                        tmp = f'_inl{counter[0]}_value'
                        pre_stmts = expand(c, lambda r_, tmp=tmp: ast.Assign(targets=[ast.Name(id=tmp, ctx=ast.Store())], value=r_))
                        if pre_stmts is None:
                            continue
                        ast.copy_location(pre_stmts[-1], c)
                        p_ = par[id(c)]
                        for fld, val in ast.iter_fields(p_):
                            if val is c:
                                setattr(p_, fld, ast.copy_location(ast.Name(id=tmp, ctx=ast.Load()), c))
                            elif isinstance(val, list) and any(v is c for v in val):
                                setattr(p_, fld, [ast.copy_location(ast.Name(id=tmp, ctx=ast.Load()), c) if v is c else v for v in val])
                        res.extend(pre_stmts)
                        break
                if isinstance(st, ast.Expr):
                    new = expand(st.value, lambda r_: None)
                elif isinstance(st, ast.Assign):
                    new = expand(st.value, lambda r_, st=st: ast.Assign(targets=st.targets, value=r_))
                elif isinstance(st, ast.Return) and st.value is not None:
                    new = expand(st.value, lambda r_: ast.Return(value=r_))
                res.extend(new if new is not None else [st])
            return res

        node.body = rewrite(node.body)
        changed = changed or hit[0]
        if not hit[0]:
            break
    if not changed:
        return f
    ast.fix_missing_locations(node)
    nf = type(f)(f.qname, node, f.module, f.cls, f.parent)
    nf.children = f.children
    return nf


class ClassInfo:
    """who writes which attribute of self, inside one class (all methods, closures included)"""

    def __init__(self, prog, cls):
        self.prog = prog
        self.cls = cls
        self.writes = {}  # loc -> [(func, value node | None)]
        raw = self.raw = [f for f in prog.funcs.values() if f.cls is cls]
        # pass 1 on the code as written: which attributes are (re)bound outside the constructor
        self.methods = raw
        for f in raw:
            self._scan(f)
        rebound = set()
        for l in self.writes:
            if '[' in l:
                continue
            if l == 'self.*' or any(not (g.name == '__init__' and g.parent is None) and _rebinds(g, l) for g in raw):
                rebound.add(l)
        if 'self.*' in rebound:
            rebound |= set(self.writes)
        # pass 2 on the normal form
        users = {}
        for g in raw:
            if g.name == '__init__' and g.parent is None:
                continue
            for n in g.own_nodes():
                if isinstance(n, ast.Attribute) and isinstance(n.value, ast.Name) and n.value.id == 'self':
                    users.setdefault('self.' + n.attr, set()).add(g.qname)
        private_to = {}
        for l, qs in users.items():
            if len(qs) == 1 and l[5:].startswith('_' + cls.name.lstrip('_') + '__'):
                private_to.setdefault(next(iter(qs)), set()).add(l)
        self.norm = {f.qname: normalise_func(prog, f, rebound, private_to) for f in raw}
        self.methods = list(self.norm.values())
        self.writes = {}
        self._mw = {}
        for f in self.methods:
            self._scan(f)

    def lift(self, g, depth=0):
        """qnames of the entry methods on whose behalf a pure helper runs: a method that is only ever called as
        self.g(..) from other methods of the class stands for its callers (two levels), anything else for itself"""
        callers = [
            h
            for h in self.raw
            if h.qname != g.qname
            and any(
                isinstance(c.func, ast.Attribute) and isinstance(c.func.value, ast.Name) and c.func.value.id == 'self' and c.func.attr == g.name
                for c in h.calls()
            )
        ]
        referenced = any(
            isinstance(n, ast.Attribute) and n.attr == g.name and isinstance(n.ctx, ast.Load) and not any(n is c.func for c in h.calls())
            for h in self.raw
            for n in h.own_nodes()
        )
        if not callers or referenced or depth >= 2 or g.name in ('__init__',) or g.parent is not None:
            return {g.qname}
        out = set()
        for h in callers:
            out |= self.lift(h, depth + 1)
        return out

    def nf(self, f):
        """normal form of a method of this class (the function itself for anything else)"""
        return self.norm.get(f.qname, f) if f is not None else None

    def _w(self, loc, f, v):
        self.writes.setdefault(loc, []).append((f, v))
        if isinstance(v, ast.Dict):
            for k, val in zip(v.keys, v.values):
                if isinstance(k, ast.Constant) and isinstance(k.value, str):
                    self.writes.setdefault(f'{loc}[{k.value!r}]', []).append((f, val))

    def _scan(self, f):
        for n in f.own_nodes():
            tg, v = [], None
            if isinstance(n, ast.Assign):
                tg, v = n.targets, n.value
            elif isinstance(n, ast.AnnAssign) and n.value is not None:
                tg, v = [n.target], n.value
            elif isinstance(n, ast.AugAssign):
                tg, v = [n.target], n
            elif isinstance(n, ast.Delete):
                tg, v = n.targets, None
            elif isinstance(n, ast.Call):
                cn = call_name(n)
                if (
                    isinstance(n.func, ast.Name)
                    and cn in ('setattr', 'delattr')
                    and len(n.args) >= 2
                    and isinstance(n.args[0], ast.Name)
                    and n.args[0].id == 'self'
                ):
                    a = n.args[1]
                    name = a.value if isinstance(a, ast.Constant) and isinstance(a.value, str) else '*'
                    self._w('self.' + name, f, n.args[2] if len(n.args) > 2 else None)
                elif isinstance(n.func, ast.Attribute) and cn in _MUTATORS:
                    l = loc_of(n.func.value)
                    if l is not None and l.startswith('self.'):
                        self._w(l, f, None)
                continue
            flat = _flat_targets(tg)
            for t in flat:
                l = loc_of(t)
                if l is not None:
                    if l.startswith('self.'):
                        self._w(l, f, v if len(flat) == 1 else None)
                    continue
                # self.x[<non constant>] = ...  -> unknown write to self.x
                # (self.x.y = ... mutates the object held in x, it does not rebind x: ignored)
                b, via_attr = t, False
                while isinstance(b, (ast.Subscript, ast.Attribute)):
                    lb = loc_of(b)
                    if lb is not None and lb.startswith('self.'):
                        if not via_attr:
                            self._w(lb, f, None)
                        break
                    via_attr = via_attr or isinstance(b, ast.Attribute)
                    b = b.value

    def writes_of(self, loc):
        out = list(self.writes.get(loc, []))
        if '[' in loc:
            key = loc[loc.index('[') + 1 : -1]
            for f, v in self.writes.get(base_of(loc), []):
                if isinstance(v, ast.Dict) and any(
                    isinstance(k, ast.Constant) and repr(k.value) == key for k in v.keys
                ):
                    continue  # expanded by _w
                out.append((f, None))
        out.extend(self.writes.get('self.*', []))
        return out

    def const_node(self, loc):
        """(func, value) when the location is written exactly once, in __init__"""
        ws = self.writes_of(loc)
        if len(ws) == 1 and ws[0][0].name == '__init__' and ws[0][0].parent is None and ws[0][1] is not None:
            if isinstance(ws[0][1], ast.AugAssign):
                return None
            return ws[0]
        return None

    def self_targets(self, call, f):
        """repo functions a call on self may run: None = not a call on self; (kind, [funcs] | None)"""
        fn = call.func
        if isinstance(fn, ast.Attribute) and isinstance(fn.value, ast.Name) and fn.value.id == 'self':
            m = self.prog.method(self.cls.qname, fn.attr)
            if m is not None:
                return 'method', [m]
            vals = self.writes_of('self.' + fn.attr)
            out = []
            for _g, v in vals:
                if (
                    isinstance(v, ast.Attribute)
                    and isinstance(v.value, ast.Name)
                    and v.value.id == 'self'
                    and self.prog.method(self.cls.qname, v.attr) is not None
                ):
                    out.append(self.prog.method(self.cls.qname, v.attr))
                elif isinstance(v, ast.Constant) and v.value is None:
                    continue
                else:
                    return 'slot', None
            return 'slot', out
        sym = self.prog.callee(call, f)
        g = self.prog.func_of(sym) if sym else None
        if g is not None and g.cls is self.cls and sym not in self.prog.classes:
            return 'method', [g]
        return None

    def is_method_slot(self, loc):
        """the attribute only ever holds bound methods of this class"""
        ws = self.writes_of(loc)
        return bool(ws) and all(
            isinstance(v, ast.Attribute)
            and isinstance(v.value, ast.Name)
            and v.value.id == 'self'
            and self.prog.method(self.cls.qname, v.attr) is not None
            for _f, v in ws
        )

    def maywrite(self, f, _stack=()):
        """locations of self that running f may write (transitively through calls on self); '*' = anything"""
        if f.qname in self._mw:
            return self._mw[f.qname]
        f = self.nf(f)
        if f.qname in [g.qname for g in _stack]:
            return set()
        out = {l for l, ws in self.writes.items() if any(g.qname == f.qname for g, _v in ws)}
        if 'self.*' in out:
            out.add('*')
        for c in f.calls():
            t = self.self_targets(c, f)
            if t is None:
                continue
            if t[1] is None:
                out.add('*')
                continue
            for g in t[1]:
                out |= self.maywrite(g, _stack + (f,))
        if not _stack:
            self._mw[f.qname] = out
        return out

    def kind_of_value(self, v, f, depth=0):
        """'none' | 'int' | 'unknown' for a value written to the expected-length state"""
        if v is None or depth > 3:
            return 'unknown'
        if isinstance(v, ast.Constant):
            if v.value is None:
                return 'none'
            if isinstance(v.value, int) and not isinstance(v.value, bool):
                return 'int'
            return 'unknown'
        if isinstance(v, ast.Call) and isinstance(v.func, ast.Name) and v.func.id == 'len':
            return 'int'
        if isinstance(v, ast.BinOp) and isinstance(v.op, (ast.Add, ast.Sub, ast.Mult)):
            ks = {self.kind_of_value(v.left, f, depth + 1), self.kind_of_value(v.right, f, depth + 1)}
            return 'int' if ks == {'int'} else 'unknown'
        if isinstance(v, ast.Subscript) and isinstance(v.slice, ast.Constant) and isinstance(v.slice.value, int):
            b = v.value
            if _is_unpack(self.prog, f, b):
                return 'int'
            if isinstance(b, ast.Name):
                vals = _local_values(f, b.id)
                if vals and all(x is not None and _is_unpack(self.prog, f, x) for x in vals):
                    return 'int'
            return 'unknown'
        if isinstance(v, ast.Name):
            vals = _local_values(f, v.id)
            if vals and all(self.kind_of_value(x, f, depth + 1) == 'int' for x in vals):
                return 'int'
        return 'unknown'


_STORES = {}


def attr_stores(prog):
    """attribute name -> [(func, node)] for every store/delete of that attribute (and setattr with a literal name)"""
    k = id(prog)
    if k not in _STORES:
        m = {}
        for f in prog.funcs.values():
            for n in f.own_nodes():
                if isinstance(n, ast.Attribute) and isinstance(n.ctx, (ast.Store, ast.Del)):
                    m.setdefault(n.attr, []).append((f, n))
                elif (
                    isinstance(n, ast.Call)
                    and isinstance(n.func, ast.Name)
                    and n.func.id in ('setattr', 'delattr')
                    and len(n.args) >= 2
                    and isinstance(n.args[1], ast.Constant)
                    and isinstance(n.args[1].value, str)
                ):
                    m.setdefault(n.args[1].value, []).append((f, n))
        _STORES.clear()
        _STORES[k] = (m, prog)
    return _STORES[k][0]


# ---------------------------------------------------------------------------
# R-C14-1: symbolic execution of the reassembly loops
#
# Values are terms: ('none',) ('int',k) ('bytes',b) ('param',p) ('nn',loc) [opaque non-None value a location holds
# at the start of an iteration] ('hv',loc,g) [value after a call on self that may write loc] ('cat',a,b)
# ('front',b,n)=b[:n] ('drop',b,n)=b[n:] ('len',b) ('add',len,int) ('unpack',fmt,s) ('idx',v,k) ('top',text).
# Facts are ordering relations (rel, amount, buffer) meaning  amount REL len(buffer)  learnt from branch outcomes.

_St = namedtuple('_St', 'env facts flags it gen')
_It = namedtuple('_It', 'lhead amount consumed used')
_NEG = {'le': 'gt', 'lt': 'ge', 'gt': 'le', 'ge': 'lt'}
_IMPL = {'lt': {'lt', 'le'}, 'le': {'le'}, 'gt': {'gt', 'ge'}, 'ge': {'ge'}}
_FLIP = {'le': 'ge', 'lt': 'gt', 'gt': 'lt', 'ge': 'le'}
_OPS = {ast.LtE: 'le', ast.Lt: 'lt', ast.Gt: 'gt', ast.GtE: 'ge'}


def _has(v, tag):
    if isinstance(v, tuple):
        if v and v[0] == tag:
            return True
        return any(_has(x, tag) for x in v)
    return False


def _eget(st, loc):
    for k, v in st.env:
        if k == loc:
            return v
    return None


def _eset(st, loc, val):
    return st._replace(env=frozenset({(k, v) for k, v in st.env if k != loc} | {(loc, val)}))


def _flag(st, *names):
    return st._replace(flags=st.flags | set(names))


def _unflag(st, name):
    return st._replace(flags=st.flags - {name})


class _Loop(Flow):
    def __init__(self, prog, func, ci, bufloc, lenloc, kinds, param, ext_nodes, slotloc=None):
        super().__init__()
        self.prog, self.func, self.ci = prog, func, ci
        self.bufloc, self.lenloc, self.kinds, self.param = bufloc, lenloc, kinds, param
        self.slotloc = slotloc
        self.ext_nodes = ext_nodes  # ids of the Name nodes through which the received data extends the buffer
        self.BH = ('nn', bufloc)
        self.LH = ('nn', lenloc)
        self.parent = {id(c): p for p in ast.walk(func.node) for c in ast.iter_child_nodes(p)}
        self.problems = {}  # (clause, text) -> (node, msg)
        self.counts = {}
        self.hdr = set()  # (width, fmt) of decoded headers
        self.exit_widths = set()
        self.param_reads = {}
        self.loops = 0
        self._const = {}

    # ------------------------------------------------------------ bookkeeping
    def problem(self, clause, node, msg):
        self.problems.setdefault((clause, _short(node)), (node, msg))

    def count(self, what):
        self.counts[what] = self.counts.get(what, 0) + 1

    # ----------------------------------------------------------------- values
    def is_buf(self, v):
        return _has_loc(v, self.bufloc)

    def nullness(self, v):
        if v == NONE:
            return 'none'
        if v[0] in ('int', 'nn', 'len', 'add', 'cat', 'front', 'drop', 'bytes', 'pack', 'bool', 'str'):
            return 'nonnull'
        if v[0] == 'idx' and v[1][0] == 'unpack':
            return 'nonnull'
        if v[0] == 'hv' and v[1] == self.lenloc and self.kinds == {'int'}:
            return 'nonnull'
        if v[0] == 'hv' and v[1] == self.bufloc:
            return 'nonnull'
        return 'unknown'

    def read(self, loc, st):
        v = _eget(st, loc)
        if v is not None:
            return v
        if loc.startswith('self.'):
            if loc not in self._const:
                c = self.ci.const_node(loc)
                val = ('init', loc)
                if c is not None:
                    saved, self.func = self.func, c[0]
                    try:
                        cv = self.sym(c[1], _St(frozenset(), frozenset(), frozenset(), None, 0))
                    finally:
                        self.func = saved
                    if cv[0] in ('int', 'none', 'bytes'):
                        val = cv
                self._const[loc] = val
            return self._const[loc]
        return ('name', loc)

    def sym(self, e, st):
        if isinstance(e, ast.Constant):
            v = e.value
            if v is None:
                return NONE
            if isinstance(v, bool):
                return ('bool', v)
            if isinstance(v, int):
                return INT(v)
            if isinstance(v, bytes):
                return ('bytes', v)
            if isinstance(v, str):
                return ('str', v)
            return ('top', 'const')
        l = loc_of(e)
        if l is not None:
            return self.read(l, st)
        if isinstance(e, ast.Subscript):
            base = self.sym(e.value, st)
            sl = e.slice
            if isinstance(sl, ast.Slice):
                if sl.step is None and sl.lower is None and sl.upper is not None:
                    return ('front', base, self.sym(sl.upper, st))
                if sl.step is None and sl.upper is None and sl.lower is not None:
                    return ('drop', base, self.sym(sl.lower, st))
                return ('top', norm(e))
            if isinstance(sl, ast.Constant) and isinstance(sl.value, int):
                return ('idx', base, sl.value)
            return ('top', norm(e))
        if isinstance(e, ast.Call):
            if isinstance(e.func, ast.Name) and e.func.id == 'len' and len(e.args) == 1 and not e.keywords:
                a = self.sym(e.args[0], st)
                if a[0] == 'pack':
                    return INT(a[2])
                if a[0] == 'bytes':
                    return INT(len(a[1]))
                return ('len', a)
            q = self.prog.resolve_in(e.func, self.func)
            if q in ('external:struct.pack', 'external:struct.unpack') and e.args:
                fmt = e.args[0]
                if isinstance(fmt, ast.Constant) and isinstance(fmt.value, str):
                    try:
                        size = _struct.calcsize(fmt.value)
                    except _struct.error:
                        return ('top', norm(e))
                    if q.endswith('.pack'):
                        return ('pack', fmt.value, size)
                    if len(e.args) == 2:
                        return ('unpack', fmt.value, self.sym(e.args[1], st))
            return ('top', norm(e))
        if isinstance(e, ast.BinOp) and isinstance(e.op, ast.Add):
            a, b = self.sym(e.left, st), self.sym(e.right, st)
            if a[0] == 'int' and b[0] == 'int':
                return INT(a[1] + b[1])
            if a[0] == 'len' and b[0] == 'int':
                return ('add', a, b)
            if b[0] == 'len' and a[0] == 'int':
                return ('add', b, a)
            return ('cat', a, b)
        if isinstance(e, ast.IfExp):
            d = self.decide(e.test, st)
            if d is True:
                return self.sym(e.body, st)
            if d is False:
                return self.sym(e.orelse, st)
            return ('top', norm(e))
        if self.is_predicate(e):
            # a comparison / negation used as a value: its truth value when the state decides it
            d = self.decide(e, st)
            if d is not None:
                return ('bool', d)
        return ('top', norm(e))

    @staticmethod
    def is_predicate(e):
        """expressions that always evaluate to a bool and whose outcome on_test can relate to the stream state:
        comparisons (without calls other than len) and negations of them / of names"""
        while isinstance(e, ast.UnaryOp) and isinstance(e.op, ast.Not):
            e = e.operand
            if isinstance(e, ast.Name):
                return True
        if not isinstance(e, ast.Compare):
            return False
        return not any(
            isinstance(x, (ast.NamedExpr, ast.Await, ast.Yield, ast.YieldFrom, ast.Lambda))
            or (isinstance(x, ast.Call) and not (isinstance(x.func, ast.Name) and x.func.id == 'len'))
            for x in ast.walk(e)
        )

    def split(self, test, st):
        """(states where the predicate is true, states where it is false), each refined by what the outcome tells
        about the stream state (same refinement as the branch of an  if  on that predicate)"""
        if isinstance(test, ast.UnaryOp) and isinstance(test.op, ast.Not):
            t, f = self.split(test.operand, st)
            return f, t
        t, f = self.on_test(test, st)
        return tuple(t), tuple(f)

    def decide(self, test, st):
        if isinstance(test, ast.UnaryOp) and isinstance(test.op, ast.Not):
            d = self.decide(test.operand, st)
            return None if d is None else not d
        if isinstance(test, (ast.BoolOp, ast.Call)):
            return None
        t, f = self.on_test(test, st)
        t, f = list(t), list(f)
        if t and not f:
            return True
        if f and not t:
            return False
        return None

    # ------------------------------------------------------------------ tests
    def rel_test(self, st, rel, a, B):
        truth = None
        if a[0] == 'add' and a[1] == ('len', B) and a[2][0] == 'int' and a[2][1] > 0:
            truth = rel in ('gt', 'ge')  # accepted idiom: needed := len(buffer) + k  makes the guard false (leave the loop)
        elif a == ('len', B):
            truth = rel in ('le', 'ge')
        else:
            for r2, a2, b2 in st.facts:
                if a2 == a and b2 == B:
                    if rel in _IMPL[r2]:
                        truth = True
                    elif _NEG[rel] in _IMPL[r2]:
                        truth = False
        T = st._replace(facts=st.facts | {(rel, a, B)})
        F = st._replace(facts=st.facts | {(_NEG[rel], a, B)})
        if truth is True:
            return (T,), ()
        if truth is False:
            return (), (F,)
        return (T,), (F,)

    def is_slot_call(self, e):
        return (
            self.slotloc is not None
            and isinstance(e, ast.Call)
            and loc_of(e.func) == self.slotloc
        )

    def on_test(self, e, st):
        if isinstance(e, ast.Compare) and len(e.ops) == 1:
            op = e.ops[0]
            L, R = e.left, e.comparators[0]
            lv, rv = self.sym(L, st), self.sym(R, st)
            if isinstance(op, (ast.Is, ast.IsNot, ast.Eq, ast.NotEq)) and (lv == NONE or rv == NONE):
                other, node = (rv, R) if lv == NONE else (lv, L)
                pos = isinstance(op, (ast.Is, ast.Eq))
                nn = self.nullness(other)
                if nn == 'none':
                    isn, notn = (st,), ()
                elif nn == 'nonnull':
                    isn, notn = (), (st,)
                else:
                    l = loc_of(node)
                    if l is not None and (l == self.lenloc or not l.startswith('self.')):
                        isn, notn = (_eset(st, l, NONE),), (_eset(st, l, ('nn', l)),)
                    else:
                        isn, notn = (st,), (st,)
                return (isn, notn) if pos else (notn, isn)
            if type(op) in _OPS:
                rel = _OPS[type(op)]
                if rv[0] == 'len' and self.is_buf(rv[1]):
                    return self.rel_test(st, rel, lv, rv[1])
                if lv[0] == 'len' and self.is_buf(lv[1]):
                    return self.rel_test(st, _FLIP[rel], rv, lv[1])
            return (st,), (st,)
        if self.is_slot_call(e):
            st = _unflag(st, 'pending')
            return (st,), (_flag(st, 'failed'),)
        if isinstance(e, ast.Name):
            v = _eget(st, e.id)
            if v == ('slotres',):
                return (_eset(st, e.id, ('bool', True)),), (_flag(_eset(st, e.id, ('bool', False)), 'failed'),)
            if v is not None and v[0] == 'bool':
                return ((st,), ()) if v[1] else ((), (st,))
        return (st,), (st,)

    # ------------------------------------------------------------------ calls
    def on_call(self, call, st):
        if call_name(call) == 'loseConnection':
            st = _flag(st, 'lost')
        t = self.ci.self_targets(call, self.func)
        if t is None:
            return (st,)
        kind, funcs = t
        if self.is_slot_call(call):
            self.count('phase calls')
            if 'failed' in st.flags:
                self.problem(
                    'gate-fail',
                    call,
                    f'{norm(call)} can run again after a handshake phase has failed: the loop is not left on failure',
                )
            if st.it is None:
                self.problem('chunk', call, f'{norm(call)} is called outside the reassembly loop')
            else:
                a = self.sym(call.args[0], st) if len(call.args) == 1 and not call.keywords else ('top', '')
                if not (a[0] == 'front' and a[1] == self.BH):
                    self.problem(
                        'chunk',
                        call,
                        f'{norm(call)} does not receive the front slice buffer[:needed] taken before the buffer was advanced',
                    )
            st = _flag(st, 'pending')
        mw = set()
        if funcs is None:
            mw = {'*'}
        else:
            for g in funcs:
                mw |= self.ci.maywrite(g)
        for loc in (self.bufloc, self.lenloc):
            if '*' in mw or loc in mw or base_of(loc) in mw:
                st = _eset(st, loc, ('hv', loc, st.gen))
                st = st._replace(gen=st.gen + 1)
        return (st,)

    # ------------------------------------------------------------- statements
    def buf_write(self, val, stmt, st):
        cur = self.read(self.bufloc, st)
        if val == ('cat', cur, ('param', self.param)):
            if st.it is not None:
                self.problem('data-use', stmt, 'the buffer is extended by the received data inside the loop')
            self.count('extensions')
            return _eset(st, self.bufloc, val)
        if st.it is not None and val[0] == 'drop' and val[1] == self.BH:
            self.count('consumptions')
            st = st._replace(it=st.it._replace(consumed=min(st.it.consumed + 1, 2)))
            return _eset(st, self.bufloc, val)
        self.problem(
            'consume',
            stmt,
            f'{norm(stmt)}: the buffer is assigned something that is neither its extension by the received data nor '
            'the removal of the front that was tested and read in this iteration',
        )
        return _eset(st, self.bufloc, ('top', norm(stmt)))

    def assign(self, t, val, stmt, st):
        l = loc_of(t)
        if l is None:
            return st
        if l == self.bufloc:
            return self.buf_write(val, stmt, st)
        if self.bufloc.startswith(l + '[') or self.lenloc.startswith(l + '['):
            self.problem('writers', stmt, f'{norm(stmt)} rebinds the container that holds the buffer state')
            return st
        if l == self.lenloc or not l.startswith('self.'):
            return _eset(st, l, val)
        return st

    def on_stmt(self, s, st):
        if isinstance(s, (ast.Assign, ast.AnnAssign)) and s.value is not None:
            tg = s.targets if isinstance(s, ast.Assign) else [s.target]
            if all(isinstance(t, ast.Name) for t in tg) and self.is_predicate(s.value):
                # flag = <comparison>: the local caches the outcome of the test; both outcomes are followed, each
                # with the refinement the test gives (so that  `if flag:` / `a if flag else b`  later is the same as
                # testing the comparison at the place of the assignment)
                t, f = self.split(s.value, st)
                res = []
                for sub, truth in ((t, True), (f, False)):
                    for x in sub:
                        for t0 in tg:
                            x = self.assign(t0, ('bool', truth), s, x)
                        res.append(x)
                return tuple(res)
            if self.is_slot_call(s.value):
                val = ('slotres',)
                st = _unflag(st, 'pending')
            else:
                val = self.sym(s.value, st)
            for t0 in tg:
                if isinstance(t0, (ast.Tuple, ast.List)):
                    elts = t0.elts
                    lit = s.value if isinstance(s.value, (ast.Tuple, ast.List)) and len(s.value.elts) == len(elts) else None
                    for i, t in enumerate(elts):
                        if isinstance(t, (ast.Tuple, ast.List, ast.Starred)) or any(isinstance(e, ast.Starred) for e in elts):
                            for x in _flat_targets([t]):
                                st = self.assign(x, ('top', norm(s)), s, st)
                        else:
                            st = self.assign(t, self.sym(lit.elts[i], st) if lit is not None else ('idx', val, i), s, st)
                else:
                    st = self.assign(t0, val, s, st)
        elif isinstance(s, ast.AugAssign):
            l = loc_of(s.target)
            if l is not None:
                cur = self.read(l, st)
                rhs = self.sym(s.value, st)
                if isinstance(s.op, ast.Add):
                    if cur[0] == 'int' and rhs[0] == 'int':
                        val = INT(cur[1] + rhs[1])
                    else:
                        val = ('cat', cur, rhs)
                else:
                    val = ('top', norm(s))
                st = self.assign(s.target, val, s, st)
        elif isinstance(s, ast.Delete):
            for t in _flat_targets(s.targets):
                st = self.assign(t, ('top', norm(s)), s, st)
        return (st,)

    def on_for(self, node, st):
        for t in _flat_targets([node.target]):
            st = self.assign(t, ('top', norm(node.target)), node, st)
        return (st,)

    def on_with(self, item, st):
        if item.optional_vars is not None:
            for t in _flat_targets([item.optional_vars]):
                st = self.assign(t, ('top', norm(item.optional_vars)), item.context_expr, st)
        return (st,)

    def on_handler(self, h, st):
        if h.name:
            st = _eset(st, h.name, ('top', 'exception'))
        return (st,)

    # ------------------------------------------------------------ expressions
    def on_expr(self, e, st):
        if isinstance(e, ast.Name):
            if isinstance(e.ctx, ast.Load) and _eget(st, e.id) == ('param', self.param):
                self.param_reads[id(e)] = e
            return (st,)
        if isinstance(e, ast.Subscript) and isinstance(e.slice, ast.Slice):
            base = self.sym(e.value, st)
            if self.is_buf(base):
                self.count('slices')
                v = self.sym(e, st)
                if st.it is None:
                    self.problem('chunk', e, f'{norm(e)}: the buffer is sliced outside the reassembly loop')
                elif v[0] in ('front', 'drop') and v[1] == self.BH:
                    a = v[2]
                    if not any((r, a, self.BH) in st.facts for r in ('le', 'lt')):
                        self.problem(
                            'guard',
                            e,
                            f'{norm(e)} is reachable without a successful test  {_show(a)} <= len(buffer)  for the same '
                            'amount and the same buffer contents: fewer bytes than needed may be taken for a whole unit',
                        )
                    it = st.it
                    if it.amount is None:
                        it = it._replace(amount=a)
                    elif it.amount != a:
                        self.problem(
                            'consume',
                            e,
                            f'{norm(e)} uses the amount {_show(a)} while the same iteration already used {_show(it.amount)}',
                        )
                    if v[0] == 'front':
                        it = it._replace(used=True)
                    st = st._replace(it=it)
                else:
                    self.problem(
                        'chunk',
                        e,
                        f'{norm(e)} is not buffer[:needed] / buffer[needed:] of the buffer as it was at the start of the iteration',
                    )
            return (st,)
        if isinstance(e, (ast.Attribute, ast.Subscript)) and isinstance(e.ctx, ast.Load) and loc_of(e) == self.bufloc:
            p = self.parent.get(id(e))
            ok = (
                (isinstance(p, ast.Subscript) and p.value is e and isinstance(p.slice, ast.Slice))
                or (isinstance(p, ast.Call) and isinstance(p.func, ast.Name) and p.func.id == 'len' and p.args == [e])
                or (isinstance(p, ast.BinOp) and isinstance(p.op, ast.Add))
                or (isinstance(p, ast.Assign) and p.value is e and all(isinstance(t, ast.Name) for t in p.targets))
            )
            if not ok:
                self.problem('chunk', p if p is not None else e, f'the whole buffer is read in {norm(p)[:80]}: not understood')
        return (st,)

    # ------------------------------------------------------------------ loops
    def is_reassembly(self, s):
        return any(loc_of(n) == self.bufloc for n in ast.walk(s) if isinstance(n, (ast.Attribute, ast.Subscript, ast.Name)))

    def normalise(self, st):
        oldB = self.read(self.bufloc, st)
        oldL = self.read(self.lenloc, st)
        if oldL == NONE or oldL[0] == 'int':
            newL = oldL
        elif oldL[0] == 'add' and oldL[1] == ('len', oldB):
            newL = ('add', ('len', self.BH), oldL[2])
        elif self.nullness(oldL) == 'nonnull' and oldL[0] != 'top':
            newL = self.LH
        else:
            newL = ('init', self.lenloc)
        env = {}
        for k, v in st.env:
            if k == self.bufloc:
                env[k] = self.BH
            elif k == self.lenloc:
                env[k] = newL
            elif v == oldL:
                env[k] = newL
            elif v == oldB:
                env[k] = self.BH
            elif v[0] in ('param', 'int', 'none', 'bool', 'str', 'bytes'):
                env[k] = v
            else:
                env[k] = ('stale', k)
        env[self.bufloc] = self.BH
        env[self.lenloc] = newL
        return _St(frozenset(env.items()), frozenset(), st.flags - {'pending'}, _It(newL, None, 0, False), 0)

    def back_edge(self, s, st):
        it = st.it
        self.count('iterations')
        if 'pending' in st.flags:
            self.problem('gate-result', s, 'the result of a handshake phase is ignored on some path through the loop body')
        mode = it.lhead
        if it.consumed != 1:
            self.problem(
                'consume',
                s,
                f'an iteration starting in {"header" if mode == NONE else "body"} state removes the front of the buffer '
                f'{"more than once" if it.consumed else "zero times"} on some path',
            )
            return
        a = it.amount
        lend = self.read(self.lenloc, st)
        if mode == NONE:
            ok = (
                a is not None
                and a[0] == 'int'
                and lend[0] == 'idx'
                and lend[2] == 0
                and lend[1][0] == 'unpack'
                and lend[1][2] == ('front', self.BH, a)
            )
            if ok:
                fmt = lend[1][1]
                if _struct.calcsize(fmt) != a[1] or len(_struct.unpack(fmt, bytes(a[1]))) != 1:
                    ok = False
                else:
                    self.hdr.add((a[1], fmt))
            if not ok:
                self.problem(
                    'alternate',
                    s,
                    f'an iteration starting in header state (expected length None) does not leave the expected length '
                    f'equal to the single field decoded from exactly the {_show(a)} header bytes it removed (it leaves {_show(lend)})',
                )
            return
        if self.nullness(mode) != 'nonnull':
            self.problem('alternate', s, f'cannot tell header from body state at the loop head ({_show(mode)})')
            return
        if a != mode or _has(a, 'top'):
            self.problem(
                'consume',
                s,
                f'an iteration starting in body state with expected length n removes {_show(a)} bytes, not n '
                '(stale or wrong needed amount)',
            )
        if not it.used:
            self.problem('chunk', s, 'an iteration in body state removes the unit without reading buffer[:n]')
        if 'none' in self.kinds and lend != NONE:
            self.problem(
                'alternate',
                s,
                f'an iteration starting in body state does not reset the expected length to None (it leaves {_show(lend)}): '
                'the next header would be taken for a body',
            )

    def _s_While(self, s, states):
        if not self.is_reassembly(s):
            return super()._s_While(s, states)
        self.loops += 1
        out = Out()
        head = set()
        for st in states:
            if st.it is not None:
                self.problem('chunk', s, 'nested reassembly loops are not understood')
            head.add(self.normalise(st))
        exits = set()
        while True:
            t, f = self.cond(s.test, head)
            exits |= {x._replace(it=None) for x in f}
            ob = self.block(s.body, t)
            out.ret |= ob.ret
            out.exc |= ob.exc
            out.normal |= {x._replace(it=None) for x in ob.brk}
            back = set()
            for st in ob.normal | ob.cont:
                self.back_edge(s, st)
                back.add(self.normalise(st))
            new = head | back
            self._cap(new)
            if new == head:
                break
            head = new
        if s.orelse:
            out.absorb(self.block(s.orelse, exits), True)
        else:
            out.normal |= exits
        return out

    # ------------------------------------------------------------------- exit
    def exit_check(self, st, node):
        self.count('exits')
        if 'failed' in st.flags and 'lost' not in st.flags:
            self.problem('gate-close', node, 'a failed handshake phase can reach the end of the function without loseConnection()')
        if 'pending' in st.flags:
            self.problem('gate-result', node, 'the result of a handshake phase is ignored')
        if 'lost' in st.flags:
            return  # accepted: after a visible loseConnection() nothing more has to be delivered
        L = self.read(self.lenloc, st)
        B = self.read(self.bufloc, st)
        if L == NONE:
            ks = [a[1] for r, a, b in st.facts if r == 'gt' and b == B and a[0] == 'int']
            if ks:
                self.exit_widths.update(ks)
                return
        elif self.nullness(L) == 'nonnull' and ('gt', L, B) in st.facts:
            return
        weaker = [r for r, a, b in st.facts if b == B and r == 'ge']
        self.problem(
            'exit',
            node,
            'the function can return without a failed test  needed <= len(buffer)  for the state it leaves behind '
            f'(expected length {_show(L)}, buffer {_show(B)}'
            + ('; only  needed >= len(buffer)  is known: a unit that is exactly complete stays undelivered' if weaker else '')
            + '): a complete unit can stay in the buffer until more data arrives',
        )


def _short(node):
    """stable short text of a construct (compound statements: their header only)"""
    if node is None or isinstance(node, (ast.FunctionDef, ast.AsyncFunctionDef)):
        return ''
    if isinstance(node, ast.While):
        return 'while ' + norm(node.test)[:80]
    if isinstance(node, ast.If):
        return 'if ' + norm(node.test)[:80]
    if isinstance(node, ast.For):
        return 'for ' + norm(node.target)[:40]
    return norm(node)[:90]


def _has_loc(v, loc):
    if isinstance(v, tuple):
        if len(v) >= 2 and v[0] in ('nn', 'init', 'hv') and v[1] == loc:
            return True
        return any(_has_loc(x, loc) for x in v)
    return False


def _show(v):
    if v is None:
        return 'nothing'
    if v == NONE:
        return 'None'
    t = v[0]
    if t == 'int':
        return str(v[1])
    if t in ('nn', 'init'):
        return f'<{v[1]}>'
    if t == 'hv':
        return f'<{v[1]} after call>'
    if t in ('front', 'drop'):
        return f'{_show(v[1])}[{":" if t == "front" else ""}{_show(v[2])}{":" if t == "drop" else ""}]'
    if t == 'len':
        return f'len({_show(v[1])})'
    if t == 'add':
        return f'{_show(v[1])}+{_show(v[2])}'
    if t == 'cat':
        return f'{_show(v[1])}+{_show(v[2])}'
    if t == 'unpack':
        return f'unpack({v[1]!r}, {_show(v[2])})'
    if t == 'idx':
        return f'{_show(v[1])}[{v[2]}]'
    if t == 'param':
        return v[1]
    if t in ('top', 'stale', 'name'):
        return f'?{v[1]}'
    if t == 'lin':
        parts = [('' if k == 1 else '-' if k == -1 else f'{k}*') + _show(a) for a, k in v[2]]
        if v[1] or not parts:
            parts.insert(0, str(v[1]))
        return '+'.join(parts).replace('+-', '-')
    if t == 'L':
        return 'L'
    if t == 'bytes':
        return repr(v[1])
    if t == 'slice':
        return f'{_show(v[1])}[{"" if v[2] == _lin(0) else _show(v[2])}:{"" if v[3] is None else _show(v[3])}]'
    return str(v)


# ---------------------------------------------------------------------------
# R-C14-1, stateless ("peek") style: no per-connection expected length; every iteration looks at the front of the
# buffer afresh:  H <= len(buffer) ;  L = unpack(buffer[0:H]) ;  H + L <= len(buffer) or leave ;  message =
# buffer[H:H+L] ;  buffer = buffer[H+L:].
#
# Integer values are linear forms ('lin', c, ((atom, coef), ..)) over opaque atoms: ('len', b), the decoded body length
# ('L', fmt, H, unsigned) [only ever built for  unpack(fmt, B[0:H])[0]  with B the buffer as it was at the start of the
# iteration and H == calcsize(fmt)], and anything integer-like the analysis cannot see through.  Byte strings are
# ('slice', b, lo, hi | None) with linear bounds (slices of slices are composed), ('cat', a, b), ('param', p).
# Facts are linear forms known to be >= 0 on the path (integers:  x < y  is  y - x - 1 >= 0).


def _lin(c=0, terms=()):
    d = {}
    for a, k in terms:
        d[a] = d.get(a, 0) + k
    return ('lin', c, tuple(sorted(((a, k) for a, k in d.items() if k), key=repr)))


def _ladd(x, y, s=1):
    return _lin(x[1] + s * y[1], list(x[2]) + [(a, s * k) for a, k in y[2]])


def _lmul(x, k):
    return _lin(x[1] * k, [(a, c * k) for a, c in x[2]])


def _lconst(v):
    return v[1] if v[0] == 'lin' and not v[2] else None


def _nonneg(x):
    """the form is a sum of things that cannot be negative (lengths, unsigned decoded fields, a constant >= 0)"""
    return x[1] >= 0 and all(k > 0 and (a[0] == 'len' or (a[0] == 'L' and a[3])) for a, k in x[2])


def _implied(R, facts):
    """R >= 0 holds by itself or follows from one fact F >= 0 (R - F cannot be negative)"""
    return _nonneg(R) or any(_nonneg(_ladd(R, F, -1)) for F in facts)


def _unsigned_single(fmt):
    body = fmt[1:] if fmt[:1] in '@=<>!' else fmt
    return len(body) == 1 and body in 'BHILQN'


_FROM_BYTES = {1: '>B', 2: '>H', 4: '>I', 8: '>Q'}
_PIt = namedtuple('_PIt', 'used')


class _Peek(_Loop):
    """one symbolic iteration of a stateless reassembly loop (see the comment above); obligations per path:

    data-use  the received data extends the buffer once, before the loop; the loop is entered only afterwards
    guard     header / body slices are used, and a frame is removed, only where  hi <= len(buffer)  was established
    consume   an iteration that reaches the loop head again advanced the buffer by exactly H + L; every other write of
              the buffer is a finding (so an incomplete frame leaves the buffer alone)
    chunk     what is handed on is buffer[0:H] (header) or buffer[H:H+L] (message), nothing else; the message was taken
    exit      the function returns with the buffer of this iteration untouched and  len < H  or  len < H + L  established
    """

    NOLEN = '\0'  # no location is ever called like this: there is no expected-length state

    def __init__(self, prog, func, ci, bufloc, param, ext_nodes):
        super().__init__(prog, func, ci, bufloc, self.NOLEN, set(), param, ext_nodes, None)
        self.exit_bounds = []  # (node, k): the function returns because  len(buffer) < k

    # ----------------------------------------------------------------- values
    def bufish(self, v):
        """the value is (a part of / an extension of) the bytes of the buffer"""
        if not isinstance(v, tuple) or not v:
            return False
        if v[0] in ('nn', 'hv', 'init'):
            return v[1] == self.bufloc
        if v[0] == 'slice':
            return self.bufish(v[1])
        if v[0] == 'cat':
            return self.bufish(v[1]) or self.bufish(v[2])
        return False

    def byteslike(self, v):
        return v[0] in ('cat', 'slice', 'bytes', 'param', 'pack') or self.bufish(v)

    def nullness(self, v):
        if v == NONE:
            return 'none'
        if v[0] in ('lin', 'slice', 'cat', 'bytes', 'nn', 'hv', 'bool', 'str', 'pack', 'unpack'):
            return 'nonnull'
        return 'unknown'

    def num(self, v):
        """the value as a linear form (integer-like values the analysis cannot see through become atoms); None for
        byte strings, None, booleans"""
        if v[0] == 'lin':
            return v
        if v[0] in ('top', 'stale', 'name', 'init', 'idx', 'hv') and not self.bufish(v):
            return _lin(0, [(v, 1)])
        return None

    def read(self, loc, st):
        v = _eget(st, loc)
        if v is not None:
            return v
        if loc.startswith('self.'):
            if loc not in self._const:
                c = self.ci.const_node(loc)
                val = ('init', loc)
                if c is not None:
                    saved, self.func = self.func, c[0]
                    try:
                        cv = self.sym(c[1], _St(frozenset(), frozenset(), frozenset(), None, 0))
                    finally:
                        self.func = saved
                    if cv == NONE or cv[0] == 'bytes' or _lconst(cv) is not None:
                        val = cv
                self._const[loc] = val
            return self._const[loc]
        return ('name', loc)

    def canon(self, v):
        """unpack(fmt, B[0:H])[0]  with H == calcsize(fmt), one unsigned field, B the buffer at the start of the
        iteration  ->  the decoded body length L"""
        if v[0] == 'idx' and v[2] == 0 and v[1][0] == 'unpack':
            fmt, s = v[1][1], v[1][2]
            if s[0] == 'slice' and s[1] == self.BH and s[2] == _lin(0) and s[3] is not None:
                a = _lconst(s[3])
                try:
                    ok = a is not None and a > 0 and _struct.calcsize(fmt) == a and len(_struct.unpack(fmt, bytes(a))) == 1
                except _struct.error:
                    ok = False
                if ok:
                    self.hdr.add((a, fmt))
                    return _lin(0, [(('L', fmt, a, _unsigned_single(fmt)), 1)])
        return v

    def mk_slice(self, base, lo, hi, text):
        """base[lo:hi] for bounds that cannot be negative; a slice of a slice is expressed on the underlying bytes"""
        if not (_nonneg(lo) and (hi is None or _nonneg(hi))):
            return ('top', text)  # an index that may be negative counts from the end: not understood

        def mk(x, l, h):
            return x if (l == _lin(0) and h is None) else ('slice', x, l, h)

        if base[0] != 'slice':
            return mk(base, lo, hi)
        _t, x, lo0, hi0 = base
        nlo = _ladd(lo0, lo)
        nhi = None if hi is None else _ladd(lo0, hi)
        if hi0 is None:
            return mk(x, nlo, nhi)  # x[a:][b:c] == x[a+b:a+c]
        if nhi is None or nhi == hi0:
            return mk(x, nlo, hi0)  # x[a:c][b:] == x[a+b:c]
        if _nonneg(_ladd(hi0, nhi, -1)):
            return mk(x, nlo, nhi)  # x[a:c][b:d] with a+d <= c
        return ('top', text)

    def arith(self, op, a, b, text):
        if isinstance(op, ast.Add) and (self.byteslike(a) or self.byteslike(b)):
            return ('cat', a, b)
        na, nb = self.num(a), self.num(b)
        if na is not None and nb is not None:
            if isinstance(op, ast.Add):
                return _ladd(na, nb)
            if isinstance(op, ast.Sub):
                return _ladd(na, nb, -1)
            if isinstance(op, ast.Mult):
                for x, y in ((na, nb), (nb, na)):
                    if _lconst(y) is not None:
                        return _lmul(x, _lconst(y))
        return ('top', text)

    def sym(self, e, st):
        if isinstance(e, ast.Constant):
            v = e.value
            if v is None:
                return NONE
            if isinstance(v, bool):
                return ('bool', v)
            if isinstance(v, int):
                return _lin(v)
            if isinstance(v, bytes):
                return ('bytes', v)
            if isinstance(v, str):
                return ('str', v)
            return ('top', 'const')
        l = loc_of(e)
        if l is not None:
            return self.read(l, st)
        if isinstance(e, ast.Subscript):
            base = self.sym(e.value, st)
            sl = e.slice
            if isinstance(sl, ast.Slice):
                lo = _lin(0) if sl.lower is None else self.num(self.sym(sl.lower, st))
                hi = None if sl.upper is None else self.num(self.sym(sl.upper, st))
                if sl.step is not None or lo is None or (sl.upper is not None and hi is None):
                    return ('top', norm(e))
                return self.mk_slice(base, lo, hi, norm(e))
            if isinstance(sl, ast.Constant) and isinstance(sl.value, int) and not isinstance(sl.value, bool):
                return self.canon(('idx', base, sl.value))
            return ('top', norm(e))
        if isinstance(e, ast.Call):
            if isinstance(e.func, ast.Name) and e.func.id == 'len' and len(e.args) == 1 and not e.keywords:
                a = self.sym(e.args[0], st)
                if a[0] == 'pack':
                    return _lin(a[2])
                if a[0] == 'bytes':
                    return _lin(len(a[1]))
                return _lin(0, [(('len', a), 1)])
            fn = e.func
            if (
                isinstance(fn, ast.Attribute) and fn.attr == 'from_bytes' and isinstance(fn.value, ast.Name) and fn.value.id == 'int'
                and e.args and not any(k.arg == 'signed' for k in e.keywords)
            ):
                # accepted spelling: int.from_bytes(buffer[0:H], 'big') is the unsigned big-endian field of H bytes
                order = e.args[1] if len(e.args) == 2 else next((k.value for k in e.keywords if k.arg == 'byteorder'), None)
                x = self.sym(e.args[0], st)
                if isinstance(order, ast.Constant) and order.value == 'big' and x[0] == 'slice' and x[3] is not None:
                    fmt = _FROM_BYTES.get(_lconst(_ladd(x[3], x[2], -1)))
                    if fmt is not None:
                        return self.canon(('idx', ('unpack', fmt, x), 0))
                return ('top', norm(e))
            q = self.prog.resolve_in(e.func, self.func)
            if q in ('external:struct.pack', 'external:struct.unpack', 'external:struct.unpack_from') and e.args:
                fmt = e.args[0]
                if isinstance(fmt, ast.Constant) and isinstance(fmt.value, str):
                    try:
                        size = _struct.calcsize(fmt.value)
                    except _struct.error:
                        return ('top', norm(e))
                    if q.endswith('.pack'):
                        return ('pack', fmt.value, size)
                    if q.endswith('.unpack') and len(e.args) == 2 and not e.keywords:
                        return ('unpack', fmt.value, self.sym(e.args[1], st))
                    if q.endswith('.unpack_from') and self._from_zero(e):
                        # accepted spelling: unpack_from(fmt, buffer) reads exactly the first calcsize(fmt) bytes
                        return ('unpack', fmt.value, self.mk_slice(self.sym(e.args[1], st), _lin(0), _lin(size), norm(e)))
            return ('top', norm(e))
        if isinstance(e, ast.BinOp) and isinstance(e.op, (ast.Add, ast.Sub, ast.Mult)):
            return self.arith(e.op, self.sym(e.left, st), self.sym(e.right, st), norm(e))
        if isinstance(e, ast.IfExp):
            d = self.decide(e.test, st)
            if d is True:
                return self.sym(e.body, st)
            if d is False:
                return self.sym(e.orelse, st)
            return ('top', norm(e))
        if self.is_predicate(e):
            d = self.decide(e, st)
            if d is not None:
                return ('bool', d)
        return ('top', norm(e))

    @staticmethod
    def _from_zero(call):
        """struct.unpack_from(fmt, buf) / (fmt, buf, 0) / (fmt, buf, offset=0)"""
        off = call.args[2] if len(call.args) == 3 else next((k.value for k in call.keywords if k.arg == 'offset'), None)
        if len(call.args) not in (2, 3) or any(k.arg != 'offset' for k in call.keywords):
            return False
        return off is None or (isinstance(off, ast.Constant) and off.value == 0 and not isinstance(off.value, bool))

    # ------------------------------------------------------------------ tests
    def on_test(self, e, st):
        if isinstance(e, ast.Compare) and len(e.ops) == 1 and type(e.ops[0]) in _OPS:
            a = self.num(self.sym(e.left, st))
            b = self.num(self.sym(e.comparators[0], st))
            if a is None or b is None:
                return (st,), (st,)
            rel = _OPS[type(e.ops[0])]
            if rel in ('le', 'lt'):
                d = _ladd(b, a, -1)
            else:
                d = _ladd(a, b, -1)
            if rel in ('lt', 'gt'):
                d = _ladd(d, _lin(1), -1)
            return self.branch(st, d)
        if isinstance(e, (ast.Name, ast.Attribute, ast.Subscript)):
            v = self.sym(e, st)
            if self.bufish(v) or v[0] == 'param':
                # truth value of a byte string: it is not empty
                return self.branch(st, _lin(-1, [(('len', v), 1)]))
        return super().on_test(e, st)

    def branch(self, st, d):
        """outcomes of a test that is true exactly when d >= 0"""
        n = _ladd(_lin(-1), d, -1)
        if _implied(d, st.facts):
            return (st,), ()
        if _implied(n, st.facts):
            return (), (st,)
        return (st._replace(facts=st.facts | {d}),), (st._replace(facts=st.facts | {n}),)

    # ------------------------------------------------------------------ calls
    def on_call(self, call, st):
        if call_name(call) == 'loseConnection':
            st = _flag(st, 'lost')
        t = self.ci.self_targets(call, self.func)
        if t is None:
            return (st,)
        mw = set()
        if t[1] is None:
            mw = {'*'}
        else:
            for g in t[1]:
                mw |= self.ci.maywrite(g)
        if '*' in mw or self.bufloc in mw or base_of(self.bufloc) in mw:
            st = _eset(st, self.bufloc, ('hv', self.bufloc, st.gen))
            st = st._replace(gen=st.gen + 1)
        return (st,)

    # ------------------------------------------------------------- statements
    def buf_write(self, val, stmt, st):
        cur = self.read(self.bufloc, st)
        if val == ('cat', cur, ('param', self.param)):
            if st.it is not None:
                self.problem('data-use', stmt, 'the buffer is extended by the received data inside the loop')
            if 'ext' in st.flags:
                self.problem('data-use', stmt, 'the received data is appended to the buffer a second time on some path')
            self.count('extensions')
            return _flag(_eset(st, self.bufloc, val), 'ext')
        if st.it is not None and (val == self.BH or (val[0] == 'slice' and val[1] == self.BH and val[3] is None)):
            # the front of this iteration's buffer is removed; how much, and whether that much was known to be
            # there, is judged where the iteration ends (back edge / exit)
            self.count('consumptions')
            return _eset(st, self.bufloc, val)
        self.problem(
            'consume',
            stmt,
            f'{norm(stmt)}: the buffer is assigned {_show(val)[:60]}, which is neither its extension by the received data '
            '(before the loop) nor the buffer of this iteration with a front removed (inside the loop): buffered bytes '
            'of an incomplete frame can be lost or duplicated',
        )
        return _eset(st, self.bufloc, ('top', norm(stmt)))

    def assign(self, t, val, stmt, st):
        return super().assign(t, self.canon(val), stmt, st)

    def on_stmt(self, s, st):
        tg = s.targets if isinstance(s, (ast.Assign, ast.Delete)) else [s.target] if isinstance(s, (ast.AugAssign, ast.AnnAssign)) else []
        for t in _flat_targets(tg):
            b = t
            while isinstance(b, (ast.Subscript, ast.Attribute)) and loc_of(b) != self.bufloc:
                b = b.value
            if b is not t and loc_of(b) == self.bufloc:
                self.problem('consume', s, f'{norm(s)[:80]} modifies the buffer in place: not understood (only byte strings that are re-assigned are supported)')
        if isinstance(s, ast.AugAssign):
            l = loc_of(s.target)
            if l is not None:
                val = self.arith(s.op, self.read(l, st), self.sym(s.value, st), norm(s))
                st = self.assign(s.target, val, s, st)
            return (st,)
        return super().on_stmt(s, st)

    def appended(self, st):
        """the received data is in the buffer (or is known to be empty, so that there is nothing to append)"""
        return 'ext' in st.flags or _implied(_lin(0, [(('len', ('param', self.param)), -1)]), st.facts)

    # ------------------------------------------------------------ expressions
    def frame_of(self, d):
        """the atom L when d is  H + L  with L decoded from the first H bytes, else None"""
        if d[0] == 'lin' and len(d[2]) == 1:
            (a, k), = d[2]
            if k == 1 and a[0] == 'L' and a[2] == d[1]:
                return a
        return None

    def passes_on(self, e):
        """the parent construct only carries the bytes on to where they are judged (further slice, len, a local, the
        buffer itself, a concatenation) or only tests them; returns False when the bytes are USED there"""
        p = self.parent.get(id(e))
        while isinstance(p, ast.Tuple) and isinstance(p.ctx, ast.Load):
            e, p = p, self.parent.get(id(p))
        if isinstance(p, ast.Subscript) and p.value is e and isinstance(p.slice, ast.Slice):
            return True
        if isinstance(p, ast.Call) and isinstance(p.func, ast.Name) and p.func.id == 'len' and p.args == [e]:
            return True
        if isinstance(p, ast.Call) and e in p.args[1:2] and self.prog.resolve_in(p.func, self.func) == 'external:struct.unpack_from' and self._from_zero(p):
            return True  # judged as the slice [0:calcsize] by sym
        if isinstance(p, (ast.Assign, ast.AnnAssign)) and p.value is e:
            tg = _flat_targets(p.targets if isinstance(p, ast.Assign) else [p.target])
            return all(isinstance(t, ast.Name) or loc_of(t) == self.bufloc for t in tg)
        if isinstance(p, ast.AugAssign) and p.value is e:
            return isinstance(p.target, ast.Name) or loc_of(p.target) == self.bufloc
        if isinstance(p, ast.BinOp) and isinstance(p.op, ast.Add):
            return self.passes_on(p)
        if isinstance(p, (ast.Compare, ast.BoolOp, ast.If, ast.While, ast.Assert)) or (isinstance(p, ast.UnaryOp) and isinstance(p.op, ast.Not)):
            return True
        if isinstance(p, ast.IfExp) and p.test is e:
            return True
        return False

    def on_expr(self, e, st):
        if isinstance(e, ast.Name):
            if not isinstance(e.ctx, ast.Load):
                return (st,)
            v = _eget(st, e.id)
            if v == ('param', self.param):
                self.param_reads[id(e)] = e
                return (st,)
            if v is None or not self.bufish(v):
                return (st,)
        elif isinstance(e, (ast.Attribute, ast.Subscript)) and isinstance(e.ctx, ast.Load):
            is_slice = isinstance(e, ast.Subscript) and isinstance(e.slice, ast.Slice)
            if not is_slice and loc_of(e) != self.bufloc:
                return (st,)
            v = self.sym(e, st)
            if is_slice and self.bufish(self.sym(e.value, st)):
                self.count('slices')
                if not self.bufish(v):
                    self.problem('chunk', e, f'{norm(e)}: this slice of the buffer is not understood (bounds must be sums of the header width, the decoded length and constants)')
                    return (st,)
            if not self.bufish(v):
                return (st,)
        elif isinstance(e, ast.BinOp) and isinstance(e.op, ast.Add):
            v = self.sym(e, st)
            if not self.bufish(v):
                return (st,)
        else:
            return (st,)
        if self.passes_on(e):
            return (st,)
        return (self.use(e, v, st),)

    def use(self, e, v, st):
        """the bytes v (part of the buffer) are handed to something: a decoder, a call, another attribute"""
        if st.it is None:
            self.problem('chunk', e, f'{norm(e)[:70]}: bytes of the buffer are used outside the reassembly loop')
            return st
        if v[0] == 'slice' and v[1] == self.BH and v[3] is not None:
            lo, hi = v[2], v[3]
            body = self.frame_of(hi) if _lconst(lo) is not None else None
            if body is not None and body[2] != _lconst(lo):
                body = None
            header = lo == _lin(0) and (_lconst(hi) or 0) > 0
            if header or body is not None:
                if not _implied(_ladd(_lin(0, [(('len', self.BH), 1)]), hi, -1), st.facts):
                    self.problem(
                        'guard',
                        e,
                        f'{norm(e)[:70]} = {_show(v)} is used on a path where  {_show(hi)} <= len(buffer)  has not been established: '
                        + ('a frame whose last bytes arrive in a later read is decoded truncated' if body is not None else 'fewer bytes than the header may be decoded'),
                    )
                if body is not None:
                    st = st._replace(it=st.it._replace(used=st.it.used | {body}))
                return st
        self.problem(
            'chunk',
            e,
            f'{norm(e)[:70]} = {_show(v)[:70]} is handed on, which is neither the header buffer[0:H] nor the message buffer[H:H+L] '
            '(H the header width, L the length decoded from the header) of the buffer as it was at the start of the iteration',
        )
        return st

    # ------------------------------------------------------------------ loops
    def normalise(self, st):
        old = self.read(self.bufloc, st)
        env = {}
        for k, v in st.env:
            if v == old:
                env[k] = self.BH
            elif v[0] in ('param', 'none', 'bool', 'str', 'bytes') or _lconst(v) is not None:
                env[k] = v
            else:
                env[k] = ('stale', k)
        env[self.bufloc] = self.BH
        return _St(frozenset(env.items()), frozenset(), st.flags, _PIt(frozenset()), 0)

    def back_edge(self, s, st):
        self.count('iterations')
        B = self.read(self.bufloc, st)
        if B == self.BH:
            self.problem(
                'consume',
                s,
                'an iteration can reach the loop head again without having removed anything from the buffer: the same bytes are '
                'examined again and again, the call never returns and nothing is delivered any more',
            )
            return
        if not (B[0] == 'slice' and B[1] == self.BH and B[3] is None):
            self.problem('consume', s, f'an iteration leaves the buffer as {_show(B)[:80]}: not understood')
            return
        d = B[2]
        L = self.frame_of(d)
        if L is None:
            self.problem(
                'consume',
                s,
                f'an iteration advances the buffer by {_show(d)} bytes, not by the header width plus the length decoded from '
                'buffer[0:header width]: the next iteration does not start at a frame boundary',
            )
            return
        if not _implied(_ladd(_lin(0, [(('len', self.BH), 1)]), d, -1), st.facts):
            self.problem(
                'guard',
                s,
                f'a frame is removed on a path where  {_show(d)} <= len(buffer)  has not been established: an incomplete frame is '
                'consumed and the bytes that arrive later are taken for a header',
            )
        if L not in st.it.used:
            self.problem('chunk', s, f'an iteration removes a frame without having handed on buffer[{L[2]}:{L[2]}+L]: the message is taken from somewhere else or dropped')

    def _s_While(self, s, states):
        if not self.is_reassembly(s):
            return Flow._s_While(self, s, states)
        self.loops += 1
        out = Out()
        head = set()
        for st in states:
            if st.it is not None:
                self.problem('chunk', s, 'nested reassembly loops are not understood')
            if not self.appended(st):
                self.problem('data-use', s, 'the loop can be entered on a path where the received data has not been appended to the buffer')
            elif 'ext' not in st.flags:
                st = _flag(st, 'noext-ok')  # nothing to append: the received data is known to be empty on this path
            head.add(self.normalise(st))
        exits = set()
        while True:
            t, f = self.cond(s.test, head)
            exits |= {x._replace(it=None) for x in f}
            ob = self.block(s.body, t)
            out.ret |= ob.ret
            out.exc |= ob.exc
            out.normal |= {x._replace(it=None) for x in ob.brk}
            back = set()
            for st in ob.normal | ob.cont:
                self.back_edge(s, st)
                back.add(self.normalise(st))
            new = head | back
            self._cap(new)
            if new == head:
                break
            head = new
        if s.orelse:
            out.absorb(self.block(s.orelse, exits), True)
        else:
            out.normal |= exits
        return out

    # ------------------------------------------------------------------- exit
    def exit_check(self, st, node):
        self.count('exits')
        if 'lost' in st.flags:
            return  # accepted: after a visible loseConnection() nothing more has to be delivered
        if 'ext' not in st.flags and 'noext-ok' not in st.flags:
            self.problem('data-use', node, 'the function can return without having appended the received data to the buffer')
        B = self.read(self.bufloc, st)
        if B == self.BH:
            lenb = ('len', B)
            ks = [F[1] + 1 for F in st.facts if F[2] == ((lenb, -1),)]
            if ks:
                self.exit_bounds.append((node, min(ks)))  # len(buffer) < k: fine when k <= header width (decided later)
                return
            weaker = False
            for L in {a for F in st.facts for a, _k in F[2] if a[0] == 'L'}:
                r = _lin(L[2] - 1, [(L, 1), (lenb, -1)])  # H + L - len(buffer) - 1 >= 0
                if _implied(r, st.facts):
                    return
                weaker = weaker or _implied(_ladd(r, _lin(1)), st.facts)
            self.problem(
                'exit',
                node,
                'the function can return without  len(buffer) < H  or  len(buffer) < H + L  (L decoded from this very buffer) '
                'having been established'
                + ('; only  len(buffer) <= H + L  is known: a frame that is exactly complete stays undelivered' if weaker else '')
                + ': a complete frame can stay in the buffer until more data arrives',
            )
            return
        if B[0] == 'slice' and B[1] == self.BH and B[3] is None and self.frame_of(B[2]) is not None:
            self.problem(
                'exit',
                node,
                'the function can return right after a frame was removed, without examining the remainder of the buffer: '
                'a frame that arrived in the same read (coalesced) stays undelivered until more data arrives',
            )
            return
        if B[0] == 'slice' and B[1] == self.BH:
            self.problem(
                'exit',
                node,
                f'the function can return with the buffer cut to {_show(B)[:60]}, which is not a whole frame removed: the next call '
                'takes bytes from the middle of a frame for a header',
            )
            return
        self.problem('exit', node, f'the function can return with the buffer {_show(B)[:80]}, for which no test against the frame size is known')


# ---------------------------------------------------------------------------
# discovery of the buffer / expected-length state of a receive function (by def-use shape, not by name)


class Shape:
    def __init__(self):
        self.bufloc = self.lenloc = self.param = self.slotloc = None
        self.mode = 'two-state'  # or 'peek': no expected-length state at all (see _Peek)
        self.kinds = set()
        self.ext_nodes = set()
        self.errors = []  # (clause, node, msg)


def _self_deps(f, expr, depth=0):
    """locations of self an expression depends on, following local definitions"""
    out = set()
    stack = [expr]
    while stack:
        n = stack.pop()
        l = loc_of(n) if isinstance(n, (ast.Attribute, ast.Subscript)) else None
        if l is not None and l.startswith('self.'):
            out.add(l)
            continue
        if isinstance(n, ast.Name) and depth < 3 and n.id != 'self':
            for v in _local_values(f, n.id):
                if v is not None:
                    out |= _self_deps(f, v, depth + 1)
        stack.extend(ast.iter_child_nodes(n))
    return out


def loop_shape(prog, f, ci):
    sh = Shape()
    sh.param = data_param(f)
    if sh.param is None:
        raise AnalysisError(f'{f.qname} has no data parameter')
    bufs = {}
    for n in f.own_nodes():
        if (
            isinstance(n, ast.AugAssign)
            and isinstance(n.op, ast.Add)
            and isinstance(n.value, ast.Name)
            and n.value.id == sh.param
            and loc_of(n.target)
        ):
            bufs.setdefault(loc_of(n.target), []).append(n.value)
        elif (
            isinstance(n, ast.Assign)
            and len(n.targets) == 1
            and isinstance(n.value, ast.BinOp)
            and isinstance(n.value.op, ast.Add)
            and isinstance(n.value.right, ast.Name)
            and n.value.right.id == sh.param
            and loc_of(n.targets[0])
            and loc_of(n.targets[0]) == loc_of(n.value.left)
        ):
            bufs.setdefault(loc_of(n.targets[0]), []).append(n.value.right)
    bufs = {k: v for k, v in bufs.items() if k.startswith('self.')}
    if len(bufs) != 1:
        sh.errors.append(('data-use', f.node, f'the received data extends {len(bufs)} per-connection buffers (expected exactly one: buffer += {sh.param})'))
        return sh
    (sh.bufloc, nodes), = bufs.items()
    sh.ext_nodes = {id(x) for x in nodes}
    # the needed amount is whatever is ordered against len(buffer)
    deps = set()
    guards = 0
    for n in f.own_nodes():
        if isinstance(n, ast.Compare) and len(n.ops) == 1 and type(n.ops[0]) in _OPS:
            sides = [n.left, n.comparators[0]]
            for i, s in enumerate(sides):
                if (
                    isinstance(s, ast.Call)
                    and isinstance(s.func, ast.Name)
                    and s.func.id == 'len'
                    and len(s.args) == 1
                    and loc_of(s.args[0]) == sh.bufloc
                ):
                    guards += 1
                    deps |= _self_deps(f, sides[1 - i])
    deps = {d for d in deps if d != sh.bufloc and ci.const_node(d) is None}
    if not deps:
        # no mutable per-connection state takes part in any test against len(buffer): the stateless ("peek") style,
        # where every iteration recognises a frame afresh from the front of the buffer; decided by _Peek on its merits
        # (a function without any such test ends up here too and fails the guard / exit obligations there)
        sh.mode = 'peek'
        return sh
    if not guards or len(deps) != 1:
        sh.errors.append(('guard', f.node, f'no test of a needed amount against len(buffer) whose amount depends on exactly one mutable per-connection state was found (guards={guards}, state={sorted(deps)})'))
        return sh
    (sh.lenloc,) = deps
    for g, v in ci.writes_of(sh.lenloc):
        k = ci.kind_of_value(v, g)
        sh.kinds.add(k)
        if k == 'unknown':
            node = v if isinstance(v, ast.AST) else g.node
            sh.errors.append(('alternate', node, f'{g.qname} assigns the expected length something that is neither None nor an integer expression: {norm(node)[:70]}'))
    sh.kinds.discard('unknown')
    if not sh.kinds:
        sh.errors.append(('alternate', f.node, 'the expected length is never assigned'))
    # an attribute that holds bound methods and is called with the chunk (handshake phases)
    for c in f.calls():
        l = loc_of(c.func)
        if l and l.startswith('self.') and ci.prog.method(ci.cls.qname, l[5:]) is None and ci.is_method_slot(l):
            sh.slotloc = l
    return sh


_LOOP_CACHE = {}


def analyse_loop(prog, f):
    key = (id(prog), f.qname)
    if key in _LOOP_CACHE and _LOOP_CACHE[key][0] is prog:
        return _LOOP_CACHE[key][1:]
    ci = ClassInfo(prog, f.cls)
    f = ci.nf(f)
    sh = loop_shape(prog, f, ci)
    fl = None
    inits = set()
    if sh.bufloc and sh.mode == 'peek':
        fl = _Peek(prog, f, ci, sh.bufloc, sh.param, sh.ext_nodes)
        env = {sh.bufloc: fl.BH}
        for p in f.params():
            if p != 'self':
                env[p] = ('param', p)
        inits.add(_St(frozenset(env.items()), frozenset(), frozenset(), None, 0))
    elif sh.bufloc and sh.lenloc and sh.kinds:
        fl = _Loop(prog, f, ci, sh.bufloc, sh.lenloc, sh.kinds, sh.param, sh.ext_nodes, sh.slotloc)
        for k in sorted(sh.kinds):
            env = {sh.bufloc: fl.BH, sh.lenloc: NONE if k == 'none' else fl.LH}
            for p in f.params():
                if p != 'self':
                    env[p] = ('param', p)
            inits.add(_St(frozenset(env.items()), frozenset(), frozenset(), None, 0))
    if fl is not None:
        out = fl.run(f.node, inits)
        for st in out.normal | out.ret:
            fl.exit_check(st, f.node)
        if sh.mode == 'peek':
            widths = {w for w, _fm in fl.hdr}
            for node, k in fl.exit_bounds:
                if any(k > w for w in widths):  # (no header decoded at all: header-width fails in _rule1)
                    fl.problem(
                        'exit',
                        node,
                        f'the function can return because fewer than {k} bytes are buffered, which is more than the header width '
                        f'{sorted(widths)}: a complete frame with a short body stays undelivered until more data arrives',
                    )
        for nid, node in fl.param_reads.items():
            if nid not in sh.ext_nodes:
                p = fl.parent.get(nid)
                fl.problem('data-use', p if p is not None else node, f'the received data is used outside the extension of the buffer: {norm(p if p is not None else node)[:80]}')
        if fl.loops == 0:
            fl.problem('guard', f.node, 'no loop over the buffer: coalesced units would stay undelivered')
        if fl.loops and not fl.counts.get('iterations'):
            fl.problem('consume', f.node, 'no path through the loop body reaches the loop head again')
        # who may write the state
        stores = attr_stores(prog)
        allowed = {f.qname}
        restorers = {g.qname for g in restoring_funcs(prog, ci)} if sh.slotloc else set()
        for loc, extra in ((sh.bufloc, restorers), (sh.lenloc, None)):
            if loc is None:
                continue  # stateless style: the buffer is the only stream state
            for g, node in stores.get(attr_of(loc), []):
                if g.cls is not f.cls:
                    fl.problem('writers', node, f'{g.qname} writes the per-connection state {attr_of(loc)} from outside {f.cls.qname}')
            if loc == sh.lenloc and 'none' not in sh.kinds:
                continue  # the phases own the expected length of the handshake
            for g, v in ci.writes_of(loc):
                if ci.lift(g) <= allowed | set(extra or ()):
                    continue  # the receive function itself, or a helper that only runs on its behalf
                if g.name == '__init__' and g.parent is None:
                    init_ok = (
                        isinstance(v, ast.Constant) and (v.value == b'' if loc == sh.bufloc else v.value is None)
                    )
                    if init_ok:
                        continue
                fl.problem('writers', v if isinstance(v, ast.AST) else g.node, f'{g.qname} also writes {loc}: the stream state is not owned by {f.name}')
        _LOOP_CACHE.clear()
    _LOOP_CACHE[key] = (prog, ci, sh, fl)
    return ci, sh, fl


def restoring_funcs(prog, ci):
    """methods (other than __init__) that write some object's dataReceived"""
    out = []
    for g, _n in attr_stores(prog).get('dataReceived', []):
        if g.cls is ci.cls and g.name != '__init__':
            for q in sorted(ci.lift(g)):
                h = prog.funcs.get(q)
                if h is not None and h.name != '__init__' and h not in out:
                    out.append(h)
    return out


_CLAUSES = (
    ('data-use', 'the received data is used only to extend the per-connection buffer'),
    ('guard', 'every slice of the buffer is dominated by a successful test  needed <= len(buffer)  for that amount and those contents'),
    ('consume', 'each iteration removes exactly the needed bytes from the front, exactly once'),
    ('alternate', 'header and body states alternate: length decoded from the header bytes removed, reset after the body'),
    ('chunk', 'the unit handed on is buffer[:needed] taken before the buffer is advanced; the buffer does not escape'),
    ('exit', 'the function returns only after  needed > len(buffer)  was established for the state it leaves (needed is fresh)'),
    ('writers', 'buffer and expected length are written only by the receive function (and the constructor)'),
)


_CLAUSES_PEEK = (
    ('data-use', 'the received data extends the per-connection buffer exactly once, before the loop, and is used for nothing else'),
    ('guard', 'header and message slices are used, and a frame is removed, only on paths where  H <= len(buffer)  resp.  H + L <= len(buffer)  was established'),
    ('consume', 'every iteration that reaches the loop head again advanced the buffer by exactly H + L (L decoded from buffer[0:H]); nothing else writes the buffer'),
    ('chunk', 'the message handed on is exactly buffer[H:H+L] of the buffer as it was at the start of the iteration; no other part escapes'),
    ('exit', 'the function returns only with the buffer untouched after  len(buffer) < H  or  len(buffer) < H + L  was established'),
    ('writers', 'the buffer is written only by the receive function (and the constructor)'),
)


class _Phase(Flow):
    """effect of one handshake phase on (expected length, next phase); state = (len, slot)"""

    def __init__(self, lenloc, slotloc):
        super().__init__()
        self.lenloc, self.slotloc = lenloc, slotloc
        self.rets = set()

    def on_stmt(self, s, st):
        if isinstance(s, ast.Assign) and len(s.targets) == 1:
            l = loc_of(s.targets[0])
            if l == self.lenloc:
                v = s.value
                k = INT(v.value) if isinstance(v, ast.Constant) and isinstance(v.value, int) and not isinstance(v.value, bool) else ('N',)
                return ((k, st[1]),)
            if l == self.slotloc:
                v = s.value
                name = v.attr if isinstance(v, ast.Attribute) and loc_of(v) else '?'
                return ((st[0], name),)
        return (st,)

    def on_return(self, node, st):
        false = isinstance(node.value, ast.Constant) and not node.value.value
        self.rets.add((st[0], st[1], not false))
        return (st,)


def phase_chain(prog, ci, sh, r, f):
    """walk (phase, chunk size) configurations of the handshake; every fixed-size decode must get exactly its size"""
    inits_len = [v for g, v in ci.writes_of(sh.lenloc) if g.name == '__init__']
    inits_slot = [v for g, v in ci.writes_of(sh.slotloc) if g.name == '__init__']
    key = f'{f.qname}:phase-chain'
    if len(inits_len) != 1 or len(inits_slot) != 1 or not isinstance(inits_len[0], ast.Constant) or not isinstance(inits_len[0].value, int):
        r.fail(key, where(f), 'the constructor does not set one constant first chunk size and one first phase')
        return
    start = (inits_slot[0].attr, INT(inits_len[0].value))
    seen, todo, bad = [], [start], []
    while todo and len(seen) < 32:
        cfg = todo.pop(0)
        if cfg in seen:
            continue
        seen.append(cfg)
        name, size = cfg
        g = prog.method(ci.cls.qname, name)
        if g is None:
            bad.append((f.node, f'phase {name} is not a method'))
            continue
        dp = data_param(g)
        for c in g.calls():
            if _is_unpack(prog, g, c) and len(c.args) == 2 and isinstance(c.args[1], ast.Name) and c.args[1].id == dp:
                fmt = c.args[0].value if isinstance(c.args[0], ast.Constant) else None
                try:
                    need = _struct.calcsize(fmt)
                except (TypeError, _struct.error):
                    need = None
                if size != INT(need):
                    bad.append((c, f'phase {name} decodes {norm(c)} ({need} bytes) but is handed a chunk of {_show(size) if size[0] == "int" else "a variable number of"} bytes'))
        ph = _Phase(sh.lenloc, sh.slotloc)
        out = ph.run(g.node, (size, name))
        for st in out.normal:
            ph.rets.add((st[0], st[1], False))
        for ln, slot, may_pass in ph.rets:
            if may_pass:
                todo.append((slot, ln))
    r.extra['handshake_configurations'] = [f'{n}:{_show(s) if s[0] == "int" else "N"}' for n, s in seen]
    if bad:
        for node, msg in bad:
            r.fail(f'{key}:{norm(node)[:60]}', where(f, node), msg)
    else:
        r.ok(key, f'{len(seen)} (phase, chunk size) configurations: ' + ' -> '.join(r.extra['handshake_configurations']), where(f))
    return seen


def stale_copies(prog, ci, f):
    """[(node, local, location, writers)]: inside a loop of the receive function a local working copy of a per-connection
    attribute is read after a call that can reach another method of the class which writes that attribute, without
    being refreshed from the attribute in between (added after seeded change C14-4: TwistedWrapper.process sliced a
    local `buf` while the last handshake phase hands over and clears self.__buf; the copy still held the delivered
    bytes, the loop ran the always-false phase on them and closed a verified connection)"""
    raw = f
    copies = {}
    for n in raw.own_nodes():
        if isinstance(n, ast.Assign):
            locs = {loc_of(t) for t in n.targets if not isinstance(t, ast.Name) and loc_of(t)}
            deps = {loc_of(x) for x in ast.walk(n.value) if isinstance(x, ast.Attribute) and loc_of(x)}
            for t in n.targets:
                if isinstance(t, ast.Name):
                    for l in locs | deps:
                        if l and l.startswith('self.') and '[' not in l:
                            copies.setdefault(t.id, set()).add(l)
    if not copies:
        return []
    cls = f.cls
    meths = {m.name: m for m in ci.raw} if hasattr(ci, 'raw') else {}
    # methods a slot attribute can hold (self.slot = self.m anywhere in the class)
    slot_vals = {}
    for m in meths.values():
        for n in m.own_nodes():
            if isinstance(n, ast.Assign) and isinstance(n.value, ast.Attribute) and isinstance(n.value.value, ast.Name) and n.value.value.id == 'self' and n.value.attr in meths:
                for t in n.targets:
                    l = loc_of(t)
                    if l and l.startswith('self.'):
                        slot_vals.setdefault(l, set()).add(n.value.attr)

    def reach(names):
        seen, todo = set(), list(names)
        while todo:
            x = todo.pop()
            if x in seen or x not in meths:
                continue
            seen.add(x)
            for c in meths[x].calls():
                fn = c.func
                if isinstance(fn, ast.Attribute) and isinstance(fn.value, ast.Name) and fn.value.id == 'self':
                    if fn.attr in meths:
                        todo.append(fn.attr)
                    todo.extend(slot_vals.get('self.' + fn.attr, ()))
        return seen

    def writers_of(l):
        out = set()
        for m in meths.values():
            if m.qname == f.qname or m.name == '__init__':
                continue
            for n in m.own_nodes():
                tg = n.targets if isinstance(n, ast.Assign) else ([n.target] if isinstance(n, (ast.AugAssign, ast.AnnAssign)) else [])
                if any(loc_of(t) == l for t in tg):
                    out.add(m.name)
        return out

    found = []
    for lp in [n for n in raw.own_nodes() if isinstance(n, (ast.While, ast.For))]:
        body_nodes = [x for b in lp.body for x in ast.walk(b)]
        for local, ls in sorted(copies.items()):
            used = any(isinstance(x, ast.Name) and x.id == local and isinstance(x.ctx, ast.Load) for x in body_nodes + (list(ast.walk(lp.test)) if isinstance(lp, ast.While) else []))
            if not used:
                continue
            for l in sorted(ls):
                ws = writers_of(l)
                if not ws:
                    continue
                called = set()
                for x in body_nodes:
                    if isinstance(x, ast.Call) and isinstance(x.func, ast.Attribute) and isinstance(x.func.value, ast.Name) and x.func.value.id == 'self':
                        called |= reach({x.func.attr} | slot_vals.get('self.' + x.func.attr, set()))
                hit = sorted(ws & called)
                if not hit:
                    continue
                # refreshed from the attribute inside the loop?
                fresh = any(
                    isinstance(x, ast.Assign)
                    and any(isinstance(t, ast.Name) and t.id == local for t in x.targets)
                    and any(isinstance(y, ast.Attribute) and loc_of(y) == l for y in ast.walk(x.value))
                    for x in body_nodes
                )
                if not fresh:
                    found.append((lp, local, l, hit))
    return found


def _rule1(ctx, rep):
    prog = ctx.prog
    with rep.rule(
        'R-C14-1',
        'reassembly loops: one symbolic iteration from every header/body state re-establishes the framing invariant',
        floor=4,
        breaks='some way of cutting or coalescing the byte stream yields other messages than whole-message delivery '
        '(short read taken for a unit, unit left in the buffer, header taken for a body)',
    ) as r:
        r.note('clause "needed recomputed at the end of every iteration" is decided semantically: a stale amount fails consume/exit, '
               'no particular statement position is required')
        widths = {}
        for q in LOOP_ANCHORS:
            f = prog.func(q)
            rep.analysed(f)
            r.instance()
            ci, sh, fl = analyse_loop(prog, f)
            stale = stale_copies(prog, ci, f)
            for lp, local, l, hit in stale:
                r.fail(
                    f'{q}:stale-working-copy:{l}',
                    where(f, lp),
                    f'{q} consumes the local copy "{local}" of {l} in its loop although {", ".join(hit)} (reached from a call inside the loop) writes {l}: after such a call the copy is stale and the loop goes on with bytes that were already handed over or dropped',
                )
            if stale:
                continue
            if fl is None:
                for clause, node, msg in sh.errors:
                    r.fail(f'{q}:{clause}', where(f, node), msg)
                continue
            probs = dict(fl.problems)
            for clause, node, msg in sh.errors:
                probs.setdefault((clause, _short(node)), (node, msg))
            r.extra.setdefault('symbolic', {})[q] = dict(
                buffer=sh.bufloc, expected_length=sh.lenloc, style=sh.mode, states=sorted(sh.kinds), steps=fl.visited, **fl.counts
            )
            for clause, title in (_CLAUSES_PEEK if sh.mode == 'peek' else _CLAUSES):
                mine = [(k, v) for k, v in probs.items() if k[0] == clause]
                if not mine:
                    r.ok(f'{q}:{clause}', title, where(f))
                for (c, text), (node, msg) in mine:
                    r.fail(f'{q}:{clause}' + (f':{text}' if text else ''), where(f, node), msg)
            listed = {c for c, _t in (_CLAUSES_PEEK if sh.mode == 'peek' else _CLAUSES)}
            for (c, text), (node, msg) in probs.items():
                if c not in listed and not c.startswith('gate-'):  # gate-*: reported by R-C14-2
                    r.fail(f'{q}:{c}' + (f':{text}' if text else ''), where(f, node), msg)
            if sh.mode == 'peek' or 'none' in sh.kinds:
                ws = {w for w, _f in fl.hdr}
                widths[q] = ws
                r.check(
                    len(ws) == 1 and fl.exit_widths <= ws and all(_FMT_OK.match(fm) for _w, fm in fl.hdr),
                    f'{q}:header-width',
                    where(f),
                    f'header of {sorted(ws)} bytes decoded with {sorted(fm for _w, fm in fl.hdr)}; same width starves the loop exit',
                    f'header widths disagree or are not a 4-byte big-endian field: decoded {sorted(fl.hdr)}, width tested at exit {sorted(fl.exit_widths)}',
                )
            elif sh.slotloc:
                phase_chain(prog, ci, sh, r, f)
            else:
                r.fail(f'{q}:alternate', where(f), 'expected length is never None and no phase slot drives it: framing not understood')


# ---------------------------------------------------------------------------
# R-C14-2: the handshake gate


def _dr_write(node):
    """(object expr, value expr) when node stores some object's dataReceived"""
    if (
        isinstance(node, ast.Call)
        and isinstance(node.func, ast.Name)
        and node.func.id == 'setattr'
        and len(node.args) == 3
        and isinstance(node.args[1], ast.Constant)
        and node.args[1].value == 'dataReceived'
    ):
        return node.args[0], node.args[2]
    if (
        isinstance(node, ast.Assign)
        and len(node.targets) == 1
        and isinstance(node.targets[0], ast.Attribute)
        and node.targets[0].attr == 'dataReceived'
    ):
        return node.targets[0].value, node.value
    return None


def _dr_read(node, obj_name):
    """getattr(obj, 'dataReceived') / obj.dataReceived"""
    if (
        isinstance(node, ast.Call)
        and isinstance(node.func, ast.Name)
        and node.func.id == 'getattr'
        and len(node.args) == 2
        and isinstance(node.args[0], ast.Name)
        and node.args[0].id == obj_name
        and isinstance(node.args[1], ast.Constant)
        and node.args[1].value == 'dataReceived'
    ):
        return True
    return (
        isinstance(node, ast.Attribute)
        and node.attr == 'dataReceived'
        and isinstance(node.value, ast.Name)
        and node.value.id == obj_name
    )


class _Install(Flow):
    """TwistedWrapper.__init__: state = (saved original?, installed?, excused?)"""

    def __init__(self, prog, f, proto, addr, procq):
        super().__init__()
        self.prog, self.f, self.proto, self.addr, self.procq = prog, f, proto, addr, procq
        self.drloc = None
        self.sites = []
        self.bad = []

    def _site(self, node, st):
        w = _dr_write(node)
        if w is None:
            return None
        obj, val = w
        if not (isinstance(obj, ast.Name) and obj.id == self.proto):
            self.bad.append((node, f'{norm(node)} replaces dataReceived of something that is not the wrapped protocol'))
            return st
        if self.prog.resolve_in(val, self.f) != self.procq:
            self.bad.append((node, f'{norm(node)} does not install the handshake reassembly function'))
            return st
        self.sites.append(node)
        if not st[0]:
            self.bad.append((node, f'{norm(node)}: the original dataReceived has not been saved on every path to the replacement'))
        return (st[0], True, st[2])

    def on_call(self, call, st):
        r = self._site(call, st)
        return (st if r is None else r,)

    def on_stmt(self, s, st):
        r = self._site(s, st)
        if r is not None:
            return (r,)
        if isinstance(s, ast.Assign) and len(s.targets) == 1 and _dr_read(s.value, self.proto):
            l = loc_of(s.targets[0])
            if l and l.startswith('self.'):
                if st[1]:
                    self.bad.append((s, f'{norm(s)} reads dataReceived after it was replaced: the saved original would be the handshake itself'))
                self.drloc = l
                return ((True, st[1], st[2]),)
        return (st,)

    def on_test(self, e, st):
        # accepted excuses for not installing: no peer address, protocol without dataReceived
        excuse = (isinstance(e, ast.Name) and e.id == self.addr) or (
            isinstance(e, ast.Compare)
            and any(isinstance(n, ast.Constant) and n.value == 'dataReceived' for n in ast.walk(e))
            and any(isinstance(n, ast.Name) and n.id == self.proto for n in ast.walk(e))
        ) or (
            isinstance(e, ast.Call) and isinstance(e.func, ast.Name) and e.func.id == 'hasattr'
            and any(isinstance(n, ast.Constant) and n.value == 'dataReceived' for n in ast.walk(e))
        )
        if excuse:
            return (st,), ((st[0], st[1], True),)
        return (st,), (st,)


class _Restore(Flow):
    """the phase that restores dataReceived.

    state: sig / echo in '?TF' ('-' echo not compared yet); bools = what each boolean-valued name (or <response>.valid)
    currently stands for: 'sig' | 'echo' | 'true' | 'false' | 'unknown'; dr in '?SN' (saved original known Some / None);
    restored, delivered, cleared; slot (next phase); taint (names derived from the received bytes)
    """

    S = namedtuple('S', 'sig echo bools dr restored delivered cleared slot resp taint')

    def __init__(self, prog, f, ci, bufloc, slotloc, drloc, ploc, challenge_ok):
        super().__init__()
        self.prog, self.f, self.ci = prog, f, ci
        self.bufloc, self.slotloc, self.drloc, self.ploc = bufloc, slotloc, drloc, ploc
        self.challenge_ok = challenge_ok
        self.bad = {}
        self.restores = []
        self.deliveries = []
        self.returns = 0
        self.echo_cmp = []
        self.final_slots = set()

    def problem(self, node, msg):
        self.bad.setdefault(_short(node), (node, msg))

    def valid(self, st):
        return st.sig == 'T' and st.echo == 'T'

    def key(self, e, st):
        if isinstance(e, ast.Name):
            return e.id
        if isinstance(e, ast.Attribute) and e.attr == 'valid' and isinstance(e.value, ast.Name) and e.value.id == st.resp:
            return e.value.id + '.valid'
        return None

    def src(self, e, st):
        k = self.key(e, st)
        if k is None:
            return None
        for kk, v in st.bools:
            if kk == k:
                return v
        return None

    def bind(self, st, k, v):
        return st._replace(bools=frozenset({(a, b) for a, b in st.bools if a != k} | ({(k, v)} if v else set())))

    def tainted(self, e, st):
        return any(isinstance(n, ast.Name) and n.id in st.taint for n in ast.walk(e))

    def is_echo(self, e, st):
        """+1: e is  <decrypted reply> == <transmitted challenge>;  -1: the same with != ; 0: something else"""
        if not (isinstance(e, ast.Compare) and len(e.ops) == 1 and isinstance(e.ops[0], (ast.Eq, ast.NotEq))):
            return 0
        a, b = e.left, e.comparators[0]
        for x, y in ((a, b), (b, a)):
            locs = {loc_of(n) for n in ast.walk(y) if isinstance(n, ast.Attribute)} - {None}
            if self.tainted(x, st) and not self.tainted(y, st) and any(self.challenge_ok(l) for l in locs):
                return 1 if isinstance(e.ops[0], ast.Eq) else -1
        return 0

    def classify(self, v, st, node):
        """what a boolean value stands for; registers an echo comparison"""
        neg = False
        while isinstance(v, ast.UnaryOp) and isinstance(v.op, ast.Not):
            v, neg = v.operand, not neg
        ec = self.is_echo(v, st)
        if ec:
            self.echo_cmp.append(node)
            if st.sig != 'T':
                self.problem(node, f'{norm(node)[:80]}: the echo comparison decides on a path where the signature is {st.sig}, not verified')
            return ('echo' if (ec > 0) != neg else 'not-echo'), st._replace(echo='?' if st.echo == '-' else st.echo)
        if isinstance(v, ast.Constant):
            return ('true' if bool(v.value) != neg else 'false'), st
        sv = self.src(v, st)
        if sv is not None:
            flip = {'sig': 'not-sig', 'not-sig': 'sig', 'echo': 'not-echo', 'not-echo': 'echo', 'true': 'false', 'false': 'true'}
            return (flip.get(sv, 'unknown') if neg else sv), st
        if isinstance(v, ast.BoolOp) and isinstance(v.op, ast.And) and not neg:
            # a conjunction is at most as true as each conjunct: stands for the strongest known conjunct
            got = []
            for x in v.values:
                c, st = self.classify(x, st, node)
                got.append(c)
            for want in ('false', 'echo', 'sig'):
                if want in got:
                    return want, st
        return 'unknown', st

    def _restore(self, node, st):
        w = _dr_write(node)
        if w is None:
            return None
        obj, val = w
        self.restores.append(node)
        if not self.valid(st):
            self.problem(node, f'{norm(node)} is reachable with signature={st.sig} echo={st.echo}: the application receiver is restored without a verified signature AND an equal echo')
        if loc_of(obj) != self.ploc or loc_of(val) != self.drloc:
            self.problem(node, f'{norm(node)} does not put the saved original receiver back on the wrapped protocol')
        return st._replace(restored=True)

    def on_call(self, call, st):
        r = self._restore(call, st)
        if r is not None:
            return (r,)
        if loc_of(call.func) == self.drloc:
            self.deliveries.append(call)
            if not self.valid(st):
                self.problem(call, f'{norm(call)} delivers data to the application with signature={st.sig} echo={st.echo}')
            if not (len(call.args) == 1 and loc_of(call.args[0]) == self.bufloc and not call.keywords):
                self.problem(call, f'{norm(call)} does not deliver the residual buffer')
            elif st.cleared:
                self.problem(call, f'{norm(call)}: the residual buffer was cleared before it was delivered')
            return (st._replace(delivered=True),)
        t = self.ci.self_targets(call, self.f)
        if t is not None:
            mw = {'*'} if t[1] is None else set().union(*[self.ci.maywrite(g) for g in t[1]]) if t[1] else set()
            if mw & {'*', self.bufloc, self.slotloc, self.drloc, self.ploc}:
                self.problem(call, f'{norm(call)} may rewrite the handshake state: not understood')
        return (st,)

    def on_stmt(self, s, st):
        r = self._restore(s, st)
        if r is not None:
            return (r,)
        if isinstance(s, (ast.Assign, ast.AnnAssign)) and s.value is not None:
            tg = s.targets if isinstance(s, ast.Assign) else [s.target]
            for t in _flat_targets(tg):
                l = loc_of(t)
                v = s.value
                k = self.key(t, st)
                if isinstance(t, ast.Name) and isinstance(v, ast.Call) and call_name(v) == 'verify' and v.args and self.tainted(v.args[0], st):
                    st = st._replace(resp=t.id, sig='?', echo='-', bools=frozenset())
                    st = self.bind(st, t.id + '.valid', 'sig')
                    st = st._replace(taint=st.taint - {t.id})
                    continue
                if isinstance(t, ast.Name) and t.id == st.resp:
                    st = self.bind(st._replace(resp=None), t.id + '.valid', None)
                if k is not None:
                    c, st = self.classify(v, st, s)
                    st = self.bind(st, k, c)
                if isinstance(t, ast.Name):
                    if self.tainted(v, st):
                        st = st._replace(taint=st.taint | {t.id})
                    else:
                        st = st._replace(taint=st.taint - {t.id})
                elif l == self.slotloc:
                    st = st._replace(slot=v.attr if isinstance(v, ast.Attribute) and loc_of(v) else '?')
                elif l == self.bufloc:
                    if isinstance(v, ast.Constant) and v.value == b'':
                        if not st.delivered:
                            self.problem(s, f'{norm(s)}: the residual buffer is cleared on a path where it was not delivered')
                        st = st._replace(cleared=True)
                    else:
                        self.problem(s, f'{norm(s)}: the buffer is rewritten by the restoring phase')
                elif l in (self.drloc, self.ploc):
                    self.problem(s, f'{norm(s)} rebinds the saved receiver / protocol')
        elif isinstance(s, ast.AugAssign):
            l = loc_of(s.target)
            if l in (self.bufloc, self.drloc, self.ploc, self.slotloc):
                self.problem(s, f'{norm(s)}: not understood')
            k = self.key(s.target, st)
            if k is not None:
                st = self.bind(st, k, 'unknown')
        return (st,)

    def refine(self, c, st):
        """(true states, false states) of a boolean standing for c"""
        if c in ('sig', 'not-sig'):
            if st.sig == '?':
                t, f = (st._replace(sig='T'),), (st._replace(sig='F'),)
            else:
                t, f = ((st,), ()) if st.sig == 'T' else ((), (st,))
            return (t, f) if c == 'sig' else (f, t)
        if c in ('echo', 'not-echo'):
            if st.echo in '?-':
                t, f = (st._replace(echo='T'),), (st._replace(echo='F'),)
            else:
                t, f = ((st,), ()) if st.echo == 'T' else ((), (st,))
            return (t, f) if c == 'echo' else (f, t)
        if c == 'true':
            return (st,), ()
        if c == 'false':
            return (), (st,)
        return (st,), (st,)

    def on_test(self, e, st):
        c = self.src(e, st)
        if c is not None:
            return self.refine(c, st)
        if self.is_echo(e, st):
            c, st = self.classify(e, st, e)
            return self.refine(c, st)
        if isinstance(e, ast.Compare) and len(e.ops) == 1 and loc_of(e.left) == self.drloc:
            c = e.comparators[0]
            if isinstance(c, ast.Constant) and c.value is None and isinstance(e.ops[0], (ast.Is, ast.IsNot)):
                some, none = (st._replace(dr='S'),) if st.dr in '?S' else (), (st._replace(dr='N'),) if st.dr in '?N' else ()
                return (none, some) if isinstance(e.ops[0], ast.Is) else (some, none)
        if loc_of(e) == self.drloc:
            return ((st._replace(dr='S'),) if st.dr in '?S' else ()), ((st._replace(dr='N'),) if st.dr in '?N' else ())
        return (st,), (st,)

    def on_return(self, node, st):
        self.returns += 1
        v = node.value
        if v is None:
            may_t, may_f = False, True
        else:
            c, st2 = self.classify(v, st, node)
            t, f = self.refine(c, st2)
            may_t, may_f = bool(tuple(t)), bool(tuple(f))
            if c in ('echo', 'not-echo', 'sig', 'not-sig') and may_t and may_f:
                # returned undecided: evaluate both outcomes
                for sx in tuple(t):
                    self._ret(node, sx, True, False)
                for sx in tuple(f):
                    self._ret(node, sx, False, True)
                return (st,)
        self._ret(node, st, may_t, may_f)
        return (st,)

    def _ret(self, node, st, may_t, may_f):
        if may_t and not self.valid(st):
            self.problem(node, f'{norm(node)} can report success with signature={st.sig} echo={st.echo}: a failed handshake would not close the connection')
        if self.valid(st):
            if may_f and not may_t:
                self.problem(node, f'{norm(node)} reports failure after a verified signature and an equal echo')
            if st.dr != 'N' and not (st.restored and st.delivered and st.cleared):
                self.problem(
                    node,
                    f'a successful handshake can end with restored={st.restored} delivered={st.delivered} cleared={st.cleared}: '
                    'bytes that arrived with the last packet are lost, or stay in the handshake buffer and kill the connection',
                )
        self.final_slots.add(st.slot)


class _Ctor(Flow):
    """protocol constructor: state = (tls in '?TF', wrapped)"""

    def __init__(self, prog, f):
        super().__init__()
        self.prog, self.f = prog, f
        self.sites = []

    def on_test(self, e, st):
        if isinstance(e, ast.Call) and self.prog.resolve_in(e.func, self.f) == 'dawgie.security.use_tls':
            t = ((('T', st[1]),) if st[0] in '?T' else ())
            f = ((('F', st[1]),) if st[0] in '?F' else ())
            return t, f
        return (st,), (st,)

    def on_call(self, call, st):
        if self.prog.resolve_in(call.func, self.f) == WRAPPER:
            self.sites.append((call, st))
            return ((st[0], True),)
        return (st,)


def _always_false(prog, ci, g):
    class R(Flow):
        def __init__(self):
            super().__init__()
            self.ok = True

        def on_return(self, node, st):
            if not (isinstance(node.value, ast.Constant) and node.value.value is False):
                self.ok = False
            return (st,)

    fl = R()
    out = fl.run(g.node, 0)
    return fl.ok and not out.normal and bool(out.ret) and not ci.maywrite(g)


def _rule2(ctx, rep):
    prog = ctx.prog
    cls = prog.cls(WRAPPER)
    proc = prog.func(WRAPPER + '.process')
    init = prog.method(WRAPPER, '__init__')
    if init is None:
        raise AnalysisError('TwistedWrapper.__init__ not found')
    ci, sh, lf = analyse_loop(prog, proc)
    rep.analysed(proc, init)
    init = ci.nf(init)
    with rep.rule(
        'R-C14-2',
        'handshake gate: the application receiver is replaced at construction and comes back only after a verified signature and an equal echo',
        floor=10,
        breaks='an application message is processed before / without a verified handshake, bytes that arrive with the last '
        'handshake packet are lost, or a failed handshake leaves the connection open',
    ) as r:
        r.note('not required: restoration before residual delivery inside the last phase (the saved bound method is called directly, '
               'both orders deliver the same bytes); listenTCP/listenSSL selection is outside this rule')
        ps = [p for p in init.params() if p != 'self']
        if len(ps) < 2:
            raise AnalysisError('TwistedWrapper.__init__ no longer takes (protocol, address)')
        proto, addr = ps[0], ps[1]
        # (a) install
        r.instance()
        ins = _Install(prog, init, proto, addr, proc.qname)
        out = ins.run(init.node, (False, False, False))
        missing = [st for st in out.normal | out.ret if not st[1] and not st[2]]
        key = f'{init.qname}:install'
        if not ins.sites:
            r.fail(key, where(init), 'the constructor never replaces dataReceived of the wrapped protocol by the handshake')
        elif ins.bad:
            for node, msg in ins.bad:
                r.fail(f'{key}:{_short(node)}', where(init, node), msg)
        else:
            r.check(
                not missing,
                key,
                where(init, ins.sites[0]),
                f'{norm(ins.sites[0])} on every path except (no address | protocol without dataReceived); original saved first in {ins.drloc}',
                'the constructor can return without having replaced dataReceived although an address was given and the protocol has a dataReceived',
            )
        drloc = ins.drloc
        ploc = None
        for l, ws in ci.writes.items():
            if len(ws) == 1 and ws[0][0].qname == init.qname and isinstance(ws[0][1], ast.Name) and ws[0][1].id == proto:
                ploc = l
        # (b) who writes dataReceived / calls the saved original, anywhere
        restorers = restoring_funcs(prog, ci)
        for g, node in attr_stores(prog).get('dataReceived', []):
            r.instance()
            okw = g.cls is cls and ci.lift(g) <= {init.qname} | {x.qname for x in restorers}
            r.check(
                okw,
                f'{g.qname}:writes-dataReceived',
                where(g, node),
                'constructor (install) or restoring phase',
                f'{g.qname} rebinds dataReceived outside the handshake wrapper: the gate can be bypassed',
                nontrivial=False,
            )
        if drloc:
            callers = {q for g in ci.methods for c in g.calls() if loc_of(c.func) == drloc for q in ci.lift(g)}
            readers = {
                q
                for g in ci.methods
                for n in g.own_nodes()
                if isinstance(n, ast.Attribute) and isinstance(n.ctx, ast.Load) and loc_of(n) == drloc
                for q in ci.lift(g)
            }
            r.instance()
            r.check(
                (callers | readers) <= {g.qname for g in restorers},
                f'{WRAPPER}:saved-receiver-users',
                where(init),
                f'{drloc} is read only by {sorted(readers)}',
                f'the saved application receiver {drloc} is used outside the restoring phase: {sorted((callers | readers) - {g.qname for g in restorers})}',
            )
        # (c) the restoring phase(s)
        if not restorers:
            r.fail(f'{WRAPPER}:restore', where(proc), 'no phase restores the application receiver: nothing is ever delivered')
        if not (drloc and ploc and sh.bufloc and sh.slotloc):
            r.fail(f'{WRAPPER}:shape', where(init), f'wrapper state not understood (saved receiver {drloc}, protocol {ploc}, buffer {sh.bufloc}, phase slot {sh.slotloc})')
            restorers = []

        def challenge_ok(loc):
            """loc is written by another method which also transmits it (the challenge the peer must echo)"""
            for g, _v in ci.writes_of(loc):
                if g.qname == init.qname or g.qname in {x.qname for x in restorers}:
                    continue
                names = {loc}
                for n in g.own_nodes():
                    if isinstance(n, ast.Assign) and any(loc_of(x) in names for x in ast.walk(n.value) if isinstance(x, (ast.Attribute, ast.Name))):
                        names |= {t.id for t in n.targets if isinstance(t, ast.Name)}
                for c in g.calls():
                    if call_name(c) in ('write', 'sendall', 'send') and any(
                        loc_of(x) in names for a in c.args for x in ast.walk(a) if isinstance(x, (ast.Attribute, ast.Name))
                    ):
                        return True
            return False

        for g in restorers:
            r.instance()
            rep.analysed(g)
            g = ci.nf(g)
            dp = data_param(g)
            fl = _Restore(prog, g, ci, sh.bufloc, sh.slotloc, drloc, ploc, challenge_ok)
            st0 = _Restore.S('?', '-', frozenset(), '?', False, False, False, None, None, frozenset({dp}))
            out = fl.run(g.node, st0)
            for st in out.normal:
                fl.on_return(ast.Return(value=None), st)
            r.extra.setdefault('restore_flow', {})[g.qname] = dict(steps=fl.visited, restores=len(fl.restores), deliveries=len(fl.deliveries), returns=fl.returns)
            key = f'{g.qname}:restore'
            if not fl.echo_cmp:
                fl.problem(g.node, 'no comparison of the decrypted reply with the transmitted challenge feeds the verdict')
            if not fl.deliveries:
                fl.problem(g.node, 'the residual buffer is never delivered to the restored receiver')
            if fl.bad:
                for text, (node, msg) in fl.bad.items():
                    r.fail(key + (f':{text}' if text else ''), where(g, node), msg)
            else:
                r.ok(key, f'{len(fl.restores)} restoration(s), {len(fl.deliveries)} delivery: only with signature=T and echo=T; success implies restored, delivered, then cleared', where(g, fl.restores[0]))
            # (e) afterwards the always-false phase
            r.instance()
            slots = fl.final_slots
            finals = [prog.method(WRAPPER, sname) if sname and sname != '?' else None for sname in slots]
            r.check(
                bool(finals) and all(m is not None and _always_false(prog, ci, m) for m in finals),
                f'{g.qname}:final-phase',
                where(g),
                f'every exit leaves the phase {sorted(map(str, slots))}, which returns False on all paths and writes nothing',
                f'after the restoring phase the next phase is {sorted(map(str, slots))}: not on every exit a phase that always fails (the handshake could be replayed / continued)',
            )
        # (d) failure closes the connection and leaves the loop
        r.instance()
        if lf is None:
            r.fail(f'{proc.qname}:gate', where(proc), 'reassembly function not understood (see R-C14-1)')
        else:
            gate = [(k, v) for k, v in lf.problems.items() if k[0].startswith('gate-')]
            if not lf.counts.get('phase calls'):
                r.fail(f'{proc.qname}:gate', where(proc), 'no call of the current phase with the chunk was found')
            for (c, text), (node, msg) in gate:
                r.fail(f'{proc.qname}:{c}' + (f':{text}' if text else ''), where(proc, node), msg)
            if not gate and lf.counts.get('phase calls'):
                r.ok(f'{proc.qname}:gate', 'a falsy phase result reaches loseConnection() on every path and no phase runs afterwards in the same call', where(proc))
        # (f) every protocol constructor installs the wrapper exactly when TLS is off
        for c in sorted(prog.classes.values(), key=lambda c: c.qname):
            if 'dataReceived' not in c.methods or c is cls:
                continue
            r.instance()
            ctor = prog.method(c.qname, '__init__')
            key = f'{c.qname}:wrapped-iff-not-tls'
            if ctor is None:
                r.fail(key, mwhere(c.module, c.node), 'protocol class without a constructor of its own: the handshake wrapper is never installed')
                continue
            rep.analysed(ctor)
            ctor = ClassInfo(prog, prog.classes[ctor.qname.rsplit('.', 1)[0]]).nf(ctor) if ctor.qname.rsplit('.', 1)[0] in prog.classes else ctor
            cf = _Ctor(prog, ctor)
            out = cf.run(ctor.node, ('?', False))
            msgs = []
            for call, st in cf.sites:
                if st[0] != 'F':
                    msgs.append(f'{norm(call)} is reachable with use_tls() {"true" if st[0] == "T" else "untested"}: a TLS peer would have its first messages eaten by the handshake')
                if not (len(call.args) == 2 and isinstance(call.args[0], ast.Name) and call.args[0].id == 'self' and not isinstance(call.args[1], ast.Constant)):
                    msgs.append(f'{norm(call)} is not TwistedWrapper(self, <peer address>)')
                if st[1]:
                    msgs.append(f'{norm(call)} wraps the protocol twice')
            for st in out.normal | out.ret:
                if st[0] != 'T' and not st[1]:
                    msgs.append('the constructor can finish without the handshake wrapper although use_tls() is false: messages are accepted from an unverified peer')
            r.check(not msgs, key, where(ctor, cf.sites[0][0] if cf.sites else None), 'TwistedWrapper(self, address) on exactly the paths where use_tls() is false', '; '.join(sorted(set(msgs))))


# ---------------------------------------------------------------------------
# R-C14-3 / R-C14-4


def _module_funcs(prog, mname):
    m = prog.module(mname)
    return [f for f in prog.funcs.values() if f.module is m]


def _rule3(ctx, rep):
    prog = ctx.prog
    with rep.rule(
        'R-C14-3',
        'framing agreement: every struct.pack/unpack of the farm, database, log and handshake channels uses big-endian unsigned 4-byte fields',
        floor=8,  # roles (channel module, encode|decode) that have at least one site; every site found is an obligation
        breaks='sender and receiver disagree on the width or byte order of the length prefix: the receiver cuts the stream at the wrong places '
        '(the log channel sender is logging.handlers.SocketHandler, which is fixed to ">L")',
    ) as r:
        roles, sites = set(), 0
        for mn in ANCHOR_MODULES:
            for f in sorted(_module_funcs(prog, mn), key=lambda f: f.qname):
                for c in sorted(f.calls(), key=lambda c: (c.lineno, c.col_offset)):
                    q = prog.resolve_in(c.func, f) or ''
                    if not (q.startswith('external:struct.') and q.rsplit('.', 1)[1] in ('pack', 'unpack', 'unpack_from', 'pack_into', 'calcsize', 'iter_unpack', 'Struct')):
                        continue
                    role = (mn, 'encode' if 'pack' in q.rsplit('.', 1)[1] and 'unpack' not in q else 'decode')
                    if role not in roles:
                        roles.add(role)
                        r.instance()
                    sites += 1
                    rep.analysed(f)
                    fmt = c.args[0] if c.args else None
                    key = f'{f.qname}:{norm(c)[:70]}'
                    if not (isinstance(fmt, ast.Constant) and isinstance(fmt.value, str)):
                        r.fail(key, where(f, c), f'{norm(c)[:70]}: format is not a literal, framing cannot be compared')
                        continue
                    r.check(
                        bool(_FMT_OK.match(fmt.value)),
                        key,
                        where(f, c),
                        f'{fmt.value!r}: big-endian, {_struct.calcsize(fmt.value) if _FMT_OK.match(fmt.value) else "?"} bytes',
                        f'{norm(c)[:70]} uses format {fmt.value!r}, not big-endian unsigned 4-byte fields like every other end of the channels',
                        nontrivial=False,
                    )
        r.extra['sites'] = sites
        r.extra['roles'] = sorted(f'{m}:{d}' for m, d in roles)


def _is_len_of(e, text):
    return isinstance(e, ast.Call) and isinstance(e.func, ast.Name) and e.func.id == 'len' and len(e.args) == 1 and norm(e.args[0]) == text


def _appended(loop, call, acc=None):
    """the accumulator the recv result is appended to inside the loop (directly or through one local), else None"""
    names = set()
    for s in ast.walk(loop):
        if isinstance(s, ast.Assign) and s.value is call:
            names |= {t.id for t in s.targets if isinstance(t, ast.Name)}

    def is_res(v):
        return v is call or (isinstance(v, ast.Name) and v.id in names)

    for s in ast.walk(loop):
        if isinstance(s, ast.AugAssign) and isinstance(s.op, ast.Add) and is_res(s.value):
            if acc is None or norm(s.target) == acc:
                return norm(s.target), names
        if isinstance(s, ast.Assign) and len(s.targets) == 1 and isinstance(s.value, ast.BinOp) and isinstance(s.value.op, ast.Add):
            if norm(s.value.left) == norm(s.targets[0]) and is_res(s.value.right) and (acc is None or norm(s.targets[0]) == acc):
                return norm(s.targets[0]), names
        if isinstance(s, ast.Call) and isinstance(s.func, ast.Attribute) and s.func.attr in ('append', 'extend', 'write') and len(s.args) == 1 and is_res(s.args[0]):
            if acc is None or norm(s.func.value) == acc:
                return norm(s.func.value), names
    return None, names


def _recv_ok(f, call, parent):
    """accepted idioms (each keeps reading until the announced total is there):

    A  while len(B) < T [T > len(B) | len(B) != T | not len(B) >= T]:  B += s.recv(T - len(B))
    B  while R [R > 0 | 0 < R | R != 0]:  x = s.recv(R); B += x (or B.append(x)); R -= len(x)
    C  s.recv(n, socket.MSG_WAITALL)
    the result may go through one local; a test of the result for end-of-file in between is fine
    """
    if len(call.args) == 2 and norm(call.args[1]).endswith('MSG_WAITALL'):
        return True, 'MSG_WAITALL'
    if len(call.args) != 1 or call.keywords:
        return False, 'unexpected arguments'
    a = call.args[0]
    loops = []
    n = call
    while id(n) in parent:
        n = parent[id(n)]
        if isinstance(n, ast.While):
            loops.append(n)
    if not loops:
        return False, f'is not inside a loop that goes on until {norm(a)} bytes have arrived'
    # idiom A
    if isinstance(a, ast.BinOp) and isinstance(a.op, ast.Sub) and isinstance(a.right, ast.Call) and isinstance(a.right.func, ast.Name) and a.right.func.id == 'len' and len(a.right.args) == 1:
        total, acc = norm(a.left), norm(a.right.args[0])
        for loop in loops:
            t, neg = loop.test, False
            if isinstance(t, ast.UnaryOp) and isinstance(t.op, ast.Not):
                t, neg = t.operand, True
            if isinstance(t, ast.Compare) and len(t.ops) == 1:
                l, rr, op = t.left, t.comparators[0], t.ops[0]
                short = (
                    (not neg and isinstance(op, (ast.Lt, ast.NotEq)) and _is_len_of(l, acc) and norm(rr) == total)
                    or (not neg and isinstance(op, (ast.Gt, ast.NotEq)) and _is_len_of(rr, acc) and norm(l) == total)
                    or (neg and isinstance(op, (ast.GtE, ast.Eq)) and _is_len_of(l, acc) and norm(rr) == total)
                    or (neg and isinstance(op, (ast.LtE, ast.Eq)) and _is_len_of(rr, acc) and norm(l) == total)
                )
                if short:
                    got, _n = _appended(loop, call, acc)
                    if got is None:
                        return False, f'its result is not appended to {acc} inside the loop'
                    return True, f'while len({acc}) < {total}'
        return False, f'is not inside a loop  while len({acc}) < {total}'
    # idiom B
    if isinstance(a, ast.Name):
        R = a.id
        for loop in loops:
            t = loop.test
            ok = (isinstance(t, ast.Name) and t.id == R) or (
                isinstance(t, ast.Compare)
                and len(t.ops) == 1
                and (
                    (isinstance(t.ops[0], (ast.Gt, ast.NotEq)) and norm(t.left) == R and norm(t.comparators[0]) == '0')
                    or (isinstance(t.ops[0], (ast.Lt, ast.NotEq)) and norm(t.left) == '0' and norm(t.comparators[0]) == R)
                )
            )
            if not ok:
                continue
            got, names = _appended(loop, call)
            if got is None:
                return False, 'its result is not accumulated inside the loop'
            for s in ast.walk(loop):
                if (
                    isinstance(s, ast.AugAssign)
                    and isinstance(s.op, ast.Sub)
                    and isinstance(s.target, ast.Name)
                    and s.target.id == R
                    and isinstance(s.value, ast.Call)
                    and isinstance(s.value.func, ast.Name)
                    and s.value.func.id == 'len'
                    and len(s.value.args) == 1
                    and isinstance(s.value.args[0], ast.Name)
                    and s.value.args[0].id in names
                ):
                    return True, f'while {R}: countdown by the bytes received'
            return False, f'{R} is not decreased by the number of bytes received'
    return False, f'asks for {norm(a)} bytes, not for what is still missing of the total'


def _reaches_recv(prog, f, depth=0):
    if any(isinstance(c.func, ast.Attribute) and c.func.attr == 'recv' for c in f.calls()):
        return True
    if depth >= 2:
        return False
    for c in f.calls():
        g = prog.func_of(prog.callee(c, f))
        if g is not None and g is not f and g.module is f.module and _reaches_recv(prog, g, depth + 1):
            return True
    return False


def _rule4(ctx, rep):
    prog = ctx.prog
    with rep.rule(
        'R-C14-4',
        'blocking receivers: every socket recv() accumulates until the announced number of bytes is there',
        floor=3,  # framed blocking receivers (functions that decode a length prefix from what they, or a helper, recv)
        breaks='recv(n) may return fewer than n bytes: a header or a message cut by the network is taken for the whole '
        '(struct.error, or a truncated challenge is echoed and the handshake fails)',
    ) as r:
        sites = 0
        for mn in ANCHOR_MODULES:
            for f in sorted(_module_funcs(prog, mn), key=lambda f: f.qname):
                if any(_is_unpack(prog, f, c) for c in f.calls()) and _reaches_recv(prog, f):
                    r.instance()
                parent = None
                for c in sorted(f.calls(), key=lambda c: (c.lineno, c.col_offset)):
                    if not (isinstance(c.func, ast.Attribute) and c.func.attr == 'recv'):
                        continue
                    if parent is None:
                        parent = {id(ch): p for p in ast.walk(f.node) for ch in ast.iter_child_nodes(p)}
                    sites += 1
                    rep.analysed(f)
                    ok, why = _recv_ok(f, c, parent)
                    r.check(
                        ok,
                        f'{f.qname}:{norm(c)}',
                        where(f, c),
                        why,
                        f'{norm(c)} {why}: a short read is taken for the complete field',
                    )
        r.extra['recv_sites'] = sites
        # a file object made over the socket reads ahead (8 KiB) into a buffer of its own; made per call, that buffer - and the
        # bytes of the following message in it - is thrown away when the call returns (added after seeded change C14-11:
        # message.receive read header and body through `with s.makefile('rb')`; a coalesced second message was lost)
        for mn in ANCHOR_MODULES:
            for f in sorted(_module_funcs(prog, mn), key=lambda f: f.qname):
                for c in f.calls():
                    if isinstance(c.func, ast.Attribute) and c.func.attr == 'makefile':
                        r.instance()
                        rep.analysed(f)
                        r.fail(
                            f'{f.qname}:{norm(c)[:60]}',
                            where(f, c),
                            f'{f.qname} reads the stream through {norm(c)[:40]}: the buffered reader takes more than the message from the socket and is discarded '
                            'with its read-ahead when the function returns, so messages that arrive coalesced are lost',
                        )
                        sites += 1
        if not sites:
            raise AnalysisError('no socket recv() found in the anchored modules: blocking receivers moved elsewhere')


def check(ctx):
    rep = Report(
        PID,
        ctx.tier,
        ctx.prog,
        'Decides from the source of farm.py, shelve/comms.py, logger/__init__.py, security.py and message.py: '
        '(1) each of the four reassembly functions is executed symbolically for one loop iteration from every state '
        '(expected length None / n, buffer arbitrary): the received data only extends the buffer, every slice is dominated by a '
        'successful needed <= len(buffer) test on the same contents, exactly the needed bytes leave the front once, header and body '
        'states alternate, and the function returns only with needed > len(buffer) established for the state it leaves '
        '(a loop without an expected-length state is decided in its stateless form instead: header decoded from buffer[0:H] under '
        'H <= len(buffer), message taken from exactly buffer[H:H+L] and the buffer advanced by exactly H+L only under '
        'H+L <= len(buffer), otherwise the buffer is left alone); the '
        'handshake phases are walked as (phase, chunk size) configurations; '
        '(2) the handshake wrapper replaces dataReceived at construction, only the last phase restores it, only with signature '
        'and echo verified, hands the residual buffer over before clearing it, a failed phase closes and leaves the loop, and every '
        'protocol constructor installs the wrapper exactly when use_tls() is false; '
        '(3) all length prefixes are big-endian 4-byte; (4) blocking receivers loop until the announced size. '
        'Not decided: PGP verification itself, what Twisted does after loseConnection, exceptions raised by message handlers.',
        assumptions=[
            'private (name-mangled) attributes are written only inside their class (checked program-wide for the buffer state)',
            'a call on another object does not rewrite the private stream state of this one',
            'after transport.loseConnection() Twisted delivers no further data',
        ],
    )
    rep.not_decided = [
        'PGP signature verification and decryption themselves',
        'behaviour of Twisted after loseConnection()',
        'exceptions escaping the message handlers in the middle of an iteration',
        'order of restoration and residual delivery inside the last phase (both orders deliver the same bytes)',
    ]
    _rule1(ctx, rep)
    _rule2(ctx, rep)
    _rule3(ctx, rep)
    _rule4(ctx, rep)
    from . import shared

    shared.def_time_defaults(
        ctx, rep, 'R-C14-5',
        lambda mn: mn in ANCHOR_MODULES or mn == 'dawgie.security',
        'no function of the channel modules (handshake, framing, farm, database and log protocols) has a default argument that is evaluated at import time (a call such as a clock or random source, or a run-time-assigned context setting)',
        'what should be fresh per connection (the handshake challenge: time stamp and random id) is computed once per process: a recorded handshake replays on a later connection and its application frame is processed',
    )

    return rep


_F, _C, _L, _S = 'pl/farm.py', 'db/shelve/comms.py', 'pl/logger/__init__.py', 'security.py'
_W_LEN = "length = ( self.__buf['actual'] if self.__buf['expected'] is None else self.__buf['expected'] )"
# farm loop restructured: while True / break under the needed-amount test, the header/body state cached in a boolean
# local, the needed amount a conditional expression on that local, header branch ends in continue
_F_OLD = (
    "length = self.__blen if self.__len is None else self.__len\n"
    "        while length <= len(self.__buf):\n"
    "            if self.__len is None:\n"
    "                self.__len = struct.unpack('>I', self.__buf[:length])[0]\n"
    "                self.__buf = self.__buf[length:]\n"
    "            else:\n"
    "                msg = dawgie.pl.message.loads(self.__buf[:length])\n"
    "                self.__buf = self.__buf[length:]\n"
    "                self.__len = None\n"
    "                self._process(msg)\n"
    "                pass\n"
    "\n"
    "            length = self.__blen if self.__len is None else self.__len\n"
    "            pass\n"
)


def _f_new(pre='', flag='want_header = self.__len is None', amount='self.__blen if want_header else self.__len', brk='len(self.__buf) < length', test='want_header'):
    return (
        f"{pre}while True:\n"
        f"            {flag}\n"
        f"            length = {amount}\n"
        f"            if {brk}:\n"
        "                break\n"
        f"            if {test}:\n"
        "                self.__len = struct.unpack('>I', self.__buf[:length])[0]\n"
        "                self.__buf = self.__buf[length:]\n"
        "                continue\n"
        "            msg = dawgie.pl.message.loads(self.__buf[:length])\n"
        "            self.__buf = self.__buf[length:]\n"
        "            self.__len = None\n"
        "            self._process(msg)\n"
    )


def _peek(
    head='while self.__blen <= len(self.__buf):',
    decode="length = struct.unpack('>I', self.__buf[: self.__blen])[0]",
    test='len(self.__buf) < self.__blen + length',
    leave='break',
    pre='end = self.__blen + length',
    body='self.__buf[self.__blen : end]',
    advance='self.__buf = self.__buf[end:]',
):
    """farm.Hand.dataReceived rewritten in the stateless style (replaces _F_OLD)"""
    leave = leave.replace('\n', '\n                ')
    pre = pre.replace('\n', '\n            ')
    return (
        f"{head}\n"
        f"            {decode}\n"
        f"            if {test}:\n"
        f"                {leave}\n"
        f"            {pre}\n"
        f"            msg = dawgie.pl.message.loads({body})\n"
        f"            {advance}\n"
        "            self._process(msg)\n"
    )


_L_OLD = (
    "length = self.__blen if self.__len is None else self.__len\n"
    "        while length <= len(self.__buf):\n"
    "            if self.__len is None:\n"
    "                self.__len = struct.unpack('>L', self.__buf[:length])[0]\n"
    "                self.__buf = self.__buf[length:]\n"
    "            else:\n"
    "                record = pickle.loads(self.__buf[:length])\n"
    "                self.__actual.handle(logging.makeLogRecord(record))\n"
    "                self.__actual.flush()\n"
    "                self.__buf = self.__buf[length:]\n"
    "                self.__len = None\n"
    "                pass\n"
    "\n"
    "            length = self.__blen if self.__len is None else self.__len\n"
    "            pass\n"
)
# log sink, stateless: while True, header and body sliced into locals first, if/else with the exit in the else branch,
# return instead of break, the record handled before the buffer is advanced (as today)
_L_PEEK = (
    "while True:\n"
    "            if len(self.__buf) < self.__blen:\n"
    "                return\n"
    "            header = self.__buf[: self.__blen]\n"
    "            (size,) = struct.unpack('>L', header)\n"
    "            payload = self.__buf[self.__blen : self.__blen + size]\n"
    "            if len(self.__buf) >= self.__blen + size:\n"
    "                record = pickle.loads(payload)\n"
    "                self.__actual.handle(logging.makeLogRecord(record))\n"
    "                self.__actual.flush()\n"
    "                self.__buf = self.__buf[self.__blen + size :]\n"
    "            else:\n"
    "                return\n"
)
_C_OLD = (
    "length = ( self.__buf['actual'] if self.__buf['expected'] is None else self.__buf['expected'] )\n"
    "        while length <= len(self.__buf['data']):\n"
    "            if self.__buf['expected'] is None:\n"
    "                self.__buf['expected'] = struct.unpack( '>I', self.__buf['data'][:length] )[0]\n"
    "                self.__buf['data'] = self.__buf['data'][length:]\n"
    "            else:\n"
    "                request = pickle.loads(self.__buf['data'][:length])\n"
    "                self.__buf['data'] = self.__buf['data'][length:]\n"
    "                self.__buf['expected'] = None\n"
)
# database worker, stateless: remaining-bytes spelling of the completeness test, slice of a slice, the buffer advanced
# in two steps (header, then body); the old recomputation of `length` at the end of the body stays behind as a dead store
_C_PEEK = (
    "while self.__buf['actual'] <= len(self.__buf['data']):\n"
    "            length = struct.unpack('>I', self.__buf['data'][: self.__buf['actual']])[0]\n"
    "            if len(self.__buf['data']) - self.__buf['actual'] < length:\n"
    "                break\n"
    "            if True:\n"
    "                rest = self.__buf['data'][self.__buf['actual'] :]\n"
    "                request = pickle.loads(rest[:length])\n"
    "                self.__buf['data'] = rest\n"
    "                self.__buf['data'] = self.__buf['data'][length:]\n"
)

VARIANTS = [
    # ---- R-C14-1, stateless ("peek") style of the reassembly loops
    V('peek: farm, the stateless rewrite', 'N', _F, 'Hand.dataReceived', _F_OLD, _peek(), None),
    V('peek: log sink, locals first, if/else, return', 'N', _L, 'LogSink.dataReceived', _L_OLD, _L_PEEK, None),
    V('peek: db worker, remaining-bytes test, slice of a slice, two-step advance', 'N', _C, 'Worker.dataReceived', _C_OLD, _C_PEEK, None),
    V('peek: farm, while True / return, inverted test, literal width, from_bytes', 'N', _F, 'Hand.dataReceived', _F_OLD,
      _peek(head='while True:\n            if not 4 <= len(self.__buf):\n                return',
            decode="length = int.from_bytes(self.__buf[:4], 'big')", test='not (len(self.__buf) - length >= 4)', leave='return',
            pre='pass', body='self.__buf[4 : 4 + length]', advance='self.__buf = self.__buf[length + 4 :]'), None),
    V('peek: farm, completeness cached in a boolean local, unpack_from', 'N', _F, 'Hand.dataReceived', _F_OLD,
      _peek(decode="length = struct.unpack_from('>I', self.__buf)[0]\n            complete = self.__blen + length <= len(self.__buf)", test='not complete'), None),
    V('peek: farm, local working copy written back after the loop', 'N', _F, 'Hand.dataReceived', 'self.__buf += data\n        ' + _F_OLD,
      "pending = self.__buf + data\n"
      "        while len(pending) >= 4:\n"
      "            (size,) = struct.unpack('>I', pending[:4])\n"
      "            if 4 + size > len(pending):\n"
      "                break\n"
      "            frame, pending = pending[4 : 4 + size], pending[4 + size :]\n"
      "            self._process(dawgie.pl.message.loads(frame))\n"
      "        self.__buf = pending\n", None),
    V('peek: farm, frame length and completeness through helpers', 'N', _F, 'Hand.dataReceived',
      'def dataReceived(self, data):\n        # protocols are independent even if similar today\n        # pylint: disable=duplicate-code\n'
      '        self.__buf += data\n        ' + _F_OLD,
      "def _frame_len(self):\n"
      "        return struct.unpack('>I', self.__buf[: self.__blen])[0]\n\n"
      "    def _complete(self, size):\n"
      "        return self.__blen + size <= len(self.__buf)\n\n"
      "    def dataReceived(self, data):\n"
      "        if data:\n"
      "            self.__buf = self.__buf + data\n"
      "        while self.__blen <= len(self.__buf):\n"
      "            size = self._frame_len()\n"
      "            if not self._complete(size):\n"
      "                return\n"
      "            msg = dawgie.pl.message.loads(self.__buf[self.__blen :][:size])\n"
      "            self.__buf = self.__buf[self.__blen + size :]\n"
      "            self._process(msg)\n", None),
    V('peek: farm, received data appended twice', 'B', _F, 'Hand.dataReceived', 'self.__buf += data\n        ' + _F_OLD,
      'self.__buf += data\n        self.__buf += data\n        ' + _peek(), 'R-C14-1'),
    V('peek: farm, append skipped for some non-empty data', 'B', _F, 'Hand.dataReceived', 'self.__buf += data\n        ' + _F_OLD,
      'if len(data) > 1:\n            self.__buf += data\n        ' + _peek(), 'R-C14-1'),
    V('peek: farm, completeness test forgets the header bytes', 'B', _F, 'Hand.dataReceived', _F_OLD, _peek(test='len(self.__buf) < length'), 'R-C14-1'),
    V('peek: farm, buffer advanced by the body length only', 'B', _F, 'Hand.dataReceived', _F_OLD, _peek(advance='self.__buf = self.__buf[length:]'), 'R-C14-1'),
    V('peek: farm, message decoded from buffer[0:L]', 'B', _F, 'Hand.dataReceived', _F_OLD, _peek(body='self.__buf[:length]'), 'R-C14-1'),
    V('peek: farm, incomplete frame spins (continue)', 'B', _F, 'Hand.dataReceived', _F_OLD, _peek(leave='continue'), 'R-C14-1'),
    V('peek: farm, incomplete frame drops the buffer', 'B', _F, 'Hand.dataReceived', _F_OLD, _peek(leave="self.__buf = b''\nbreak"), 'R-C14-1'),
    V('peek: farm, exactly complete frame left behind', 'B', _F, 'Hand.dataReceived', _F_OLD, _peek(test='len(self.__buf) <= self.__blen + length'), 'R-C14-1'),
    V('peek: farm, leaves right after a frame', 'B', _F, 'Hand.dataReceived', _F_OLD, _peek(advance='self.__buf = self.__buf[end:]\n            break'), 'R-C14-1'),
    V('peek: farm, loop entered with fewer bytes than the header', 'B', _F, 'Hand.dataReceived', _F_OLD, _peek(head='while self.__blen < len(self.__buf) + 2:'), 'R-C14-1'),
    V('peek: farm, loop needs one byte more than the header', 'B', _F, 'Hand.dataReceived', _F_OLD, _peek(head='while self.__blen < len(self.__buf):'), 'R-C14-1'),
    V('peek: farm, length decoded from the wrong bytes', 'B', _F, 'Hand.dataReceived', _F_OLD,
      _peek(decode="length = struct.unpack('>I', self.__buf[1 : self.__blen + 1])[0]"), 'R-C14-1'),
    V('peek: farm, stale length from before the loop', 'B', _F, 'Hand.dataReceived', _F_OLD,
      _peek(head="length = struct.unpack('>I', self.__buf[: self.__blen])[0] if self.__blen <= len(self.__buf) else 0\n        while self.__blen <= len(self.__buf):", decode='pass'), 'R-C14-1'),
    V('peek: farm, received data replaces the buffer', 'B', _F, 'Hand.dataReceived', 'self.__buf += data\n        ' + _F_OLD, 'self.__buf = data\n        ' + _peek(), 'R-C14-1'),
    V('peek: log sink, record unpickled before the frame is known to be complete', 'B', _L, 'LogSink.dataReceived', _L_OLD,
      _L_PEEK.replace('payload = self.__buf[self.__blen : self.__blen + size]', 'payload = self.__buf[self.__blen : self.__blen + size]\n            record = pickle.loads(payload)'), 'R-C14-1'),
    V('peek: db worker, header removed before the frame is known to be complete', 'B', _C, 'Worker.dataReceived', _C_OLD,
      _C_PEEK.replace("            if len(self.__buf['data']) - self.__buf['actual'] < length:\n                break\n", "            self.__buf['data'] = self.__buf['data'][self.__buf['actual'] :]\n            if len(self.__buf['data']) < length:\n                break\n"), 'R-C14-1'),
    V('farm: while True, state cached in a boolean local, conditional amount', 'N', _F, 'Hand.dataReceived', _F_OLD, _f_new(), None),
    V('farm: cached state through a negated flag', 'N', _F, 'Hand.dataReceived', _F_OLD,
      _f_new(flag='have_len = not (self.__len is None)', amount='self.__len if have_len else self.__blen', test='not have_len'), None),
    V('farm: cached state taken before the loop (stale)', 'B', _F, 'Hand.dataReceived', _F_OLD,
      _f_new(pre='want_header = self.__len is None\n        ', flag='pass'), 'R-C14-1'),
    V('farm: cached state selects the wrong amount', 'B', _F, 'Hand.dataReceived', _F_OLD,
      _f_new(amount='self.__len if want_header else self.__blen'), 'R-C14-1'),
    V('farm: break leaves an exactly complete unit behind', 'B', _F, 'Hand.dataReceived', _F_OLD, _f_new(brk='len(self.__buf) <= length'), 'R-C14-1'),
    V('handshake loop slices a local copy of the buffer', 'B', 'security.py', 'TwistedWrapper.process', 'self.__buf += data\n\n        while self.__len <= len(self.__buf):\n            data = self.__buf[: self.__len]\n            self.__buf = self.__buf[self.__len :]', 'buf = self.__buf = self.__buf + data\n\n        while self.__len <= len(buf):\n            data, buf = buf[: self.__len], buf[self.__len :]\n            self.__buf = buf', 'R-C14-1'),
    # ---- R-C14-1
    V('farm: < for <=', 'B', _F, 'Hand.dataReceived', 'while length <= len(self.__buf):', 'while length < len(self.__buf):', 'R-C14-1'),
    V('log: body removes length+1', 'B', _L, 'LogSink.dataReceived', 'self.__buf = self.__buf[length:]', 'self.__buf = self.__buf[length + 1:]', 'R-C14-1', occurrence=1),
    V('db: needed not recomputed', 'B', _C, 'Worker.dataReceived', _W_LEN, 'pass', 'R-C14-1', occurrence=1),
    V('farm: expected length not reset', 'B', _F, 'Hand.dataReceived', 'self.__len = None', 'pass', 'R-C14-1'),
    V('log: header read short', 'B', _L, 'LogSink.dataReceived', "struct.unpack('>L', self.__buf[:length])", "struct.unpack('>H', self.__buf[:2])", 'R-C14-1'),
    V('db: residual dropped on new data', 'B', _C, 'Worker.dataReceived', "self.__buf['data'] += data", "self.__buf['data'] = data", 'R-C14-1'),
    V('db: body parsed from the received chunk', 'B', _C, 'Worker.dataReceived', "pickle.loads(self.__buf['data'][:length])", 'pickle.loads(data[:length])', 'R-C14-1'),
    V('handshake: chunk one byte long', 'B', _S, 'TwistedWrapper.process', 'data = self.__buf[: self.__len]', 'data = self.__buf[: self.__len + 1]', 'R-C14-1'),
    V('handshake: buffer advanced after the phase changed the length', 'B', _S, 'TwistedWrapper.process',
      'self.__buf = self.__buf[self.__len :]\n\n            if not self.__phase(data):',
      'if not self.__phase(data):', 'R-C14-1'),
    V('handshake: p3 announces 4 bytes for the 8-byte double header', 'B', _S, 'TwistedWrapper._p3', 'self.__len = 8', 'self.__len = 4', 'R-C14-1'),
    V('farm: _process clears the buffer', 'B', _F, 'Hand._reg', '_workers.append(self)', "_workers.append(self)\n            self.__buf = b''", 'R-C14-1'),
    V('farm: while True / break', 'N', _F, 'Hand.dataReceived', 'while length <= len(self.__buf):',
      'while True:\n            if length > len(self.__buf):\n                break', None),
    V('farm: reorder reset and advance', 'N', _F, 'Hand.dataReceived', 'self.__buf = self.__buf[length:]\n                self.__len = None',
      'self.__len = None\n                self.__buf = self.__buf[length:]', None),
    V('log: guard written the other way round', 'N', _L, 'LogSink.dataReceived', 'while length <= len(self.__buf):', 'while not len(self.__buf) < length:', None),
    V('db: added logging and local alias of the chunk', 'N', _C, 'Worker.dataReceived', "request = pickle.loads(self.__buf['data'][:length])",
      "chunk = self.__buf['data'][:length]\n                log.debug('unit of %d bytes', len(chunk))\n                request = pickle.loads(chunk)", None),
    V('handshake: phase result through a local', 'N', _S, 'TwistedWrapper.process', 'if not self.__phase(data):', 'ok = self.__phase(data)\n            if not ok:', None),
    V('handshake: return instead of the length trick', 'N', _S, 'TwistedWrapper.process', 'self.__len = len(self.__buf) + 1  # break out of the while loop', 'return', None),
    # ---- R-C14-2
    V('gate: restore outside the valid test', 'B', _S, 'TwistedWrapper._p5', 'if response.valid and self.__dr is not None:', 'if self.__dr is not None:', 'R-C14-2'),
    V('gate: residual cleared before delivery', 'B', _S, 'TwistedWrapper._p5', "self.__dr(self.__buf)\n            self.__buf = b''", "self.__buf = b''\n            self.__dr(self.__buf)", 'R-C14-2'),
    V('gate: residual never cleared', 'B', _S, 'TwistedWrapper._p5', "self.__buf = b''", 'pass', 'R-C14-2'),
    V('gate: residual not delivered', 'B', _S, 'TwistedWrapper._p5', 'self.__dr(self.__buf)', "self.__dr(b'')", 'R-C14-2'),
    V('gate: echo not compared', 'B', _S, 'TwistedWrapper._p5', 'response.valid = reply.strip() == self.__msg.strip()', 'response.valid = bool(reply.strip())', 'R-C14-2'),
    V('gate: p5 always reports success', 'B', _S, 'TwistedWrapper._p5', 'return response.valid', 'return True', 'R-C14-2'),
    V('gate: after p5 the handshake restarts', 'B', _S, 'TwistedWrapper._p5', 'self.__phase = self._p6', 'self.__phase = self._p1', 'R-C14-2'),
    V('gate: p6 accepts', 'B', _S, 'TwistedWrapper._p6', 'return False', 'return True', 'R-C14-2'),
    V('gate: failed phase does not close', 'B', _S, 'TwistedWrapper.process', 'self.__p.transport.loseConnection()', 'pass', 'R-C14-2'),
    V('gate: loop continues after a failed phase', 'B', _S, 'TwistedWrapper.process', 'self.__len = len(self.__buf) + 1  # break out of the while loop', 'pass', 'R-C14-2'),
    V('gate: phase result ignored', 'B', _S, 'TwistedWrapper.process', 'if not self.__phase(data):', 'self.__phase(data)\n            if False:', 'R-C14-2'),
    V('gate: original saved after the replacement', 'B', _S, 'TwistedWrapper.__init__',
      "self.__dr = getattr(protocol, 'dataReceived')\n            setattr(protocol, 'dataReceived', self.process)",
      "setattr(protocol, 'dataReceived', self.process)\n            self.__dr = getattr(protocol, 'dataReceived')", 'R-C14-2'),
    V('gate: install under an extra condition', 'B', _S, 'TwistedWrapper.__init__', "if address and 0 < dir(protocol).count('dataReceived'):", "if address and 0 < dir(protocol).count('dataReceived') and _certs:", 'R-C14-2'),
    V('gate: farm installs the handshake when TLS is used', 'B', _F, 'Hand.__init__', 'if not dawgie.security.use_tls():', 'if dawgie.security.use_tls():', 'R-C14-2'),
    V('gate: db worker without the wrapper', 'B', _C, 'Worker.__init__', 'self.__handshake = dawgie.security.TwistedWrapper(self, address)', 'pass', 'R-C14-2'),
    V('gate: log sink wrapped unconditionally', 'B', _L, 'LogSink.__init__', 'if not dawgie.security.use_tls():', 'if True:', 'R-C14-2'),
    V('gate: farm rebinds dataReceived itself', 'B', _F, 'Hand._reg', '_workers.append(self)', '_workers.append(self)\n            self.dataReceived = self._process', 'R-C14-2'),
    V('gate: restore by attribute assignment', 'N', _S, 'TwistedWrapper._p5', "setattr(self.__p, 'dataReceived', self.__dr)", 'self.__p.dataReceived = self.__dr', None),
    V('gate: deliver, then restore, then clear', 'N', _S, 'TwistedWrapper._p5', "setattr(self.__p, 'dataReceived', self.__dr)\n            self.__dr(self.__buf)",
      "self.__dr(self.__buf)\n            setattr(self.__p, 'dataReceived', self.__dr)", None),
    V('gate: hasattr instead of dir().count', 'N', _S, 'TwistedWrapper.__init__', "0 < dir(protocol).count('dataReceived')", "hasattr(protocol, 'dataReceived')", None),
    V('gate: log sink if/else the other way round', 'N', _L, 'LogSink.__init__', 'if not dawgie.security.use_tls():', 'if dawgie.security.use_tls():\n            pass\n        else:', None),
    V('gate: nested valid tests merged', 'N', _S, 'TwistedWrapper._p5', 'if response.valid:\n            log.debug', 'if response.valid and True:\n            log.debug', None),
    # ---- R-C14-3
    V('framing: farm sender little-endian', 'B', 'pl/message.py', 'send', "struct.pack('>I', len(stream))", "struct.pack('<I', len(stream))", 'R-C14-3'),
    V('framing: db reply with a 2-byte prefix', 'B', _C, 'Worker._send', "struct.pack('>I', len(msg))", "struct.pack('>H', len(msg))", 'R-C14-3'),
    V('framing: handshake length in native order', 'B', _S, 'TwistedWrapper._p2', "struct.unpack('>I', data)", "struct.unpack('=I', data)", 'R-C14-3'),
    V('framing: log header little-endian', 'B', _L, 'LogSink.dataReceived', "struct.unpack('>L', self.__buf[:length])", "struct.unpack('<L', self.__buf[:length])", 'R-C14-3'),
    V('framing: network order spelled !', 'N', 'pl/message.py', 'receive', "struct.unpack('>I', buf)", "struct.unpack('!I', buf)", None),
    # ---- R-C14-4
    V('recv: farm client reads through a per-call buffered file', 'B', 'pl/message.py', 'receive', 'while len(buf) < length:\n        buf += s.recv(length - len(buf))', "with s.makefile('rb') as stream:\n        buf = stream.read(length)", 'R-C14-4'),
    V('challenge built by a helper with definition-time defaults', 'B', 'security.py', None, 'class TwistedWrapper:', 'def _challenge(stamp=datetime.datetime.now(datetime.UTC), unique=random.random()):\n    return str(stamp) + str(unique)\n\n\nclass TwistedWrapper:', 'R-C14-5'),
    V('recv: farm client reads the body in one go', 'B', 'pl/message.py', 'receive', 'while len(buf) < length:\n        buf += s.recv(length - len(buf))', 'buf = s.recv(length)', 'R-C14-4'),
    V('recv: db client header read once', 'B', _C, 'Connector.__do', 'while len(buf) < 4:', 'if len(buf) < 4:', 'R-C14-4'),
    V('recv: db client asks for the total again', 'B', _C, 'Connector.__do', 'buf += s.recv(length - len(buf))', 'buf += s.recv(length)', 'R-C14-4'),
    V('recv: (after C14-1) helper asks for the total again', 'B', _S, '_recv_exactly', 'chunk = s.recv(total - len(buf))', 'chunk = s.recv(total)', 'R-C14-4'),
    V('recv: result through a local', 'N', 'pl/message.py', 'receive', 'buf += s.recv(4 - len(buf))', 'part = s.recv(4 - len(buf))\n        buf += part', None),
]
